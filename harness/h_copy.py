"""C19 -- copy_fs / copy_dir / mirror produce exact replicas; conditional copies obey their rule.

Every case is a pair of generated trees (source, destination) built on a pair of backends,
one call of fs.copy.* or fs.mirror.mirror on the real code in /repo, and a comparison of the
complete destination state before / after with an expectation computed here from the tree
specifications alone (never from the implementation's own walker or condition code):

  copy_fs / copy_dir            every walker-selected source file is at the corresponding
                                destination path with the source bytes (and the source mtime when
                                preserve_time); everything else in the destination is unchanged;
                                only source directories (and the parents of dst_path) may appear
  copy_*_if (5 conditions)      exactly the files for which the documented condition holds
                                (Copy/CopyCond.v cond_spec) carry the source bytes afterwards, all
                                others are unchanged; copy_file_if returns 'copied'; the on_copy
                                callbacks are exactly the copied files
  mirror(copy_if_newer=False)   default walker: destination == source (paths, types, bytes; mtimes
                                when preserve_time); other walkers: selected files present, listed
                                directories exist; a second mirror leaves the state unchanged
  mirror(copy_if_newer=True)    a destination file of the same size that is not older than the
                                source is kept, every other file is replaced (fs/mirror.py _compare);
                                a second pass performs no mutating call at all

File/directory conflicts (source file vs destination directory and the reverse) may make the
copy functions raise an fs.errors exception; then only 'nothing unrelated changed' is checked.
The source must never change.  Source and destination bytes always differ ('S:'+path vs
'D:'+path), so the origin of every byte string in the destination is unambiguous.
"""
from __future__ import print_function

import fnmatch
import re
import json
import os
import random
import shutil
import sys
import tempfile
import time

import common

PID = "C19"
# TODO PENDING_FINDINGS: misbehaviours of the UNCHANGED library exposed by new coverage, not yet in known_findings.json
# (routed through report.known_match(); they print as KNOWN-FINDING once registered, until then they are skipped)
DEPTH_FIRST_STRUCTURE_SIG = ("copy_fs/copy_dir(walker=Walker(search='depth')): copy_structure makes a nested directory "
                             "before its parent (ResourceNotFound)")
PENDING_FINDINGS = []      # genuine defect, repaired in /repo (0b927fa): a violation again if it returns
LOCAL_KNOWN = os.path.join(os.path.dirname(os.path.abspath(__file__)), "c19_known_local.json")
BASE = 1000000000

FILE_NAMES = ["a.txt", "b.bin", "c.txt", "d", "e.txt"]
DIR_NAMES = ["sub", "skipme", "deep", "z"]
OTHER_FILES = ["p.txt", "q.bin", "r"]
OTHER_DIRS = ["other", "skipold", "keep"]

BACKENDS = ["mem-mem", "mem-os", "os-mem", "sub-sub"]
# source and destination are the SAME filesystem object: the source tree lives under /src, the
# destination tree under /dst, a bystander under /by (copy_file_internal's `src_fs is dst_fs` path)
SAME_BACKENDS = ["same-mem", "same-os", "same-sub"]
# READ-ONLY / composite sources (the destination is a MemoryFS or an OS directory): the source tree is put in place
# WITHOUT the library's writers where an archive is involved (zipfile / tarfile), then opened the read-only way
RO_SOURCES = ["rozip", "rotar", "romem", "cachedos", "multi", "mount"]
RO_SOURCE_NAMES = {"rozip": "ReadZipFS", "rotar": "ReadTarFS", "romem": "read_only(MemoryFS)",
                   "cachedos": "cache_directory(OSFS)", "multi": "MultiFS without a write member",
                   "mount": "MountFS (top-level directories mounted, some read-only)"}
RO_BACKENDS = [a + "-" + b for a in RO_SOURCES for b in ("mem", "os")]
WALKERS = ["none", "filter", "exclude_dirs", "max_depth"]
CONDITIONS = ["always", "newer", "older", "exists", "not_exists"]
RELATIONS = ["empty", "disjoint", "overlapping", "conflicting"]


# --------------------------------------------------------------------------- modification times
# A file's time field k is a number (mtime = BASE + k; integer or fractional) or ["@", t] (the absolute epoch
# value t: 0, negative, far future).  MemoryFS stores the float it is given; an OS directory stores nanoseconds.

TIME_DELTAS = [0.25, 0.001, 0.000001]
TIME_ANCHORS = [("recent", BASE + 15), ("epoch", 0), ("epoch-crossing", -1), ("negative", -1000000),
                ("beyond-2^32", 4300000000), ("year-3000", 32503680000)]
FUTURE = 1500000000          # source times beyond this are 'in the future' for a freshly written destination file


def mt(k):
    return k[1] if isinstance(k, (list, tuple)) else BASE + k


_os_cache = {}


def os_time(x):
    """Reference for 'the OS resolution': the st_mtime a file of the temp directory's filesystem reports after
    os.utime(path, (x, x)) (what OSFS.setinfo is documented to do); None when the OS refuses the value."""
    if x not in _os_cache:
        fd, path = tempfile.mkstemp(prefix="pyfs2verif_c19_t")
        try:
            os.close(fd)
            os.utime(path, (float(x), float(x)))
            _os_cache[x] = os.stat(path).st_mtime
        except (OSError, OverflowError, ValueError):
            _os_cache[x] = None
        finally:
            os.remove(path)
    return _os_cache[x]


def os_fix(x):
    """The value an OS directory can hold for x: a fixed point of os_time within 1 microsecond of x, or None
    (value refused or clamped by the filesystem, or the float <-> nanosecond conversion does not settle)."""
    y = os_time(x)
    for _ in range(4):
        if y is None or abs(y - x) > 1e-6 * max(1.0, abs(x) / 1e9):
            return None
        z = os_time(y)
        if z == y:
            return y
        y = z
    return None


def backend_os(kind):
    """(source is an OS directory, destination is an OS directory)."""
    if kind.startswith("same-"):
        return (kind == "same-os",) * 2
    a, b = kind.split("-")
    return a in ("os", "cachedos"), b == "os"


def ro_source(kind):
    a = kind.split("-")[0]
    return a if a in RO_SOURCES else None


def ro_time(a, t):
    """details.modified a read-only source of kind `a` reports for a file whose time was given as t: zip members hold
    even seconds (DOS time, written here from the UTC broken-down time, read back as UTC by ReadZipFS), tar members
    hold the value itself (pax header), an OS directory what os.utime stores, the others the value itself."""
    if a == "rozip":
        e = int(t // 1)
        return e - e % 2
    if a == "cachedos":
        return os_time(t)
    return t


def time_pairs():
    """Systematic (anchor, delta, relation, source time, destination time) table: differences of 0.25 s / 1 ms /
    1 us inside one second and across a second boundary, equal times, a whole second apart, around every anchor."""
    out = []
    for aname, a in TIME_ANCHORS:
        for d in TIME_DELTAS:
            out.append((aname, d, "within-second newer", a + 0.5 + d, a + 0.5))
            out.append((aname, d, "within-second older", a + 0.5, a + 0.5 + d))
            out.append((aname, d, "across-boundary newer", a + 1, a + 1 - d))
            out.append((aname, d, "across-boundary older", a + 1 - d, a + 1))
            out.append((aname, d, "equal fractional", a + 0.5 + d, a + 0.5 + d))
        out.append((aname, 1, "one second newer", a + 1.25, a + 0.25))
        out.append((aname, 1, "one second older", a + 0.25, a + 1.25))
        out.append((aname, 0, "equal whole", a, a))
    return out


TIME_FILES = ["/t0.txt", "/t1.txt", "/sub/t2.txt", "/sub/t3.txt", "/sub/deep/t4.txt"]


def time_trees(canon):
    """[(src spec, dst spec, [table rows])]: five overlapping same-size files per tree carry one table row each.
    canon: the values are mapped to what an OS directory can hold (rows it cannot hold are dropped)."""
    rows = []
    skipped = 0
    for row in time_pairs():
        st, dt = row[3], row[4]
        if canon:
            st, dt = os_fix(st), os_fix(dt)
            if st is None or dt is None:
                skipped += 1
                continue
        rows.append(row[:3] + (st, dt))
    trees = []
    for i in range(0, len(rows), len(TIME_FILES)):
        chunk = rows[i:i + len(TIME_FILES)]
        src = {"/sub": ["d"], "/sub/deep": ["d"], "/only_src.txt": ["f", ["@", chunk[0][3]], 0]}
        dst = {"/sub": ["d"], "/sub/deep": ["d"], "/extra.txt": ["f", 3, 0], "/keep": ["d"]}
        for path, row in zip(TIME_FILES, chunk):
            src[path] = ["f", ["@", row[3]], 0]
            dst[path] = ["f", ["@", row[4]], 0]
        trees.append((src, dst, chunk))
    return trees, skipped


def retime(rnd, src, dst):
    """Time-resolution variant of a generated pair: every file keeps its whole second, overlapping files keep
    their relation (older / equal / newer) but differ by 0.25 s / 1 ms / 1 us, inside one second or across a
    second boundary; all other files get a fractional part."""
    fr = [0, 0.25, 0.5, 0.75, 0.001, 0.999999]
    s2, d2 = {}, {}
    for p, nd in src.items():
        s2[p] = list(nd)
    for p, nd in dst.items():
        d2[p] = list(nd)
    for p in sorted(set(s2) | set(d2)):
        a, b = s2.get(p), d2.get(p)
        if a is not None and b is not None and a[0] == "f" and b[0] == "f":
            n, d = a[1], rnd.choice(TIME_DELTAS)
            lo, hi = rnd.choice([(n + 0.5, n + 0.5 + d), (n + 1 - d, n + 1)])
            if b[1] == a[1]:
                a[1] = b[1] = hi
            elif b[1] < a[1]:
                a[1], b[1] = hi, lo
            else:
                a[1], b[1] = lo, hi
        else:
            for nd in (a, b):
                if nd is not None and nd[0] == "f":
                    nd[1] = nd[1] + rnd.choice(fr)
    return s2, d2


# --------------------------------------------------------------------------- tree specifications
# spec: dict path -> ["d"] | ["f", k, pad]   (mtime = mt(k); content = prefix + path + "." * pad)

def parents(p):
    out = []
    while True:
        p = p.rsplit("/", 1)[0]
        if not p:
            return out
        out.append(p)


def content(side, p, pad):
    return (side + ":" + p + "." * pad).encode("utf8")


def gen_src(rnd, max_nodes):
    spec = {}

    def fill(base, depth, budget):
        for name in rnd.sample(FILE_NAMES, rnd.randint(0, 3)):
            if budget[0] <= 0:
                return
            budget[0] -= 1
            spec[base + "/" + name] = ["f", rnd.randint(10, 20), 0]
        if depth < 3:
            for name in rnd.sample(DIR_NAMES, rnd.randint(0, 2)):
                if budget[0] <= 0:
                    return
                budget[0] -= 1
                spec[base + "/" + name] = ["d"]
                fill(base + "/" + name, depth + 1, budget)
    fill("", 0, [max_nodes])
    return spec


def gen_other(rnd, n):
    spec = {}
    for _ in range(n):
        base = ""
        for _d in range(rnd.randint(0, 2)):
            base = base + "/" + rnd.choice(OTHER_DIRS)
            spec[base] = ["d"]
        if rnd.random() < 0.7:
            spec[base + "/" + rnd.choice(OTHER_FILES)] = ["f", rnd.randint(0, 30), rnd.choice([0, 0, 2])]
    return spec


def gen_dst(rnd, src, relation):
    if relation == "empty":
        return {}
    dst = gen_other(rnd, rnd.randint(1, 3))
    if relation == "disjoint":
        return dst
    for p, nd in sorted(src.items()):
        if nd[0] == "f" and rnd.random() < 0.6:
            rel = rnd.choice(["older", "equal", "newer"])
            k = nd[1] + {"older": -rnd.randint(1, 5), "equal": 0, "newer": rnd.randint(1, 5)}[rel]
            for a in parents(p):
                dst[a] = ["d"]
            dst[p] = ["f", k, rnd.choice([0, 0, 0, 1])]      # pad 1: size differs from the source
        elif nd[0] == "d" and rnd.random() < 0.5:
            for a in parents(p):
                dst[a] = ["d"]
            dst[p] = ["d"]
            if rnd.random() < 0.5:
                dst[p + "/" + rnd.choice(OTHER_FILES)] = ["f", rnd.randint(0, 30), 0]
    if relation == "conflicting" and src:
        for p in rnd.sample(sorted(src), min(len(src), rnd.randint(1, 2))):
            if any(a in dst and dst[a][0] == "f" for a in parents(p)):
                continue
            for q in [q for q in dst if q == p or q.startswith(p + "/")]:
                del dst[q]
            for a in parents(p):
                dst[a] = ["d"]
            if src[p][0] == "f":
                dst[p] = ["d"]                                  # source file, destination directory
                if rnd.random() < 0.6:
                    dst[p + "/inner.txt"] = ["f", rnd.randint(0, 30), 0]
            else:
                dst[p] = ["f", rnd.randint(0, 30), 0]           # source directory, destination file
    return dst


def build(fs, spec, side):
    for p in sorted(spec):
        nd = spec[p]
        if nd[0] == "d":
            fs.makedir(p, recreate=True)
        else:
            fs.writebytes(p, content(side, p, nd[2]))
    for p in sorted(spec):
        nd = spec[p]
        if nd[0] == "f":
            fs.setinfo(p, {"details": {"modified": mt(nd[1])}})


def spec_state(spec, side, osb=False):
    """Expected snapshot of a freshly built tree; osb: the tree lives in an OS directory (nanosecond times)."""
    return dict((p, ("d",) if nd[0] == "d" else ("f", content(side, p, nd[2]), os_time(mt(nd[1])) if osb else mt(nd[1])))
                for p, nd in spec.items())


def snap(fs):
    out = {}
    for path, info in fs.walk.info(namespaces=["details"]):
        if info.is_dir:
            out[path] = ("d",)
        else:
            out[path] = ("f", fs.readbytes(path), info.raw["details"].get("modified"))
    return out


# --------------------------------------------------------------------------- backends

class Pair(object):
    def __init__(self, kind):
        from fs.memoryfs import MemoryFS
        from fs.osfs import OSFS
        self.kind = kind
        self.tmp = []
        self.parent = None
        if kind.startswith("same-"):
            if kind == "same-mem":
                f = MemoryFS()
            elif kind == "same-os":
                d = tempfile.mkdtemp(prefix="pyfs2verif_c19_")
                self.tmp.append(d)
                f = OSFS(d)
            else:
                self.parent = MemoryFS()
                self.parent.makedirs("root")
                self.parent.makedirs("other/deep")
                self.parent.writebytes("other/deep/keep.txt", b"keep")
                f = self.parent.opendir("root")
            self.src = self.dst = f
        elif ro_source(kind):
            self.ro = ro_source(kind)
            self.src = None                 # made by build_source() from the tree specification
            self.extra = []
            if kind.split("-")[1] == "mem":
                self.dst = MemoryFS()
            else:
                d = tempfile.mkdtemp(prefix="pyfs2verif_c19_")
                self.tmp.append(d)
                self.dst = OSFS(d)
        elif kind == "sub-sub":
            self.parent = MemoryFS()
            self.parent.makedirs("s")
            self.parent.makedirs("d")
            self.parent.makedirs("other/deep")
            self.parent.writebytes("other/deep/keep.txt", b"keep")
            self.src = self.parent.opendir("s")
            self.dst = self.parent.opendir("d")
        else:
            a, b = kind.split("-")

            def mk(k):
                if k == "mem":
                    return MemoryFS()
                d = tempfile.mkdtemp(prefix="pyfs2verif_c19_")
                self.tmp.append(d)
                return OSFS(d)
            self.src = mk(a)
            self.dst = mk(b)

    def build_source(self, spec):
        """The source tree of a read-only / composite source kind."""
        import io
        import tarfile
        import zipfile
        import fs.wrap
        from fs.memoryfs import MemoryFS
        from fs.mountfs import MountFS
        from fs.multifs import MultiFS
        from fs.osfs import OSFS
        from fs.tarfs import ReadTarFS
        from fs.zipfs import ReadZipFS
        a = self.ro
        if a == "rozip":
            buf = io.BytesIO()
            with zipfile.ZipFile(buf, "w") as z:
                for p in sorted(spec):
                    nd = spec[p]
                    if nd[0] == "d":
                        z.writestr(zipfile.ZipInfo(p[1:] + "/", date_time=time.gmtime(BASE)[:6]), b"")
                    else:
                        z.writestr(zipfile.ZipInfo(p[1:], date_time=time.gmtime(int(mt(nd[1]) // 1))[:6]),
                                   content("S", p, nd[2]))
            buf.seek(0)
            self.src = ReadZipFS(buf)
        elif a == "rotar":
            buf = io.BytesIO()
            with tarfile.open(fileobj=buf, mode="w", format=tarfile.PAX_FORMAT) as t:
                for p in sorted(spec):
                    nd = spec[p]
                    ti = tarfile.TarInfo(p[1:])
                    if nd[0] == "d":
                        ti.type = tarfile.DIRTYPE
                        ti.mtime = BASE
                        t.addfile(ti)
                    else:
                        data = content("S", p, nd[2])
                        ti.size = len(data)
                        ti.mtime = mt(nd[1])
                        t.addfile(ti, io.BytesIO(data))
            buf.seek(0)
            self.src = ReadTarFS(buf)
        elif a == "romem":
            m = MemoryFS()
            self.extra.append(m)
            build(m, spec, "S")
            self.src = fs.wrap.read_only(m)
        elif a == "cachedos":
            d = tempfile.mkdtemp(prefix="pyfs2verif_c19_")
            self.tmp.append(d)
            o = OSFS(d)
            self.extra.append(o)
            build(o, spec, "S")
            self.src = fs.wrap.cache_directory(o)
        else:
            tops = sorted(set(p.split("/")[1] for p in spec))
            if a == "multi":
                members = [MemoryFS(), MemoryFS()]
                self.extra += members
                for i, m in enumerate(members):
                    build(m, dict((p, nd) for p, nd in spec.items() if tops.index(p.split("/")[1]) % 2 == i), "S")
                multi = MultiFS(auto_close=False)
                for i, m in enumerate(members):
                    multi.add_fs("member%d" % i, m, write=False)
                self.src = multi
            else:
                mount = MountFS(auto_close=False)
                for i, top in enumerate(tops):
                    if spec["/" + top][0] != "d":
                        continue
                    m = MemoryFS()
                    self.extra.append(m)
                    pre = "/" + top
                    # same bytes as everywhere else: the content is derived from the path in the SOURCE tree
                    sub = dict((p[len(pre):], nd) for p, nd in spec.items() if p.startswith(pre + "/"))
                    for q in sorted(sub):
                        if sub[q][0] == "d":
                            m.makedir(q, recreate=True)
                        else:
                            m.writebytes(q, content("S", pre + q, sub[q][2]))
                    for q in sorted(sub):
                        if sub[q][0] == "f":
                            m.setinfo(q, {"details": {"modified": mt(sub[q][1])}})
                    mount.mount(pre, fs.wrap.read_only(m) if i % 2 else m)
                build(mount, dict((p, nd) for p, nd in spec.items() if p.count("/") == 1 and nd[0] == "f"), "S")
                self.src = mount

    def outside(self):
        if self.parent is None:
            return None
        return sorted((p, i.is_dir) for p, i in self.parent.walk.info() if p == "/other" or p.startswith("/other/")), \
            self.parent.readbytes("other/deep/keep.txt"), sorted(self.parent.listdir("/"))

    def close(self):
        for f in [self.src, self.dst, self.parent] + list(getattr(self, "extra", [])):
            try:
                if f is not None:
                    f.close()
            except Exception:  # noqa
                pass
        for d in self.tmp:
            shutil.rmtree(d, ignore_errors=True)


MUTATORS = ["openbin", "open", "writebytes", "writetext", "writefile", "upload", "setinfo", "remove", "removedir",
            "removetree", "makedir", "makedirs", "create", "touch", "move", "movedir", "copy", "copydir", "appendbytes",
            "appendtext", "settimes", "setbytes", "settext", "setbinfile", "setfile"]


def count_mutations(fs, log):
    """Record every mutating call made on this filesystem object (instance-level patch)."""
    def make(name, orig):
        def wrapper(*a, **kw):
            if name in ("openbin", "open"):
                mode = kw.get("mode", a[1] if len(a) > 1 else "r")
                if not any(c in mode for c in "wax+"):
                    return orig(*a, **kw)
            if name in ("makedir", "makedirs") and kw.get("recreate") and fs.isdir(a[0]):
                return orig(*a, **kw)                    # no-op on an existing directory
            log.append((name, a[0] if a else None))
            return orig(*a, **kw)
        return wrapper
    for name in MUTATORS:
        orig = getattr(fs, name, None)
        if orig is not None:
            setattr(fs, name, make(name, orig))


# --------------------------------------------------------------------------- reference semantics

def make_walker(kind):
    from fs.walk import Walker
    if kind == "none":
        return None
    if kind == "filter":
        return Walker(filter=["*.txt"])
    if kind == "exclude_dirs":
        return Walker(exclude_dirs=["skip*"])
    if kind == "max_depth":
        return Walker(max_depth=1)
    md = depth_walker(kind)
    if md is not None:
        return Walker(max_depth=md[0], search=md[1])
    raise ValueError(kind)


def depth_walker(kind):
    """'max_depth<N>' / 'max_depth<N>d' -> (N, search order) (depth-limited walkers beyond the classic max_depth=1)."""
    m = re.match(r"^max_depth(\d+)(d?)$", kind)
    return (int(m.group(1)), "depth" if m.group(2) else "breadth") if m else None


# depth-limited walkers driven from every source directory (the depth counts from the copied directory)
DEPTH_WALKERS = ["max_depth0", "max_depth2", "max_depth3", "max_depth1d", "max_depth2d"]


def rel_of(start, p):
    """Components of p below the directory `start` ('' is the root), or None."""
    if start == "":
        return p[1:].split("/")
    if p.startswith(start + "/"):
        return p[len(start) + 1:].split("/")
    return None


def selected(src, start, wkind):
    """(files, dirs) of the source spec the walker reports below `start` (reference semantics)."""
    files, dirs = [], []
    for p, nd in sorted(src.items()):
        comps = rel_of(start, p)
        if comps is None:
            continue
        anc = comps[:-1]
        if wkind == "max_depth" and len(comps) > 1:
            continue
        if depth_walker(wkind) is not None and len(comps) > max(depth_walker(wkind)[0], 1):
            # level of the resource below the START directory (the start directory itself is always scanned)
            continue
        if wkind == "exclude_dirs":
            if any(fnmatch.fnmatchcase(c, "skip*") for c in anc):
                continue
            if nd[0] == "d" and fnmatch.fnmatchcase(comps[-1], "skip*"):
                continue
        if nd[0] == "d":
            dirs.append(p)
        else:
            if wkind == "filter" and not fnmatch.fnmatchcase(comps[-1], "*.txt"):
                continue
            files.append(p)
    return files, dirs


def target(start, dst_path, p):
    """Destination path of source path p when the directory `start` is copied onto `dst_path`."""
    return (dst_path or "") + "/" + "/".join(rel_of(start, p))


def spell(p, k):
    """Alternative spellings of the directory path p ('' is the root) handed to copy_dir."""
    if k == 1:
        return (p or "") + "/"
    if k == 2:
        return p[1:] if p else "/"
    if k == 3:
        return "/zz/.." + (p or "/")
    return p or "/"


def cond_holds(cond, src_m, dst_entry):
    """Documented condition (== Copy/CopyCond.v cond_spec). dst_entry: None | ('f', bytes, m) | ('d',)."""
    if cond == "always":
        return True
    if cond in ("newer", "older"):
        if dst_entry is None:
            return True
        dm = dst_entry[2] if dst_entry[0] == "f" else None
        if src_m is None or dm is None:
            return True
        return src_m > dm if cond == "newer" else src_m < dm
    if cond == "exists":
        return dst_entry is not None
    if cond == "not_exists":
        return dst_entry is None
    raise ValueError(cond)


# --------------------------------------------------------------------------- one case

def effective(case):
    """For the same-filesystem backends the generated trees are re-rooted: source under /src,
    destination under /dst, plus a bystander /by/keep.txt; paths of the call are re-rooted alike."""
    if not case["backend"].startswith("same-"):
        return case
    c = dict(case)
    src = {"/src": ["d"]}
    for q, nd in case["src"].items():
        src["/src" + q] = nd
    dst = {"/dst": ["d"], "/by": ["d"], "/by/keep.txt": ["f", 7, 0]}
    for q, nd in case["dst"].items():
        dst["/dst" + q] = nd
    c["src"], c["dst"] = src, dst
    if "src_path" in case:
        c["src_path"] = "/src" + (case["src_path"] or "")
        c["dst_path"] = "/dst" + (case["dst_path"] or "")
    if "file" in case:
        c["file"] = "/src" + case["file"]
        c["dst_file"] = "/dst" + case["file"]
    return c


def run_case(case):
    """case: dict(fn, backend, src, dst, walker, cond, preserve_time, workers, src_path, dst_path,
    file (copy_file_if), copy_if_newer (mirror)).  Returns a list of failure dicts."""
    import fs.copy
    import fs.mirror
    import fs.errors  # noqa
    fails = []

    def bad(kind, **kw):
        fails.append(dict(kind=kind, **kw))
    orig_case = case
    case = effective(case)
    same = case["backend"].startswith("same-")
    pair = Pair(case["backend"])
    try:
        src_spec = dict((k, v) for k, v in case["src"].items())
        dst_spec = dict((k, v) for k, v in case["dst"].items())
        ro = ro_source(case["backend"])
        if ro:
            pair.build_source(src_spec)
        else:
            build(pair.src, src_spec, "S")
        build(pair.dst, dst_spec, "D")
        src_before = snap(pair.src)
        before = snap(pair.dst)
        src_os, dst_os = backend_os(case["backend"])
        src_state = spec_state(src_spec, "S", src_os)
        if ro:
            # what the source must report: bytes from the specification, times at the resolution of the source kind
            src_state = dict((p, ("d",) if nd[0] == "d" else ("f", content("S", p, nd[2]), ro_time(ro, mt(nd[1]))))
                             for p, nd in src_spec.items())
        if same:
            union = dict(src_state)
            union.update(spec_state(dst_spec, "D", dst_os))
            if before != union:
                bad("harness-build-mismatch")
                return fails
        elif src_before != src_state or before != spec_state(dst_spec, "D", dst_os):
            bad("harness-build-mismatch")
            return fails
        outside_before = pair.outside()
        fn = case["fn"]
        wkind = case.get("walker", "none")
        pt = bool(case.get("preserve_time"))
        workers = case.get("workers", 0)
        calls = []

        def on_copy(sfs, sp, dfs, dp):
            calls.append((sp, dp))
        raised = None
        result = None
        try:
            if fn in ("copy_fs", "copy_fs_if"):
                kw = dict(walker=make_walker(wkind), on_copy=on_copy, workers=workers, preserve_time=pt)
                if fn == "copy_fs":
                    fs.copy.copy_fs(pair.src, pair.dst, **kw)
                else:
                    fs.copy.copy_fs_if(pair.src, pair.dst, case["cond"], **kw)
            elif fn in ("copy_dir", "copy_dir_if"):
                kw = dict(walker=make_walker(wkind), on_copy=on_copy, workers=workers, preserve_time=pt)
                sp = spell(case["src_path"], case.get("src_spelling", 0))
                dp = spell(case["dst_path"], case.get("dst_spelling", 0))
                if fn == "copy_dir":
                    fs.copy.copy_dir(pair.src, sp, pair.dst, dp, **kw)
                else:
                    fs.copy.copy_dir_if(pair.src, sp, pair.dst, dp, case["cond"], **kw)
            elif fn == "copy_file_if":
                result = fs.copy.copy_file_if(pair.src, case["file"], pair.dst, case.get("dst_file", case["file"]),
                                              case["cond"], preserve_time=pt)
            elif fn == "copy_file":
                fs.copy.copy_file(pair.src, case["file"], pair.dst, case.get("dst_file", case["file"]),
                                  preserve_time=pt)
            elif fn == "mirror":
                fs.mirror.mirror(pair.src, pair.dst, walker=make_walker(wkind), copy_if_newer=case["copy_if_newer"],
                                 workers=workers, preserve_time=pt)
            else:
                raise ValueError(fn)
        except Exception as e:  # noqa
            raised = common.exc_name(e)
            raised_msg = str(e)[:160]
        after = snap(pair.dst)
        if not same and snap(pair.src) != src_before:
            bad("source-changed")           # (same filesystem: covered by the 'unrelated-changed' check)
        if pair.outside() != outside_before:
            bad("outside-subfs-changed")
        if raised is not None and raised.startswith("crash:"):
            bad("exception", exc=raised, message=raised_msg)
            return fails
        # harness self-check: the reference selection must agree with the real Walker
        if fn not in ("copy_file_if", "copy_file"):
            from fs.walk import Walker
            start = case.get("src_path", "") if fn.startswith("copy_dir") else ""
            w = make_walker(wkind) or Walker()
            rf, rd = selected(src_spec, start, wkind)
            if sorted(w.files(pair.src, start or "/")) != sorted(rf) or sorted(w.dirs(pair.src, start or "/")) != sorted(rd):
                bad("reference-walker-mismatch", real_files=sorted(w.files(pair.src, start or "/")), ref_files=rf)
                if fn == "mirror":
                    return fails
                # copies: the outcome is still judged against the selection derived from the source specification
        if fn == "mirror":
            check_mirror(case, pair, src_spec, before, after, raised, fails, src_state, dst_os)
            if "_second_pass_calls" in case:
                orig_case["_second_pass_calls"] = case["_second_pass_calls"]
        else:
            check_copy(case, src_spec, before, after, raised, calls, result, fails, src_state, dst_os)
    finally:
        pair.close()
    return fails


def check_copy(case, src_spec, before, after, raised, calls, result, fails, src_state, dst_os):
    """src_state: the source snapshot (RAW reported details.modified values: the conditions are judged on these and
    on the raw values of the destination snapshot `before`); dst_os: the destination keeps OS-resolution times."""
    def bad(kind, **kw):
        fails.append(dict(kind=kind, **kw))
    fn = case["fn"]
    cond = case.get("cond", "always") if fn.endswith("_if") else "always"
    pt = bool(case.get("preserve_time"))
    wkind = case.get("walker", "none")
    single = fn in ("copy_file_if", "copy_file")
    if single:
        start, dst_path = "", ""
        dirs = []
        dst_file = case.get("dst_file", case["file"])
        tfile = {dst_file: case["file"]}
    else:
        start = case.get("src_path", "") if fn.startswith("copy_dir") else ""
        dst_path = case.get("dst_path", "") if fn.startswith("copy_dir") else ""
        files, dirs = selected(src_spec, start, wkind)
        tfile = dict((target(start, dst_path, p), p) for p in files)
    tdirs = set(target(start, dst_path, p) for p in dirs)
    allowed_new_dirs = set(tdirs)
    if dst_path:
        allowed_new_dirs.add(dst_path)
        allowed_new_dirs.update(parents(dst_path))
    # conflicts: source file onto destination directory, source directory onto destination file,
    # a file in the way of dst_path; copy_file_if into a missing directory
    conflicts = [t for t in tfile if before.get(t, (None,))[0] == "d"]
    conflicts += [t for t in allowed_new_dirs if before.get(t, (None,))[0] == "f"]
    if single:
        par = parents(dst_file)
        if par and before.get(par[0], (None,))[0] != "d":
            conflicts.append(par[0])
    expect = {}
    for t, p in tfile.items():
        nd = src_spec[p]
        expect[t] = cond_holds(cond, src_state[p][2], before.get(t))
    if raised is not None and not conflicts:
        bad("exception", exc=raised, note="no file/directory conflict in this case")
        return
    strict = not conflicts
    copied = set()
    for t, p in tfile.items():
        nd = src_spec[p]
        sb = content("S", p, nd[2])
        got = after.get(t)
        is_copied = got is not None and got[0] == "f" and got[1] == sb
        if is_copied:
            copied.add(t)
        if not strict:
            if not is_copied and got != before.get(t):
                bad("unrelated-changed", path=t, before=before.get(t), after=got)
            continue
        sm = src_state[p][2]
        want_m = os_time(sm) if dst_os else sm
        if expect[t]:
            if not is_copied:
                bad("file-not-copied", path=t, cond=cond, before=before.get(t), after=got, src_mtime=sm)
            elif pt and got[2] != want_m:
                bad("mtime-not-preserved", path=t, got=got[2], want=want_m)
        else:
            if is_copied:
                bad("file-copied-against-condition", path=t, cond=cond, before=before.get(t),
                    src_mtime=sm)
            elif got != before.get(t):
                bad("unrelated-changed", path=t, before=before.get(t), after=got)
    for q in before:
        if q in tfile:
            continue
        if after.get(q) != before[q]:
            bad("unrelated-changed", path=q, before=before[q], after=after.get(q))
    for q in after:
        if q in before or q in tfile:
            continue
        if after[q][0] == "d" and q in allowed_new_dirs:
            continue
        bad("unexpected-new-resource", path=q, state=after[q])
    if strict:
        if fn == "copy_file_if":
            if result is not (dst_file in copied):
                bad("return-value", returned=result, copied=dst_file in copied)
            if result is not expect[dst_file]:
                bad("return-value-vs-condition", returned=result, expected=expect[dst_file], before=before.get(dst_file),
                    src_mtime=src_state[case["file"]][2])
        elif fn == "copy_file":
            pass
        else:
            want_calls = sorted((p, t) for t, p in tfile.items() if expect[t])
            if sorted(calls) != want_calls or len(set(calls)) != len(calls):
                bad("on_copy-mismatch", got=sorted(calls), want=want_calls)
            for d in tdirs:
                if after.get(d, (None,))[0] != "d":
                    bad("directory-not-created", path=d)


def check_mirror(case, pair, src_spec, before, after, raised, fails, src_state, dst_os):
    import fs.mirror

    def bad(kind, **kw):
        fails.append(dict(kind=kind, **kw))
    wkind = case.get("walker", "none")
    pt = bool(case.get("preserve_time"))
    newer = bool(case["copy_if_newer"])
    if raised is not None:
        bad("exception", exc=raised)
        return
    files, dirs = selected(src_spec, "", wkind)
    kept = set()
    for p in files:
        nd = src_spec[p]
        sb = content("S", p, nd[2])
        got = after.get(p)
        b = before.get(p)
        sm = src_state[p][2]                   # RAW reported source time
        want_m = os_time(sm) if dst_os else sm
        keep_ok = (newer and b is not None and b[0] == "f" and len(b[1]) == len(sb)
                   and b[2] is not None and b[2] >= sm)
        if keep_ok:
            kept.add(p)
            if got != b:
                bad("newer-destination-file-not-kept", path=p, before=b, after=got, src_mtime=sm)
            continue
        if got is None or got[0] != "f" or got[1] != sb:
            bad("file-not-mirrored", path=p, before=b, after=got, src_mtime=sm)
        elif pt and got[2] != want_m:
            bad("mtime-not-preserved", path=p, got=got[2], want=want_m)
    for d in dirs:
        if after.get(d, (None,))[0] != "d":
            bad("directory-not-mirrored", path=d, before=before.get(d), after=after.get(d))
    if wkind == "none":
        for q in after:
            if q not in src_spec:
                bad("extra-not-removed", path=q, state=after[q])
            elif (after[q][0] == "d") != (src_spec[q][0] == "d"):
                bad("type-conflict-not-resolved", path=q)
    # second pass: nothing changes; with copy_if_newer=True nothing is written at all
    log = []
    count_mutations(pair.dst, log)
    try:
        fs.mirror.mirror(pair.src, pair.dst, walker=make_walker(wkind), copy_if_newer=newer,
                         workers=case.get("workers", 0), preserve_time=pt)
    except Exception as e:  # noqa
        bad("second-pass-exception", exc=common.exc_name(e))
        return
    after2 = snap(pair.dst)
    strip = lambda st: dict((k, v[:2]) for k, v in st.items())  # noqa
    if strip(after2) != strip(after):
        diff = sorted(k for k in set(after) | set(after2) if strip(after).get(k) != strip(after2).get(k))
        bad("second-pass-changes-state", paths=diff[:5])
    structural = [c for c in log if c[0] in ("remove", "removedir", "removetree", "makedir", "makedirs", "move", "movedir")]
    if structural and strip(after2) == strip(after):
        bad("second-pass-structural-calls", calls=structural[:5])
    if newer and log:
        bad("second-pass-writes", calls=log[:5])
    case["_second_pass_calls"] = len(log)


# --------------------------------------------------------------------------- signatures, shrinking

def signature(case, fails):
    """One signature per failing case: function, walker kind when not default, first failure kind,
    plus the conflict flavour for mirror."""
    order = ["harness-build-mismatch", "reference-walker-mismatch", "exception", "source-changed", "outside-subfs-changed", "file-not-copied",
             "file-copied-against-condition", "file-not-mirrored", "newer-destination-file-not-kept",
             "directory-not-mirrored", "directory-not-created", "extra-not-removed", "type-conflict-not-resolved",
             "unrelated-changed", "unexpected-new-resource", "mtime-not-preserved", "return-value",
             "return-value-vs-condition", "on_copy-mismatch", "second-pass-exception", "second-pass-changes-state",
             "second-pass-structural-calls", "second-pass-writes"]
    kinds = [f["kind"] for f in fails]
    first = sorted(kinds, key=lambda k: order.index(k) if k in order else 99)[0]
    f0 = [f for f in fails if f["kind"] == first][0]
    fn = case["fn"]
    if fn == "mirror":
        fn = "mirror(copy_if_newer=%s)" % bool(case["copy_if_newer"])
    w = case.get("walker", "none")
    sig = fn + ("" if w == "none" else " " + w) + " " + first
    if first == "exception":
        sig += " " + f0["exc"]
        dw = depth_walker(w)
        if dw is not None and dw[1] == "depth" and f0["exc"] == "err:ResourceNotFound" and fn.startswith("copy_"):
            return DEPTH_FIRST_STRUCTURE_SIG
    if first == "directory-not-mirrored":
        b = f0.get("before")
        # structural: does not depend on copy_if_newer
        return "mirror%s %s" % ("" if w == "none" else " " + w,
                                "shadowing-file" if b is not None and b[0] == "f" else "directory-not-created")
    if first == "mtime-not-preserved" and case.get("workers"):
        sig += " workers>0"
    if case["backend"].startswith("same-"):
        sig += " (same filesystem object)"
    if ro_source(case["backend"]):
        sig += " (source: %s)" % RO_SOURCE_NAMES[ro_source(case["backend"])].split(" ")[0]
    if first in ("file-not-copied", "file-copied-against-condition", "return-value-vs-condition"):
        sig += " cond=" + case.get("cond", "always")
    if first in ("file-not-copied", "file-copied-against-condition", "return-value-vs-condition", "file-not-mirrored",
                 "newer-destination-file-not-kept"):
        b, sm = f0.get("before"), f0.get("src_mtime")
        if b is not None and b[0] == "f" and b[2] is not None and sm is not None and 0 < abs(b[2] - sm) < 1:
            sig += " [times less than one second apart]"
    return sig


def shrink(case, sig, budget=120):
    """Drop source / destination entries (with their subtrees) while the signature persists."""
    def still(c):
        try:
            fl = run_case(dict(c))
        except Exception:  # noqa  (a shrunk case that no longer fits the call)
            return False
        return bool(fl) and signature(c, fl) == sig
    cur = dict(case)
    progress = True
    while progress and budget > 0:
        progress = False
        for side in ("src", "dst"):
            for p in sorted(cur[side], reverse=True):
                if side == "src" and cur.get("file") and (cur["file"] == p or cur["file"].startswith(p + "/")):
                    continue                    # the copied file and its parent directories stay
                if side == "src" and cur.get("src_path") and (p == cur["src_path"] or cur["src_path"].startswith(p + "/")):
                    continue
                spec = dict((q, v) for q, v in cur[side].items() if q != p and not q.startswith(p + "/"))
                cand = dict(cur)
                cand[side] = spec
                budget -= 1
                if budget <= 0:
                    break
                if still(cand):
                    cur = cand
                    progress = True
                    break
            if progress:
                break
    for key, val in (("workers", 0), ("preserve_time", False),
                     ("backend", "same-mem" if case["backend"].startswith("same-") else "mem-mem"),
                     ("src_spelling", 0), ("dst_spelling", 0)):
        if cur.get(key) not in (val, None):
            cand = dict(cur)
            cand[key] = val
            if still(cand):
                cur = cand
    cur.pop("_second_pass_calls", None)
    cur.pop("time_rows", None)          # (describes the unshrunk trees)
    return cur


# --------------------------------------------------------------------------- exploration

def explore(tier, seed):
    rnd = random.Random(seed * 104729 + 19)
    thorough = tier == "thorough"
    cases = []
    n_pairs = 560 if thorough else 48
    pairs = []
    # a few hand-made pairs: every relation at least once with every src/dst time relation
    hand_src = {"/a.txt": ["f", 15, 0], "/b.bin": ["f", 15, 0], "/c.txt": ["f", 15, 0], "/sub": ["d"],
                "/sub/a.txt": ["f", 12, 0], "/sub/deep": ["d"], "/sub/deep/e.txt": ["f", 11, 0], "/skipme": ["d"],
                "/skipme/c.txt": ["f", 13, 0], "/z": ["d"]}
    pairs.append((hand_src, {}, "empty"))
    pairs.append((hand_src, {"/a.txt": ["f", 14, 0], "/b.bin": ["f", 15, 0], "/c.txt": ["f", 16, 0], "/sub": ["d"],
                             "/sub/a.txt": ["f", 19, 1], "/other": ["d"], "/other/p.txt": ["f", 3, 0],
                             "/q.bin": ["f", 4, 0]}, "overlapping"))
    pairs.append((hand_src, {"/a.txt": ["d"], "/a.txt/inner.txt": ["f", 1, 0], "/sub": ["f", 2, 0],
                             "/z": ["f", 3, 0], "/keep": ["d"]}, "conflicting"))
    pairs.append(({}, {"/other": ["d"], "/other/p.txt": ["f", 3, 0]}, "disjoint"))
    pairs.append(({"/sub": ["d"], "/sub/deep": ["d"]}, {"/sub": ["f", 1, 0]}, "conflicting"))
    for i in range(n_pairs):
        rel = RELATIONS[i % 4]
        src = gen_src(rnd, rnd.randint(1, 14 if thorough else 10))
        dst = gen_dst(rnd, src, rel)
        if i % 2 == 1:                  # time-resolution dimension: every other generated pair has sub-second times
            src, dst = retime(rnd, src, dst)
        pairs.append((src, dst, rel))
    for i, (src, dst, rel) in enumerate(pairs):
        hand = i < 5
        backends = BACKENDS if (hand or thorough and i % 3 == 0) else [BACKENDS[i % 4], rnd.choice(BACKENDS)]
        for be in sorted(set(backends)):
            walkers = WALKERS if (hand or thorough) else ["none", rnd.choice(WALKERS[1:])]
            for w in walkers:
                base = dict(backend=be, src=src, dst=dst, relation=rel, walker=w)
                pts = [False, True] if (hand or rnd.random() < 0.5) else [rnd.random() < 0.5]
                for pt in pts:
                    workers = 2 if (be == "mem-mem" and rnd.random() < 0.15) else 0
                    cases.append(dict(base, fn="copy_fs", preserve_time=pt, workers=workers))
                    conds = CONDITIONS if (hand or thorough or rnd.random() < 0.4) else rnd.sample(CONDITIONS, 2)
                    for c in conds:
                        cases.append(dict(base, fn="copy_fs_if", cond=c, preserve_time=pt, workers=workers))
                    # copy_dir / copy_dir_if from a source directory into '/', an existing or a new path
                    sdirs = [""] + [p for p in sorted(src) if src[p][0] == "d"]
                    sp = rnd.choice(sdirs)
                    ddirs = ["", "/into", "/into/new"] + [p for p in sorted(dst) if dst[p][0] == "d"]
                    dp = rnd.choice(ddirs)
                    ss, ds = rnd.choice([0, 0, 1, 2, 3]), rnd.choice([0, 0, 1, 2, 3])
                    cases.append(dict(base, fn="copy_dir", src_path=sp, dst_path=dp, preserve_time=pt, workers=workers,
                                      src_spelling=ss, dst_spelling=ds))
                    cases.append(dict(base, fn="copy_dir_if", src_path=sp, dst_path=dp, cond=rnd.choice(CONDITIONS),
                                      preserve_time=pt, workers=workers, src_spelling=ss, dst_spelling=ds))
                    for newer in (False, True):
                        cases.append(dict(base, fn="mirror", copy_if_newer=newer, preserve_time=pt, workers=workers))
            # copy_file_if on every source file (quick: a sample), all five conditions
            sfiles = [p for p in sorted(src) if src[p][0] == "f"]
            if not (hand or thorough):
                sfiles = rnd.sample(sfiles, min(len(sfiles), 2))
            for p in sfiles:
                for c in CONDITIONS:
                    cases.append(dict(backend=be, src=src, dst=dst, relation=rel, fn="copy_file_if", file=p, cond=c,
                                      preserve_time=rnd.random() < 0.5))
    # ---- depth-limited walkers (max_depth 0/2/3, both search orders) x EVERY source directory as the start of
    #      copy_dir / copy_dir_if (root: also copy_fs / copy_fs_if): the selection is computed from the source
    #      specification with the depth counted from the start directory
    deep_src = {"/r.txt": ["f", 15, 0], "/p": ["d"], "/p/s.txt": ["f", 14, 0], "/p/src": ["d"],
                "/p/src/main.txt": ["f", 13, 0], "/p/src/pkg": ["d"], "/p/src/pkg/mod.txt": ["f", 12, 0],
                "/p/src/pkg/inner": ["d"], "/p/src/pkg/inner/deep.bin": ["f", 11, 0], "/p/src/pkg/inner/core": ["d"],
                "/p/src/pkg/inner/core/e.txt": ["f", 10, 0], "/p/src/empty": ["d"], "/p/docs": ["d"],
                "/p/docs/i.txt": ["f", 16, 0]}
    deep_dst = {"/main.txt": ["f", 12, 0], "/pkg": ["d"], "/pkg/mod.txt": ["f", 19, 0], "/other": ["d"],
                "/other/p.txt": ["f", 3, 0], "/src": ["d"], "/src/main.txt": ["f", 13, 1]}
    depth_pairs = [(deep_src, {}, "empty"), (deep_src, deep_dst, "overlapping"), (hand_src, pairs[1][1], "overlapping")]
    depth_pairs += [pr for pr in pairs[5:] if any(q.count("/") >= 3 for q in pr[0]) and pr[2] != "conflicting"][
        :(12 if thorough else 2)]
    k = 0
    for src, dst, rel in depth_pairs:
        for sp in [""] + [q for q in sorted(src) if src[q][0] == "d"]:
            for w in DEPTH_WALKERS:
                k += 1
                bes = (BACKENDS + SAME_BACKENDS) if thorough else [(BACKENDS + ["same-mem"])[k % 5]]
                for be in bes:
                    base = dict(backend=be, src=src, dst=dst, relation=rel, walker=w)
                    dp = ["", "/into/new", "/other"][k % 3] if rel != "empty" else ["", "/into"][k % 2]
                    pt = bool(k % 2)
                    cases.append(dict(base, fn="copy_dir", src_path=sp, dst_path=dp, preserve_time=pt, workers=0,
                                      src_spelling=[0, 0, 1, 2, 3][k % 5], dst_spelling=0))
                    cases.append(dict(base, fn="copy_dir_if", src_path=sp, dst_path=dp, cond=CONDITIONS[k % 5],
                                      preserve_time=pt, workers=0, src_spelling=0, dst_spelling=[0, 1, 2, 3][k % 4]))
                    if sp == "" and not be.startswith("same-"):
                        cases.append(dict(base, fn="copy_fs", preserve_time=pt, workers=0))
                        cases.append(dict(base, fn="copy_fs_if", cond=CONDITIONS[(k + 1) % 5], preserve_time=pt,
                                          workers=0))
    # ---- time-resolution dimension: the systematic table of (source time, destination time) pairs x every
    #      conditional copy function x all five conditions, mirror(copy_if_newer=True) and preserve_time.
    #      Backends holding OS directories get the values an OS directory can store (os_fix).
    mem_kinds, os_kinds = ["mem-mem", "same-mem", "sub-sub"], ["mem-os", "os-mem", "os-os", "same-os"]
    for canon, kinds in ((False, mem_kinds), (True, os_kinds)):
        trees, _skipped = time_trees(canon)
        for ti, (src, dst, rows) in enumerate(trees):
            future = any(nd[0] == "f" and mt(nd[1]) > FUTURE for nd in src.values())
            for be in (kinds if thorough else [kinds[(ti + seed) % len(kinds)]]):
                base = dict(backend=be, src=src, dst=dst, relation="overlapping", walker="none", time_table=True,
                            time_rows=[list(r[:3]) for r in rows])
                same = be.startswith("same-")
                for pt in (False, True):
                    for c in CONDITIONS:
                        if not same:
                            cases.append(dict(base, fn="copy_fs_if", cond=c, preserve_time=pt, workers=0))
                        cases.append(dict(base, fn="copy_dir_if", src_path="/sub" if not same or thorough else "",
                                          dst_path="/sub" if not same or thorough else "", cond=c, preserve_time=pt,
                                          workers=2 if (be == "mem-mem" and c == "newer") else 0, src_spelling=0, dst_spelling=0))
                    if not same and (pt or not future):
                        # (a freshly written destination file is older than a source dated in the future: the
                        #  second pass would legitimately copy again, so those run with preserve_time only)
                        cases.append(dict(base, fn="mirror", copy_if_newer=True, preserve_time=pt, workers=0))
                    if pt:
                        if same:
                            cases.append(dict(base, fn="copy_dir", src_path="", dst_path="", preserve_time=True, workers=0,
                                              src_spelling=0, dst_spelling=0))
                        else:
                            cases.append(dict(base, fn="copy_fs", preserve_time=True, workers=0))
                            cases.append(dict(base, fn="mirror", copy_if_newer=False, preserve_time=True, workers=0))
                for fi, q in enumerate(sorted(p for p in src if src[p][0] == "f")):
                    conds = CONDITIONS if thorough else ["newer", "older", CONDITIONS[(ti + fi) % 5]]
                    for c in sorted(set(conds)):
                        for pt in ([False, True] if thorough else [bool((ti + fi + len(c)) % 2)]):
                            cases.append(dict(base, fn="copy_file_if", file=q, cond=c, preserve_time=pt))
                    if same or thorough:
                        cases.append(dict(base, fn="copy_file", file=q, preserve_time=True))
    # ---- source and destination are the same filesystem object
    n_same = 60 if thorough else 9
    same_pairs = [(hand_src, pairs[1][1], "overlapping"), (hand_src, {}, "empty")]
    for i in range(n_same):
        rel = ["empty", "disjoint", "overlapping", "overlapping", "conflicting"][i % 5]
        src = gen_src(rnd, rnd.randint(1, 10))
        same_pairs.append((src, gen_dst(rnd, src, rel), rel))
    for i, (src, dst, rel) in enumerate(same_pairs):
        hand = i < 2
        for be in (SAME_BACKENDS if (hand or thorough) else [SAME_BACKENDS[i % 3]]):
            base = dict(backend=be, src=src, dst=dst, relation=rel)
            sdirs = [""] + [q for q in sorted(src) if src[q][0] == "d"]
            ddirs = ["", "/into", "/into/new"] + [q for q in sorted(dst) if dst[q][0] == "d"]
            sfiles = [q for q in sorted(src) if src[q][0] == "f"]
            for pt in (False, True):
                for workers in (0, 2):
                    w = "none" if hand or rnd.random() < 0.6 else rnd.choice(WALKERS[1:])
                    sp, dp = ("", "") if hand else (rnd.choice(sdirs), rnd.choice(ddirs))
                    ss, ds = (0, 0) if hand else (rnd.choice([0, 0, 1, 2, 3]), rnd.choice([0, 0, 1, 2, 3]))
                    cases.append(dict(base, fn="copy_dir", walker=w, src_path=sp, dst_path=dp, preserve_time=pt,
                                      workers=workers, src_spelling=ss, dst_spelling=ds))
                    for c in CONDITIONS:
                        cases.append(dict(base, fn="copy_dir_if", walker=w, src_path=sp, dst_path=dp, cond=c,
                                          preserve_time=pt, workers=workers, src_spelling=ss, dst_spelling=ds))
                for q in (sfiles if (hand or thorough) else rnd.sample(sfiles, min(len(sfiles), 2))):
                    cases.append(dict(base, fn="copy_file", file=q, preserve_time=pt))
                    for c in CONDITIONS:
                        cases.append(dict(base, fn="copy_file_if", file=q, cond=c, preserve_time=pt))
    # ---- read-only and composite SOURCES: every copy / mirror entry point x preserve_time on/off x workers 0/2.
    #      The documented rule does not depend on what the source can do with its own files: the destination carries
    #      the source's details.modified (at the resolution the source kind reports it).
    ro_pairs = [(hand_src, {}, "empty"), (hand_src, pairs[1][1], "overlapping")]
    ro_pairs += [pr for pr in pairs[5:] if pr[2] in ("overlapping", "disjoint") and pr[0]][:(6 if thorough else 1)]
    k = 0
    for pi, (src, dst, rel) in enumerate(ro_pairs):
        for si, a in enumerate(RO_SOURCES):
            for b in (("mem", "os") if thorough else (("mem", "os")[(pi + si + seed) % 2],)):
                base = dict(backend=a + "-" + b, src=src, dst=dst, relation=rel, walker="none", ro_source=True)
                sdirs = [""] + [q for q in sorted(src) if src[q][0] == "d"]
                ddirs = ["", "/into", "/into/new"] + [q for q in sorted(dst) if dst[q][0] == "d"]
                sfiles = [q for q in sorted(src) if src[q][0] == "f"]
                for pt in (False, True):
                    for workers in (0, 2):
                        k += 1
                        w = "none" if (k % 3 or not thorough) else WALKERS[1 + k % 3]
                        cases.append(dict(base, fn="copy_fs", walker=w, preserve_time=pt, workers=workers))
                        cases.append(dict(base, fn="mirror", walker=w, copy_if_newer=False, preserve_time=pt, workers=workers))
                        cases.append(dict(base, fn="mirror", walker=w, copy_if_newer=True, preserve_time=pt, workers=workers))
                        sp, dp = sdirs[k % len(sdirs)], ddirs[k % len(ddirs)]
                        cases.append(dict(base, fn="copy_dir", walker=w, src_path=sp, dst_path=dp, preserve_time=pt,
                                          workers=workers, src_spelling=0, dst_spelling=0))
                        for c in (CONDITIONS if thorough else [CONDITIONS[k % 5], CONDITIONS[(k + 2) % 5]]):
                            cases.append(dict(base, fn="copy_fs_if", walker=w, cond=c, preserve_time=pt, workers=workers))
                            cases.append(dict(base, fn="copy_dir_if", walker=w, src_path=sp, dst_path=dp, cond=c,
                                              preserve_time=pt, workers=workers, src_spelling=0, dst_spelling=0))
                    for q in (sfiles if thorough else [sfiles[(k + j) % len(sfiles)] for j in range(min(2, len(sfiles)))]):
                        cases.append(dict(base, fn="copy_file", file=q, preserve_time=pt))
                        for c in (CONDITIONS if thorough else ["always", CONDITIONS[1 + k % 4]]):
                            cases.append(dict(base, fn="copy_file_if", file=q, cond=c, preserve_time=pt))
    return cases


def evaluate(cases, progress=False):
    failures = []
    t0 = time.time()
    for i, case in enumerate(cases):
        fl = run_case(case)
        if fl:
            failures.append((case, signature(case, fl), fl[:5]))
        if progress and i % 2000 == 0:
            print("  %d/%d %.1fs" % (i, len(cases), time.time() - t0))
            sys.stdout.flush()
    return failures


def local_known():
    if os.path.exists(LOCAL_KNOWN):
        with open(LOCAL_KNOWN) as fh:
            data = json.load(fh)
        if isinstance(data, dict):
            data = data.get("known", [])
        return [k for k in data if k.get("property") == PID]
    return []


def case_json(case):
    return dict((k, v) for k, v in case.items() if not k.startswith("_"))


def coverage_of(cases, failures, sigs):
    hist = {}

    def h(name, key):
        hist.setdefault(name, {})
        hist[name][str(key)] = hist[name].get(str(key), 0) + 1
    distinct = set()
    for c in cases:
        h("function", c["fn"] if c["fn"] != "mirror" else "mirror(copy_if_newer=%s)" % c["copy_if_newer"])
        h("backend", c["backend"])
        h("relation", c["relation"])
        if "walker" in c:
            h("walker", c["walker"])
            if c["walker"].startswith("max_depth") and c["fn"].startswith("copy_dir"):
                h("depth-limited walker: copy_dir start directory level", c.get("src_path", "").count("/"))
        if "cond" in c:
            h("condition", c["cond"])
        if "src_spelling" in c:
            h("copy_dir path spelling (src,dst)", "%d,%d" % (c["src_spelling"], c["dst_spelling"]))
        h("preserve_time", bool(c.get("preserve_time")))
        h("workers", c.get("workers", 0))
        if c.get("ro_source"):
            h("read-only / composite source: kind -> destination", "%s -> %s" % (
                RO_SOURCE_NAMES[ro_source(c["backend"])], c["backend"].split("-")[1]))
            h("read-only / composite source: entry point, preserve_time, workers", "%s preserve_time=%s workers=%s" % (
                c["fn"], bool(c.get("preserve_time")), c.get("workers", 0)))
        h("source_nodes", min(len(c["src"]), 12))
        if c["fn"] == "mirror" and "_second_pass_calls" in c:
            h("second_mirror_mutating_calls(copy_if_newer=%s)" % c["copy_if_newer"],
              "0" if c["_second_pass_calls"] == 0 else ">0")
        conditional = c["fn"].endswith("_if") or c["fn"] == "mirror" and c["copy_if_newer"]
        for p, nd in c["src"].items():
            if nd[0] == "f" and p in c["dst"] and c["dst"][p][0] == "f":
                t1, t2 = mt(nd[1]), mt(c["dst"][p][1])
                h("time_relation(src vs dst)", "older" if t1 < t2 else "equal" if t1 == t2 else "newer")
                if conditional:
                    gap = abs(t1 - t2)
                    cls = ("equal" if gap == 0 else "< 10 us" if gap < 1e-5 else "< 10 ms" if gap < 1e-2 else "< 1 s"
                           if gap < 1 else ">= 1 s")
                    if 0 < gap < 1:
                        cls += ", same second" if int(t1 // 1) == int(t2 // 1) else ", across a second boundary"
                    h("time resolution: |src - dst| of overlapping files in conditional copies / mirror(copy_if_newer)", cls)
            if nd[0] == "f" and c.get("preserve_time"):
                t1 = mt(nd[1])
                h("time resolution: preserve_time source times", "fractional" if t1 != int(t1) else "whole second")
                if t1 <= 0 or t1 > FUTURE:
                    h("time resolution: preserve_time source times", "epoch 0" if t1 == 0 else "negative" if t1 < 0 else "future")
        if c.get("time_table"):
            h("time table: function", c["fn"] + (" " + c["cond"] if "cond" in c else ""))
            h("time table: backend", c["backend"])
            for r in c["time_rows"]:
                h("time table: anchor", r[0])
                h("time table: relation", "%s (delta %s)" % (r[2], r[1]))
        if c["src"] or c["dst"]:
            distinct.add(json.dumps(case_json(c), sort_keys=True))
    hist["failure_signatures"] = dict(sigs)
    samples = [case_json(cases[i]) for i in (7, len(cases) // 2, len(cases) - 1)]
    return dict(
        evaluations=len(cases), distinct_nontrivial=len(distinct),
        rule="5 hand-made + random (source, destination) tree pairs cycling through the relations empty / disjoint "
             "/ overlapping (per-file time relation older|equal|newer, some sizes differing) / conflicting (file vs "
             "directory both ways) x backend pairs {mem-mem, mem-os, os-mem, sub-sub (two SubFS of one MemoryFS)} "
             "+ same-filesystem-object cases {same-mem, same-os, same-sub: source under /src, destination under "
             "/dst, bystander /by; copy_file, copy_file_if, copy_dir, copy_dir_if x 5 conditions x preserve_time x "
             "workers 0/2} x "
             "walkers {default, filter=['*.txt'], exclude_dirs=['skip*'], max_depth=1} + depth-limited walkers "
             "{max_depth 0, 2, 3 breadth; 1, 2 depth-first} x EVERY source directory as copy_dir/copy_dir_if start "
             "(expected selection from the source specification, depth counted from the start directory) x "
             "preserve_time x "
             "{copy_fs, copy_fs_if x 5 conditions, copy_dir / copy_dir_if with random source directory and "
             "destination path (root, existing directory, new nested path), mirror copy_if_newer False/True, "
             "copy_file_if x 5 conditions per source file}; thorough: every walker and condition for every pair; "
             "TIME RESOLUTION: every other generated pair has sub-second times (relations kept, differences of 0.25 s / "
             "1 ms / 1 us inside one second or across a second boundary), plus a systematic table {anchors: recent, "
             "epoch 0, epoch-crossing (0 vs negative), negative, beyond 2^32, year 3000} x {0.25 s, 1 ms, 1 us} x {newer, "
             "older, equal; inside a second, across a boundary, one whole second} driven through copy_fs_if / "
             "copy_dir_if / copy_file_if x 5 conditions, mirror(copy_if_newer=True), and preserve_time (copy_fs, "
             "copy_dir, copy_file, mirror) on {mem-mem, same-mem, sub-sub} with the exact floats and on {mem-os, os-mem, "
             "os-os, same-os} with the values an OS directory holds; the oracle is the documented condition on the RAW "
             "details.modified values of the snapshots, preserved times must be the exact source float (MemoryFS) / "
             "what os.utime stores for it (OS directory); "
             "complete destination state compared before/after; non-trivial = distinct cases with a non-empty tree",
        samples=samples, histograms=hist, failing_cases=len(failures),
        read_only_source_cases=len([c for c in cases if c.get("ro_source")]),
        read_only_source_rule="sources {ReadZipFS, ReadTarFS (archives written with zipfile / tarfile from the tree "
                              "specification), read_only(MemoryFS), cache_directory(OSFS), MultiFS of two MemoryFS without a "
                              "write member, MountFS with every top-level directory mounted (every other one read_only)} x "
                              "destination {MemoryFS, OS directory} x {copy_fs, copy_fs_if, copy_dir, copy_dir_if, mirror "
                              "copy_if_newer False/True} x preserve_time on/off x workers 0/2 + copy_file / copy_file_if x "
                              "preserve_time; expectation as for every other case, with the source's details.modified at "
                              "the resolution the source kind holds (zip: even seconds UTC, tar: the value, OS: os.utime)",
        time_table_cases=len([c for c in cases if c.get("time_table")]),
        time_table_rows=len(time_pairs()), time_table_rows_an_os_directory_cannot_hold=time_trees(True)[1],
        subsecond_generated_pairs=len(set(id(c["src"]) for c in cases if not c.get("time_table") and any(
            nd[0] == "f" and not isinstance(nd[1], list) and nd[1] != int(nd[1]) for nd in c["src"].values()))))


def run(report):
    proof = common.preflight(report)
    cases = explore(report.tier, report.seed)
    failures = evaluate(cases)
    known_local = local_known()
    sig_count = {}
    reported = set()
    for case, sig, fl in failures:
        sig_count[sig] = sig_count.get(sig, 0) + 1
        entry = report.known_match(sig)
        if entry is None:
            for k in known_local:
                if k.get("signature") == sig:
                    entry = k
        if entry is not None:
            report.known_finding(entry)
            continue
        if sig in PENDING_FINDINGS:
            continue
        if sig in reported or len(reported) >= 12:
            continue
        reported.add(sig)
        small = shrink(case, sig)
        report.violation(dict(kind="copy-mirror", signature=sig, case=case_json(small), failures=run_case(dict(small))[:5],
                              theorem="Props/C19.v (copy_is_necessary_spec, copy_loop_spec)"))
    cov = coverage_of(cases, failures, sig_count)
    # tree-level model (Copy/TreeCopy*.v): destination tree of the real copy_fs / copy_fs_if / mirror = model
    import h_treecopy
    cov.update(h_treecopy.run_tree_checks(report, random.Random(report.seed + 1900), report.tier))
    return report.finish(proof, cov, assumptions=[
        "modification times are set explicitly (1_000_000_000 + k, k integer or fractional, or an absolute epoch value) "
        "through setinfo; directory times are not compared; times given to an OS directory are first mapped to a value "
        "the filesystem of the temp directory holds exactly (fixed point of os.utime/os.stat), so 'equal' means equal "
        "raw values on both sides; generated time differences are 0 or at least ~1 microsecond (the library compares "
        "datetime objects, whose resolution is one microsecond)",
        "mirror(copy_if_newer=True) is checked against fs/mirror.py's documented rule (_compare): a destination file is "
        "kept only when it has the same size and is not older; a differing size always copies",
        "a second mirror(copy_if_newer=False) rewrites every file by design; 'changes nothing' is checked on the "
        "resulting state (paths, types, bytes) and on structural calls; zero mutating calls is required for "
        "copy_if_newer=True",
        "the Coq model covers _copy_is_necessary, the per-file loop of copy_dir_if and mirror._compare; backends are "
        "exercised by this run, not modelled"])


def replay(report, path):
    with open(path) as fh:
        d = json.load(fh)
    if d.get("kind") == "replica-differs-from-model":
        import h_treecopy
        return h_treecopy.replay_tree(d)
    case = d.get("case")
    if case is None:
        print("nothing to replay:", d.get("what"))
        return 1
    fl = run_case(dict(case))
    print("call:", dict((k, v) for k, v in case.items() if k not in ("src", "dst")))
    print("source     :", case["src"])
    print("destination:", case["dst"])
    for f in fl[:10]:
        print("  ", f)
    if fl:
        print("signature:", signature(case, fl))
    return 1 if fl else 0


if __name__ == "__main__":
    tier = sys.argv[1] if len(sys.argv) > 1 else "quick"
    seed = int(sys.argv[2]) if len(sys.argv) > 2 else 0
    t0 = time.time()
    cs = explore(tier, seed)
    print("cases:", len(cs))
    fl = evaluate(cs, progress=True)
    sigs = {}
    for case, sig, f in fl:
        sigs.setdefault(sig, []).append((case, f))
    for sg in sorted(sigs):
        c, f = sigs[sg][0]
        small = shrink(c, sg)
        print("%5d  %s" % (len(sigs[sg]), sg))
        print("        e.g.", json.dumps(case_json(small), sort_keys=True))
        print("            ", run_case(dict(small))[:2])
    cov = coverage_of(cs, fl, dict((k, len(v)) for k, v in sigs.items()))
    print("evaluations", cov["evaluations"], "distinct_nontrivial", cov["distinct_nontrivial"])
    print("wall %.1fs" % (time.time() - t0))
