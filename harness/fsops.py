"""Call language shared by the filesystem-level checks (must match coq/FS/Ops.v):
encoding of calls as driver tokens, execution on a real filesystem object, rendering of
results and of tree snapshots, history generation."""
from __future__ import print_function

import signal

from common import r_str, r_bytes, r_bool, r_int, r_list, exc_name, tok, tokb

OPC = dict(getinfo=1, listdir=2, makedir=3, makedirs=4, writebytes=5, appendbytes=6, readbytes=7,
           create=8, touch=9, openwrite=10, openread=11, remove=12, removedir=13, removetree=14,
           move=15, copy=16, movedir=17, copydir=18, setinfo=19, exists=20, isdir=21, isfile=22,
           isempty=23, getsize=24, gettype=25, scandir=26)

MT_BASE = 1000000000


def encode(op):
    """op = (name, args...) -> list of driver tokens."""
    n = op[0]
    c = str(OPC[n])
    b = lambda x: "1" if x else "0"
    if n in ("getinfo", "listdir", "scandir", "readbytes", "touch", "remove", "removedir",
             "removetree", "exists", "isdir", "isfile", "isempty", "getsize", "gettype"):
        return [c, tok(op[1])]
    if n in ("makedir", "makedirs", "create"):
        return [c, tok(op[1]), b(op[2])]
    if n in ("writebytes", "appendbytes"):
        return [c, tok(op[1]), tokb(op[2])]
    if n == "openwrite":
        return [c, tok(op[1]), tok(op[2]), tokb(op[3])]
    if n == "openread":
        return [c, tok(op[1]), tok(op[2])]
    if n in ("move", "copy", "movedir", "copydir"):
        return [c, tok(op[1]), tok(op[2]), b(op[3]), b(op[4])]
    if n == "setinfo":
        return [c, tok(op[1]), "-" if op[2] is None else str(op[2])]
    raise ValueError(n)


def canon_mt(t):
    """Real modified time -> abstract: Some z when it is a value the harness set."""
    if t is None:
        return "N"
    try:
        z = t - MT_BASE
    except TypeError:
        return "N"
    if 0 <= z < (1 << 20) and z == int(z):
        return "S" + r_int(int(z))
    return "N"


def r_info(info):
    raw = info.raw
    d = raw.get("details", {})
    return "(" + r_str(raw["basic"]["name"]) + "|" + r_bool(raw["basic"]["is_dir"]) + "|" + \
        r_int(d.get("size", 0) if not raw["basic"]["is_dir"] else 0) + "|" + canon_mt(d.get("modified")) + ")"


class Timeout(Exception):
    pass


# optional observer (C06): called as EXC_HOOK(fs, op, exception) for EVERY exception a call raises, before the outcome
# is rendered; None (the default) changes nothing
EXC_HOOK = None


def _alarm(_sig, _frm):
    raise Timeout()


def execute(fs, op):
    """Run one call on a real filesystem; returns the rendered outcome."""
    n = op[0]
    old = signal.signal(signal.SIGALRM, _alarm)
    signal.alarm(5)
    try:
        try:
            if n == "getinfo":
                return "ok:" + r_info(fs.getinfo(op[1], namespaces=["details"]))
            if n == "listdir":
                return "ok:" + r_list(r_str, fs.listdir(op[1]))
            if n == "scandir":
                return "ok:" + r_list(r_info, list(fs.scandir(op[1], namespaces=["details"])))
            if n == "makedir":
                fs.makedir(op[1], recreate=op[2]); return "ok:U"
            if n == "makedirs":
                fs.makedirs(op[1], recreate=op[2]); return "ok:U"
            if n == "writebytes":
                fs.writebytes(op[1], op[2]); return "ok:U"
            if n == "appendbytes":
                fs.appendbytes(op[1], op[2]); return "ok:U"
            if n == "readbytes":
                return "ok:" + r_bytes(fs.readbytes(op[1]))
            if n == "create":
                return "ok:" + r_bool(fs.create(op[1], wipe=op[2]))
            if n == "touch":
                fs.touch(op[1]); return "ok:U"
            if n == "openwrite":
                from fs.mode import Mode
                f = fs.openbin(op[1], op[2])
                try:
                    if Mode(op[2]).writing:
                        f.write(op[3])
                finally:
                    f.close()
                return "ok:U"
            if n == "openread":
                from fs.mode import Mode
                f = fs.openbin(op[1], op[2])
                try:
                    if Mode(op[2]).reading:
                        return "ok:" + r_bytes(f.read())
                finally:
                    f.close()
                return "ok:U"
            if n == "remove":
                fs.remove(op[1]); return "ok:U"
            if n == "removedir":
                fs.removedir(op[1]); return "ok:U"
            if n == "removetree":
                fs.removetree(op[1]); return "ok:U"
            if n == "move":
                fs.move(op[1], op[2], overwrite=op[3], preserve_time=op[4]); return "ok:U"
            if n == "copy":
                fs.copy(op[1], op[2], overwrite=op[3], preserve_time=op[4]); return "ok:U"
            if n == "movedir":
                fs.movedir(op[1], op[2], create=op[3], preserve_time=op[4]); return "ok:U"
            if n == "copydir":
                fs.copydir(op[1], op[2], create=op[3], preserve_time=op[4]); return "ok:U"
            if n == "setinfo":
                import time
                t = time.time() if op[2] is None else MT_BASE + op[2]
                fs.setinfo(op[1], {"details": {"modified": t}}); return "ok:U"
            if n == "exists":
                return "ok:" + r_bool(fs.exists(op[1]))
            if n == "isdir":
                return "ok:" + r_bool(fs.isdir(op[1]))
            if n == "isfile":
                return "ok:" + r_bool(fs.isfile(op[1]))
            if n == "isempty":
                return "ok:" + r_bool(fs.isempty(op[1]))
            if n == "getsize":
                size = fs.getsize(op[1])
                # the size reported for a directory is backend-specific (0, 4096, ...)
                return "ok:" + r_int(0 if fs.isdir(op[1]) else size)
            if n == "gettype":
                return "ok:" + r_int(int(fs.gettype(op[1])))
            raise ValueError(n)
        except Timeout:
            return "crash:NonTermination"
        except Exception as e:  # noqa
            if EXC_HOOK is not None:
                EXC_HOOK(fs, op, e)
            name = exc_name(e)
            if name.startswith("err:"):
                try:                      # C06: the message can be rendered
                    str(e), repr(e)
                except Exception:
                    return "crash:RenderError"
            return name
    finally:
        signal.alarm(0)
        signal.signal(signal.SIGALRM, old)


# --------------------------------------------------------------------------- snapshots

def snap_memoryfs(fs):
    """Exact snapshot of a MemoryFS through its entry objects (insertion order)."""
    def go(e):
        if e.is_dir:
            return "D@" + canon_mt(e.modified_time) + "{" + ";".join(
                r_str(k) + ":" + go(v) for k, v in e._dir.items()) + "}"
        return "F" + r_bytes(e._bytes_file.getvalue()) + "@" + canon_mt(e.modified_time)
    return go(fs.root)


def snap_api(fs, path="/"):
    """Snapshot through the public API (listdir order)."""
    def go(p, info):
        mt = canon_mt(info.raw.get("details", {}).get("modified"))
        if info.is_dir:
            parts = []
            for i in fs.scandir(p, namespaces=["details"]):
                parts.append(r_str(i.name) + ":" + go(p.rstrip("/") + "/" + i.name, i))
            return "D@" + mt + "{" + ";".join(parts) + "}"
        return "F" + r_bytes(fs.readbytes(p)) + "@" + mt
    return go(path, fs.getinfo(path, namespaces=["details"]))


def parse_tree(s):
    """Rendered tree -> nested python structure ('D', mt, [(name, sub)...]) / ('F', data, mt)."""
    pos = [0]

    def node():
        if s[pos[0]] == "F":
            j = s.index("@", pos[0])
            data = s[pos[0] + 1:j]
            pos[0] = j + 1
            mt = mtv()
            return ("F", data, mt)
        assert s.startswith("D@", pos[0]), s[pos[0]:pos[0] + 10]
        pos[0] += 2
        mt = mtv()
        assert s[pos[0]] == "{"
        pos[0] += 1
        ents = []
        while s[pos[0]] != "}":
            j = s.index(":", pos[0])
            name = s[pos[0]:j]
            pos[0] = j + 1
            ents.append((name, node()))
            if s[pos[0]] == ";":
                pos[0] += 1
        pos[0] += 1
        return ("D", mt, ents)

    def mtv():
        if s[pos[0]] == "N":
            pos[0] += 1
            return None
        assert s.startswith("Si", pos[0])
        j = pos[0] + 2
        while j < len(s) and (s[j].isdigit() or s[j] == "-"):
            j += 1
        v = int(s[pos[0] + 2:j])
        pos[0] = j
        return v
    return node()


def canon_tree(s, times=False):
    if s.startswith("SNAPFAIL"):        # a failed / refused snapshot is its own canonical form (never equal to a tree)
        return s
    return _canon_tree(s, times)


def _canon_tree(s, times=False):
    """Order-insensitive canonical text of a rendered tree (names, types, bytes[, mtimes])."""
    def go(t):
        if t[0] == "F":
            return "F" + t[1] + ("@%s" % t[2] if times else "")
        return "D" + ("@%s" % t[1] if times else "") + "{" + ";".join(
            n + ":" + go(c) for n, c in sorted(t[2], key=lambda x: x[0])) + "}"
    return go(parse_tree(s))


def tree_paths(s):
    """[(path, kind, data)] of a rendered tree, root excluded."""
    out = []

    def go(t, prefix):
        if t[0] == "D":
            for n, c in t[2]:
                name = "".join(chr(int(x)) for x in n[1:].split(",")) if len(n) > 1 else ""
                p = prefix + "/" + name
                out.append((p, c[0], c[1] if c[0] == "F" else None))
                go(c, p)
    go(parse_tree(s), "")
    return out
