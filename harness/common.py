"""Shared machinery of the correspondence checks.

Everything that talks to the Coq side lives here: building, running the extracted
model, re-checking a property file with coqc (Print Assumptions), the vm_compute
cross-check of the extraction, rendering of observations, evidence, replays,
known findings.
"""
from __future__ import print_function

import hashlib
import json
import os
import random
import re
import subprocess
import sys
import time

VERIF = "/verif"
REPO = os.environ.get("PYFS2_VERIF_REPO", "/repo")
COQ = os.path.join(VERIF, "coq")
DRIVER = os.path.join(VERIF, "build", "model_driver")
WORK = os.path.join(VERIF, "work")

if sys.path[0:1] != [REPO]:
    sys.path.insert(0, REPO)


def rm_rf(path):
    """Remove a scratch directory even when it is nested deeper than Python's recursion limit."""
    subprocess.call(["rm", "-rf", "--", path])


def seed_from_env():
    try:
        return int(os.environ.get("VERIF_SEED", "0"))
    except ValueError:
        return 0


# --------------------------------------------------------------------------- rendering
# (must stay in step with coq/Base/Render.v)

def r_str(s):
    return "s" + ",".join(str(ord(c)) for c in s)


def r_bytes(b):
    return "s" + ",".join(str(c) for c in bytearray(b))


def r_bool(b):
    return "T" if b else "F"


def r_int(i):
    return "i%d" % i


def r_list(f, l):
    return "[" + ";".join(f(x) for x in l) + "]"


def r_pair(f, g, p):
    return "(" + f(p[0]) + "|" + g(p[1]) + ")"


def r_option(f, o):
    return "N" if o is None else "S" + f(o)


FS_ERRORS = None


def exc_name(e):
    """Canonical outcome text for an exception: err:<fs.errors class> or crash:<kind>."""
    t = type(e)
    # most specific class defined in fs.errors (IllegalBackReference derives from ValueError,
    # not from FSError) or fs.opener.errors
    for klass in t.__mro__:
        if klass.__module__ in ("fs.errors", "fs.opener.errors"):
            return "err:" + klass.__name__
    known = ("AssertionError", "AttributeError", "KeyError", "ValueError", "TypeError",
             "IndexError")
    for k in known:
        if t.__name__ == k:
            return "crash:" + k
    if isinstance(e, OSError):
        return "crash:OSError"
    for klass in t.__mro__:
        if klass.__name__ in known:
            return "crash:" + klass.__name__
    return "crash:OtherException"


def outcome(f, thunk):
    try:
        v = thunk()
    except Exception as e:  # noqa
        return exc_name(e)
    return "ok:" + f(v)


def tok(s):
    """Encode a python text string as a driver token."""
    return ",".join(str(ord(c)) for c in s) if s else "-"


def tokb(b):
    return ",".join(str(c) for c in bytearray(b)) if b else "-"


def untok(t):
    return "" if t == "-" else "".join(chr(int(x)) for x in t.split(","))


# --------------------------------------------------------------------------- build / coq

FORBIDDEN = re.compile(
    r"\b(Admitted|admit|Axiom|Axioms|Parameter|Parameters|Conjecture|Conjectures|"
    r"Admit\s+Obligations|bypass_check|native_compute)\b|Unset\s+Guard|Unset\s+Positivity|"
    r"Unset\s+Universe|type-in-type|impredicative-set")


def strip_coq_comments(text):
    out = []
    depth = 0
    i = 0
    n = len(text)
    while i < n:
        if text.startswith("(*", i):
            depth += 1
            i += 2
        elif text.startswith("*)", i) and depth > 0:
            depth -= 1
            i += 2
        else:
            if depth == 0:
                out.append(text[i])
            i += 1
    return "".join(out)


def scan_forbidden():
    """Return a list of (file, word) for forbidden vernacular in the development."""
    bad = []
    for root, _dirs, files in os.walk(COQ):
        for fn in files:
            if not fn.endswith(".v"):
                continue
            p = os.path.join(root, fn)
            with open(p) as fh:
                text = strip_coq_comments(fh.read())
            # top-level Variable/Hypothesis outside sections are also axioms
            for m in FORBIDDEN.finditer(text):
                bad.append((os.path.relpath(p, COQ), m.group(0)))
            depth = 0
            for line in text.split("\n"):
                ls = line.strip()
                if re.match(r"Section\s+\w+", ls):
                    depth += 1
                elif re.match(r"End\s+\w+", ls) and depth > 0:
                    depth -= 1
                elif depth == 0 and re.match(r"(Variable|Variables|Hypothesis|Hypotheses|Context)\b", ls):
                    bad.append((os.path.relpath(p, COQ), ls.split()[0] + " outside Section"))
    return bad


def build():
    """make the Coq development + driver (no-op when up to date). Returns (ok, log)."""
    p = subprocess.run([os.path.join(VERIF, "bin", "build")], stdout=subprocess.PIPE,
                       stderr=subprocess.STDOUT, universal_newlines=True)
    log = "\n".join(l for l in p.stdout.split("\n") if "WARNING conda" not in l)
    ok = p.returncode == 0 and os.path.exists(DRIVER) and "Error" not in log
    return ok, log


def coqc_file(relpath, timeout=900):
    """Re-compile one file of the development; returns (ok, output)."""
    p = subprocess.run(["timeout", str(timeout), "coqc", "-Q", ".", "PyFS", relpath],
                       cwd=COQ, stdout=subprocess.PIPE, stderr=subprocess.STDOUT,
                       universal_newlines=True)
    out = "\n".join(l for l in p.stdout.split("\n") if "WARNING conda" not in l)
    return p.returncode == 0, out


ALLOWED_AXIOMS = set()  # the development targets "Closed under the global context"


def check_property_file(pid):
    """coqc Props/<pid>.v and parse Print Assumptions output.

    Returns dict(ok, obligations, discharged, theorems, axioms, log)."""
    rel = "Props/%s.v" % pid
    src = open(os.path.join(COQ, rel)).read()
    theorems = re.findall(r"^\s*Theorem\s+(\w+)", strip_coq_comments(src), flags=re.M)
    n_print = len(re.findall(r"^\s*Print Assumptions\s+\w+", strip_coq_comments(src), flags=re.M))
    ok, out = coqc_file(rel)
    closed = out.count("Closed under the global context")
    axioms = []
    if "Axioms:" in out:
        for block in out.split("Axioms:")[1:]:
            for line in block.split("\n")[1:]:
                m = re.match(r"^(\S+)\s*:", line)
                if m:
                    axioms.append(m.group(1))
                elif line.strip() == "" or line.startswith("Closed"):
                    break
    axioms = sorted(set(axioms))
    bad_axioms = [a for a in axioms if a not in ALLOWED_AXIOMS]
    discharged = closed if ok else 0
    return dict(ok=ok and not bad_axioms and n_print == len(theorems) and closed == n_print,
                obligations=len(theorems), discharged=discharged, theorems=theorems,
                axioms=axioms, log=out[-4000:],
                checker_cmd="cd /verif/coq && make && coqc -Q . PyFS " + rel)


# --------------------------------------------------------------------------- model runs

def run_model(lines):
    """Feed lines to the extracted model; returns the list of output lines."""
    data = "\n".join(lines) + "\n"
    p = subprocess.run([DRIVER], input=data.encode("ascii"), stdout=subprocess.PIPE,
                       stderr=subprocess.PIPE)
    if p.returncode != 0:
        raise RuntimeError("model driver failed: %s" % p.stderr.decode("utf8", "replace")[-2000:])
    out = p.stdout.decode("latin-1").split("\n")
    if out and out[-1] == "":
        out.pop()
    if len(out) != len(lines):
        raise RuntimeError("model driver returned %d lines for %d cases" % (len(out), len(lines)))
    return out


def run_model_parallel(lines, procs=8, chunk=20000):
    if len(lines) <= chunk:
        return run_model(lines)
    from concurrent.futures import ThreadPoolExecutor
    chunks = [lines[i:i + chunk] for i in range(0, len(lines), chunk)]
    with ThreadPoolExecutor(max_workers=procs) as ex:
        outs = list(ex.map(run_model, chunks))
    res = []
    for o in outs:
        res.extend(o)
    return res


def coq_token(t):
    """A driver token as a Coq term of type str (list N)."""
    if t == "-":
        return "[]"
    return "[" + ";".join(t.split(",")) + "]"


def coq_word(w):
    return "[" + ";".join(str(ord(c)) for c in w) + "]"


def vm_crosscheck(lines, expected, tag, limit=200):
    """Evaluate a sample of the cases inside Coq (vm_compute) and compare with the
    extracted binary's answers. Returns (n_checked, mismatches[list of line])."""
    if not lines:
        return 0, []
    rnd = random.Random(12345)
    idx = list(range(len(lines)))
    if len(idx) > limit:
        idx = sorted(rnd.sample(idx, limit))
    os.makedirs(WORK, exist_ok=True)
    # one file per process: checks of the same property may run side by side (mutant matrix, seeds)
    vfile = os.path.join(WORK, "cases_%s_p%d.v" % (tag, os.getpid()))
    with open(vfile, "w") as fh:
        fh.write("From Coq Require Import List NArith.\nImport ListNotations.\n"
                 "From PyFS Require Import Run.Dispatch.\nLocal Open Scope N_scope.\n")
        fh.write("Definition cases : list (list (list N)) := [\n")
        rows = []
        for i in idx:
            toks = lines[i].split(" ")
            terms = [coq_word(toks[0]), coq_word(toks[1])] + [coq_token(t) for t in toks[2:]]
            rows.append("  [" + ";".join(terms) + "]")
        fh.write(";\n".join(rows))
        fh.write("].\n")
        fh.write("Definition expected : list (list N) := [\n")
        fh.write(";\n".join("  " + coq_word(expected[i]) for i in idx))
        fh.write("].\n")
        fh.write("Fixpoint leq (a b : list N) : bool := match a, b with [], [] => true "
                 "| x :: a', y :: b' => N.eqb x y && leq a' b' | _, _ => false end.\n")
        fh.write("Definition verdicts := map (fun p => leq (dispatch (fst p)) (snd p)) "
                 "(combine cases expected).\n")
        fh.write("Eval vm_compute in (length (filter (fun b => b) verdicts), "
                 "length (filter negb verdicts)).\n")
    p = subprocess.run(["timeout", "600", "coqc", "-Q", COQ, "PyFS", vfile], cwd=WORK,
                       stdout=subprocess.PIPE, stderr=subprocess.STDOUT, universal_newlines=True)
    m = re.search(r"=\s*\((\d+)(?:%nat)?,\s*(\d+)(?:%nat)?\)", p.stdout)
    for ext in (".vo", ".glob", ".vok", ".vos"):
        try:
            os.remove(vfile[:-2] + ext)
        except OSError:
            pass
    try:
        os.remove(os.path.join(WORK, "." + os.path.basename(vfile)[:-2] + ".aux"))
    except OSError:
        pass
    if not m:
        return 0, ["coqc failed on %s: %s" % (vfile, p.stdout[-1500:])]
    good, badn = int(m.group(1)), int(m.group(2))
    if badn == 0:
        try:
            os.remove(vfile)        # kept only when it is the evidence of a disagreement
        except OSError:
            pass
    mism = [] if badn == 0 else ["%d of %d sampled cases differ between vm_compute and the "
                                 "extracted binary (%s)" % (badn, good + badn, vfile)]
    return good + badn, mism


# --------------------------------------------------------------------------- findings

def load_known(pid):
    path = os.path.join(VERIF, "known_findings.json")
    if not os.path.exists(path):
        return []
    with open(path) as fh:
        data = json.load(fh)
    return [k for k in data.get("known", []) if k.get("property") == pid]


def write_replay(pid, payload):
    os.makedirs(os.path.join(VERIF, "replays"), exist_ok=True)
    blob = json.dumps(payload, sort_keys=True, default=str)
    h = hashlib.sha1(blob.encode("utf8")).hexdigest()[:12]
    path = os.path.join(VERIF, "replays", "%s-%s.json" % (pid, h))
    with open(path, "w") as fh:
        fh.write(json.dumps(payload, indent=1, sort_keys=True, default=str))
    return path


class Report(object):
    """Collects what a check run covered and emits evidence + VIOLATION lines."""

    def __init__(self, pid, tier, seed):
        self.pid = pid
        self.tier = tier
        self.seed = seed
        self.t0 = time.time()
        self.violations = []      # (replay_path, no_input_found)
        self.known_seen = []
        self.coverage = {}
        self.assumptions = []
        self.known = load_known(pid)

    def known_match(self, signature):
        for k in self.known:
            if k.get("signature") == signature:
                return k
        return None

    def violation(self, payload, no_input=False):
        payload = dict(payload)
        payload["property"] = self.pid
        payload["seed"] = self.seed
        payload["tier"] = self.tier
        if no_input:
            payload["no_failing_input_found"] = True
        path = write_replay(self.pid, payload)
        self.violations.append((path, no_input))
        return path

    def known_finding(self, entry, example=None):
        if entry["signature"] not in [k["signature"] for k, _ in self.known_seen]:
            self.known_seen.append((entry, example))

    def finish(self, proof, coverage, assumptions=None, level="proof"):
        cov = dict(coverage)
        if proof is not None:
            cov["obligations"] = proof["obligations"]
            cov["discharged"] = proof["discharged"]
            cov["checker_cmd"] = proof["checker_cmd"]
            cov["theorems"] = proof["theorems"]
            cov["axioms_reported_by_print_assumptions"] = proof["axioms"]
            cov.setdefault("trusted_base", [
                "Coq 8.16.1 kernel (coqc, vm_compute; no native_compute)",
                "no axioms declared by the development; Print Assumptions output above",
                "extraction with ExtrOcamlBasic only + ocaml/driver.ml",
                "hand-written Gallina model validated against /repo by this correspondence run",
                "Python harness (generators, rendering, diff)"])
        cov["known_findings_seen"] = [k["signature"] for k, _ in self.known_seen]
        ev = dict(property_id=self.pid, tier=self.tier, seed=self.seed, level=level,
                  coverage=cov, assumptions=assumptions or self.assumptions,
                  wall_s=round(time.time() - self.t0, 2), violations=len(self.violations))
        # runs against a scratch copy of /repo (seeded changes, PYFS2_VERIF_REPO) must not overwrite the evidence of
        # the real tree: tools/mutant.py points this at a scratch directory
        evdir = os.environ.get("PYFS2_VERIF_EVIDENCE_DIR") or os.path.join(VERIF, "evidence")
        os.makedirs(evdir, exist_ok=True)
        with open(os.path.join(evdir, "%s.json" % self.pid), "w") as fh:
            json.dump(ev, fh, indent=1, sort_keys=True, default=str)
            fh.write("\n")
        for k, ex in self.known_seen:
            print("KNOWN-FINDING: property=%s %s" % (self.pid, k["what"]))
        for path, no_input in self.violations:
            print("VIOLATION property=%s replay=%s%s" % (
                self.pid, path, " no-failing-input-found" if no_input else ""))
        sys.stdout.flush()
        return 1 if self.violations else 0


def preflight(report):
    """Steps 0 of every check: forbidden vernacular, build, property file.

    Returns the proof dict; on failure registers a no-input violation."""
    bad = scan_forbidden()
    ok, log = build()
    proof = None
    if ok and not bad:
        proof = check_property_file(report.pid)
    if bad or not ok or not proof["ok"]:
        report.violation(dict(kind="proof-broken",
                              what="Coq development does not check for " + report.pid,
                              forbidden=bad, build_log=log[-3000:],
                              property_file=(proof or {}).get("log", "")[-3000:],
                              theorem="Props/%s.v" % report.pid), no_input=True)
        if proof is None:
            proof = dict(ok=False, obligations=0, discharged=0, theorems=[], axioms=[],
                         checker_cmd="cd /verif/coq && make", log=log)
    return proof
