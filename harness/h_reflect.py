"""C04 (read-only filesystems cannot be modified) and C18 (close() is final, idempotent and
finalises exactly once): every public method of FS, enumerated by reflection, is called with
synthesised arguments on every construction; the storage underneath is snapshotted.

The dispatch table (class x public method -> implementing class) is dumped from the running
code into coq/Gen/Dispatch_gen.v and the table theorems (Props/C04.v, Props/C18.v) are
re-checked by coqc on every run."""
from __future__ import print_function

import gc
import inspect
import io
import itertools
import json
import os
import random
import shutil
import tempfile

import common
import fsops

# Signatures that are NOT violations (decided by the framework owner):
#  - TempFS.clean() is the documented way to delete the directory of a TempFS(auto_clean=False); calling it after close()
#    is its intended use, so "changed stored data" is expected there.
# (The eleven signatures about WriteZipFS/WriteTarFS after a FAILED close() that used to be listed here were a genuine
#  defect - FS.close() was reached only when the archive write succeeded - repaired in /repo 4c92948; they are
#  violations again if they ever return.)
PENDING_FINDINGS = [
    "call after close() changed stored data: TempFS.clean",
    # NOT violations (decided by the framework owner, DESIGN.md 9.6): WrapFS.delegate_fs() / delegate_path() are the documented
    # accessors of the WRAPPED filesystem; what they return IS the wrapped object, and writing to it is writing to the
    # unwrapped filesystem, not "through the read-only filesystem" - the property quantifies over calls on the read-only
    # filesystem and on what those calls produce for it (sub-filesystems, handles, walkers), not over its own unwrapping.
    "read-only filesystem hands out a way to change what it wraps: read_only.delegate_fs",
    "read-only filesystem hands out a way to change what it wraps: read_only.delegate_path",
]

NON_DATA = {"getmeta", "lock", "getsyspath", "getospath", "geturl", "hassyspath", "hasurl", "isclosed",
            "check", "close", "validatepath", "match", "match_glob", "desc", "delegate_fs", "delegate_path",
            "tree", "walker_class", "subfs_class"}


def public_methods():
    from fs.base import FS
    out = []
    for n in sorted(dir(FS)):
        if n.startswith("_"):
            continue
        a = inspect.getattr_static(FS, n)
        if isinstance(a, property):
            continue
        if callable(getattr(FS, n, None)):
            out.append(n)
    return out


def synth_args(name, fn, variant, rnd):
    """Arguments for a method from its parameter names; variant selects path choices."""
    try:
        params = list(inspect.signature(fn).parameters.values())
    except (TypeError, ValueError):
        return None
    args = []
    r = random.Random("%s/%d" % (name, variant))
    textual = name in ("writetext", "appendtext", "settext")
    dirop = name in ("copydir", "movedir")
    pair = r.choice([("d", "newdir"), ("d/sub", "sub2"), ("d", "d2/x")]) if dirop else \
        r.choice([("f.txt", "new2"), ("d/g.txt", "d/new3"), ("f.txt", "d/g.txt"), ("d", "new4")])
    for p in params:
        if p.kind in (p.VAR_POSITIONAL, p.VAR_KEYWORD):
            continue
        n = p.name
        if n == "self":
            continue
        if n in ("path", "dir_path"):
            keys = ["f.txt", "d", "d/g.txt", "new", "/", "d/sub", "d/newdir"]
            args.append(keys[variant % len(keys)])
        elif n == "src_path":
            args.append(pair[0])
        elif n == "dst_path":
            args.append(pair[1])
        elif n in ("data",):
            args.append(b"DATA")
        elif n in ("contents",):
            args.append(u"TEXT" if textual else b"DATA")
        elif n in ("text",):
            args.append(u"TEXT")
        elif n == "file":
            args.append(io.BytesIO(b"FILE"))
        elif n == "mode":
            modes = ["r", "w", "a", "r+", "x", "rb", "wb", "rw", "ra", "rx", "rwb", "w+", "a+b"]
            args.append(modes[(variant * 5 + variant // 7) % len(modes)])
        elif n == "info":
            args.append({"details": {"modified": fsops.MT_BASE + 7 + variant}})
        elif n in ("namespaces",):
            args.append(["details"])
        elif n == "name" and name == "hash":
            args.append("md5")
        elif n == "name":
            args.append("f.txt")
        elif n in ("patterns",):
            args.append(["*"])
        elif n in ("wipe", "create", "overwrite", "recreate"):
            args.append(True)
        elif n == "accessed" and name == "settimes":
            args.append(None)
        elif n == "modified" and name == "settimes":
            import datetime
            args.append(datetime.datetime.utcfromtimestamp(fsops.MT_BASE + 9))
        elif p.default is not inspect.Parameter.empty:
            args.append(p.default)          # keep going: later parameters (recreate, ...) matter
        elif n in ("accessed", "modified"):
            args.append(None)
        else:
            args.append(None)
    return args


def populate(fs):
    fs.makedirs("d/sub", recreate=True)
    fs.writebytes("f.txt", b"hello")
    fs.writebytes("d/g.txt", b"world\nline2\n")
    fs.setinfo("f.txt", {"details": {"modified": 1400000000}})


def has_var_keyword(fn):
    try:
        return any(p.kind == p.VAR_KEYWORD for p in inspect.signature(fn).parameters.values())
    except (TypeError, ValueError):
        return False


OPTION_MODES = ["w", "a", "r+", "x", "wb", "w+"]


def call(obj, name, args, kwargs=None):
    import fs.errors as E
    try:
        import contextlib
        with contextlib.redirect_stdout(io.StringIO()):
            r = getattr(obj, name)(*args, **(kwargs or {}))
        if inspect.isgenerator(r) or hasattr(r, "__next__"):
            try:
                r = list(r)
            except TypeError:
                pass
        return "ok", r
    except E.FSError as e:
        return type(e).__name__, None
    except Exception as e:  # noqa
        return "crash:" + type(e).__name__, None


class Store(object):
    """An underlying storage with a snapshot that does not go through the object under test."""
    def __init__(self, kind):
        self.kind = kind
        self.tmp = None
        if kind == "mem":
            from fs.memoryfs import MemoryFS
            self.fs = MemoryFS()
        elif kind == "memsub":
            # a backend that uses the documented FS.subfs_class hook
            from fs.memoryfs import MemoryFS
            from fs.subfs import SubFS

            class CustomSubFS(SubFS):
                pass

            class CustomMemoryFS(MemoryFS):
                subfs_class = CustomSubFS
            self.kind = "mem"
            self.fs = CustomMemoryFS()
        elif kind == "os":
            from fs.osfs import OSFS
            self.tmp = tempfile.mkdtemp(prefix="pyfs2verif_")
            self.fs = OSFS(self.tmp)
        elif kind == "temp":
            # backends with public mutators of their own, outside the FS interface (C04 round 4): TempFS.clean ...
            from fs.tempfs import TempFS
            self.holder = tempfile.mkdtemp(prefix="pyfs2verif_")
            self.fs = TempFS(temp_dir=self.holder)
            self.tmp = self.fs.getsyspath("/").rstrip(os.sep)
        elif kind in ("mount", "multi"):
            # ... MountFS.mount / MultiFS.add_fs, get_fs, write_fs ...: the storage is the members AND the table
            from fs.memoryfs import MemoryFS
            from fs.mountfs import MountFS
            from fs.multifs import MultiFS
            self.members = [MemoryFS(), MemoryFS()]
            if kind == "mount":
                self.fs = MountFS(auto_close=True)
                self.fs.mount("m", self.members[0])
                self.fs.mount("d", self.members[1])
            else:
                self.fs = MultiFS(auto_close=True)
                self.fs.add_fs("m", self.members[0], priority=1)
                self.fs.add_fs("w", self.members[1], write=True)
            self.members[0].writebytes("f.txt", b"hello")
            self.members[0].setinfo("f.txt", {"details": {"modified": 1400000000}})
            if kind == "multi":
                self.members[1].makedirs("d/sub")
                self.members[1].writebytes("d/g.txt", b"world\nline2\n")
                self.members[0].makedirs("d")
            else:
                self.members[1].makedirs("sub")
                self.members[1].writebytes("g.txt", b"world\nline2\n")
                self.fs.writebytes("f.txt", b"hello")          # (the root of a MountFS is its default_fs)
                self.fs.setinfo("f.txt", {"details": {"modified": 1400000000}})
            return
        elif kind in ("wzip", "wtar"):
            # ... WriteZipFS.write_zip / WriteTarFS.write_tar: the storage is the staging directory and the target file
            from fs.zipfs import ZipFS
            from fs.tarfs import TarFS
            self.holder = tempfile.mkdtemp(prefix="pyfs2verif_")
            self.target = os.path.join(self.holder, "target.archive")
            saved = tempfile.tempdir
            tempfile.tempdir = self.holder
            try:
                self.fs = (ZipFS if kind == "wzip" else TarFS)(self.target, write=True)
            finally:
                tempfile.tempdir = saved
            self.tmp = self.fs.delegate_fs().getsyspath("/").rstrip(os.sep)
        populate(self.fs)

    @staticmethod
    def _raw_mem(fsx):
        """Entry tree with bytes and the EXACT modification times (reading may move `accessed`, nothing else)."""
        def go(e):
            if e.is_dir:
                return ("D", repr(e.modified_time), [(k, go(v)) for k, v in e._dir.items()])
            return ("F", repr(e.modified_time), e._bytes_file.getvalue())
        return repr(go(fsx.root))

    def _table(self):
        """Mount table / member table of a composite, and the filesystems it writes to (identities)."""
        f = self.fs
        if self.kind == "mount":
            return repr([(p, id(m)) for p, m in f.mounts]) + "|" + self._raw_mem(f.default_fs)
        return repr(sorted((n, id(m)) for n, m in f.iterate_fs())) + "|" + repr(id(f.write_fs))

    def snapshot(self):
        if self.kind == "mem":
            if self.fs.isclosed():
                return self._last
            return fsops.snap_memoryfs(self.fs) + "|" + self._raw_mem(self.fs)
        if self.kind in ("mount", "multi"):
            if self.fs.isclosed() or any(m.isclosed() for m in self.members):
                return "closed"
            return "|".join(self._raw_mem(m) for m in self.members) + "#" + self._table()
        out = []
        if self.kind in ("temp", "wzip", "wtar"):
            out.append(("<root>", os.path.isdir(self.tmp), None))
            target = getattr(self, "target", None)
            if target is not None:
                out.append(("<target>", open(target, "rb").read() if os.path.exists(target) else None, None))
        for root, dirs, files in os.walk(self.tmp):
            dirs.sort()
            for f in sorted(files):
                p = os.path.join(root, f)
                with open(p, "rb") as fh:
                    out.append((os.path.relpath(p, self.tmp), fh.read(), int(os.stat(p).st_mtime)))
            for dd in dirs:
                out.append((os.path.relpath(os.path.join(root, dd), self.tmp), None, None))
        return repr(sorted(out, key=lambda x: x[0]))

    def remember(self):
        if self.kind == "mem":
            self._last = fsops.snap_memoryfs(self.fs) + "|" + self._raw_mem(self.fs)

    def cleanup(self):
        if self.kind in ("wzip", "wtar"):        # nothing worth archiving: close() then only removes the staging directory
            try:
                for n in os.listdir(self.tmp):
                    q = os.path.join(self.tmp, n)
                    shutil.rmtree(q) if os.path.isdir(q) else os.remove(q)
            except Exception:  # noqa
                pass
        try:
            self.fs.close()
        except Exception:
            pass
        for m in getattr(self, "members", ()):
            try:
                m.close()
            except Exception:  # noqa
                pass
        if self.tmp:
            shutil.rmtree(self.tmp, ignore_errors=True)
        if getattr(self, "holder", None):
            shutil.rmtree(self.holder, ignore_errors=True)


# ------------------------------------------------------------------ C04

def ro_constructions():
    from fs.wrap import read_only
    from fs.mountfs import MountFS

    def plain(kind):
        def make():
            st = Store(kind)
            return read_only(st.fs), st
        return make

    def sub(kind):
        def make():
            st = Store(kind)
            return read_only(st.fs.opendir("/")), st
        return make

    def ro_of_sub():
        st = Store("mem")
        st.fs.makedirs("top")
        s = st.fs.opendir("top")
        populate(s)
        return read_only(s), st

    def mount():
        st = Store("mem")
        m = MountFS(auto_close=False)
        m.mount("m", st.fs)
        return read_only(m).opendir("m"), st

    def nested():
        st = Store("mem")
        return read_only(read_only(st.fs)), st

    def sub_of_ro(kind):
        def make():
            st = Store(kind)
            st.fs.makedirs("top")
            populate(st.fs.opendir("top"))
            return read_only(st.fs).opendir("top"), st
        return make
    return [("read_only(MemoryFS)", plain("mem")), ("read_only(OSFS)", plain("os")),
            ("read_only(MemoryFS with subfs_class)", plain("memsub")),
            ("read_only(SubFS(MemoryFS))", ro_of_sub), ("read_only(MountFS)/m", mount),
            ("read_only(read_only(MemoryFS))", nested),
            # round 4: backends with public mutators / writable members outside the FS interface
            ("read_only(TempFS)", plain("temp")), ("read_only(MountFS)", plain("mount")),
            ("read_only(MultiFS)", plain("multi")), ("read_only(WriteZipFS)", plain("wzip")),
            ("read_only(WriteTarFS)", plain("wtar")), ("read_only(TempFS)/top", sub_of_ro("temp"))]


ROUND4_CONSTRUCTIONS = ("read_only(TempFS)", "read_only(MountFS)", "read_only(MultiFS)", "read_only(WriteZipFS)",
                        "read_only(WriteTarFS)", "read_only(TempFS)/top")


def archive_constructions():
    from fs.memoryfs import MemoryFS
    from fs.compress import write_zip, write_tar
    from fs.zipfs import ZipFS
    from fs.tarfs import TarFS
    out = []

    def implied_zip(_src, buf):
        # members added by path only: the directories are implied, there is no member for them
        import zipfile
        with zipfile.ZipFile(buf, "w") as z:
            z.writestr("f.txt", b"hello")
            z.writestr("d/g.txt", b"world\nline2\n")
            z.writestr("d/sub/x.txt", b"x")

    def implied_tar(_src, buf):
        import tarfile
        with tarfile.open(fileobj=buf, mode="w") as t:
            for n, d in (("f.txt", b"hello"), ("d/g.txt", b"world\nline2\n"), ("d/sub/x.txt", b"x")):
                ti = tarfile.TarInfo(n)
                ti.size = len(d)
                ti.mtime = 1400000000
                t.addfile(ti, io.BytesIO(d))

    def deep(fsx):
        """Everything observable through the API: names, every info namespace, bytes."""
        rows = []
        try:
            todo = ["/"]
            while todo:
                d = todo.pop()
                for n in sorted(fsx.listdir(d)):
                    q = d.rstrip("/") + "/" + n
                    i = fsx.getinfo(q, namespaces=["details", "access", "tar", "zip", "stat", "link"])
                    rows.append((q, repr(sorted((k, sorted(v.items(), key=repr)) for k, v in i.raw.items()))))
                    for ns in (None, ["basic"], ["details"], ["details", "access"]):     # every namespace request
                        j = fsx.getinfo(q, namespaces=ns)
                        rows.append((q, repr(ns), repr(sorted((k, sorted(v.items(), key=repr)) for k, v in j.raw.items()))))
                for sc in fsx.scandir(d):
                    rows.append((d, "scandir", sc.name, sc.is_dir))
                    if i.is_dir:
                        todo.append(q)
                    else:
                        rows.append((q, fsx.readbytes(q)))
        except Exception as e:  # noqa
            rows.append(("ERR", type(e).__name__))
        return rows

    for label, writer, cls in (("ReadZipFS", write_zip, ZipFS), ("ReadTarFS", write_tar, TarFS),
                               ("ReadZipFS(implied directories)", implied_zip, ZipFS),
                               ("ReadTarFS(implied directories)", implied_tar, TarFS)):
        def make(writer=writer, cls=cls):
            src = MemoryFS()
            populate(src)
            buf = io.BytesIO()
            writer(src, buf)
            raw = buf.getvalue()
            buf.seek(0)
            obj = cls(buf)

            class St(object):
                def snapshot(self_):
                    # the archive bytes, and: the object still looks exactly like a freshly opened one
                    if obj.isclosed():
                        return repr((buf.closed or buf.getvalue() == raw, "closed"))
                    fresh = cls(io.BytesIO(raw))
                    try:
                        same = deep(obj) == deep(fresh)
                    finally:
                        fresh.close()
                    return repr((buf.getvalue() == raw, same))

                def cleanup(self_):
                    pass
            return obj, St()
        out.append((label, make))
    return out


def sweep_readonly(label, make, methods, rnd, results, depth=0, variants=None, cov=None, value_budget=2):
    """Call every public method (several argument variants) on a fresh read-only object."""
    from fs.base import FS
    import fs.errors as E
    for name in methods:
        if name in ("close",):
            continue
        probed_values = 0
        for variant in (range(14 + 2 * len(OPTION_MODES)) if variants is None else variants):
            ro, st = make()
            try:
                fn = getattr(ro, name, None)
                if fn is None:
                    continue
                kwargs = None
                if variant >= 14:
                    # methods taking **options forward them to openbin: a writable mode smuggled in there
                    if not has_var_keyword(getattr(FS, name, fn)):
                        continue
                    k = variant - 14
                    kwargs = {"mode": OPTION_MODES[k // 2]}
                    args = synth_args(name, getattr(FS, name, fn), (0, 2)[k % 2], rnd)
                    if args is not None and "mode" in [p for p in inspect.signature(getattr(FS, name, fn)).parameters]:
                        continue            # mode is a named parameter there: covered by the variants above
                else:
                    args = synth_args(name, getattr(FS, name, fn), variant, rnd)
                if args is None:
                    continue
                before = st.snapshot()
                verdict, value = call(ro, name, args, kwargs)
                after = st.snapshot()
                rec = dict(construction=label, method=name, args=(repr(args) + (" **%r" % kwargs if kwargs else ""))[:120],
                           verdict=verdict, changed=before != after)
                results.append(rec)
                # objects returned by the call
                if verdict == "ok" and value is not None:
                    probe_returned(label, name, args, value, st, results)
                    # ... and the value itself belongs to the caller: whatever he does to it in place changes nothing
                    if cov is not None and probed_values < value_budget and is_mutable_value(value):
                        probed_values += 1
                        returned_value_probe(label, name, args, value, ro, st, make, results, cov)
            finally:
                try:
                    ro.close()
                except Exception:
                    pass
                st.cleanup()


def probe_returned(label, name, args, value, st, results):
    from fs.base import FS
    import fs.errors as E
    objs = value if isinstance(value, list) else [value]
    for obj in objs[:3]:
        # file objects: write / writelines / truncate must be refused and change nothing
        if hasattr(obj, "read") and hasattr(obj, "write") and hasattr(obj, "close"):
            mode = args[1] if len(args) > 1 and isinstance(args[1], str) else "r"
            for m, a in (("write", [b"Z"] if "b" in getattr(obj, "mode", "b") or not hasattr(obj, "encoding") else ["Z"]),
                         ("writelines", [[b"Z"]]), ("truncate", [0])):
                before = st.snapshot()
                try:
                    if m == "write" and hasattr(obj, "encoding"):
                        a = ["Z"]
                    if m == "writelines" and hasattr(obj, "encoding"):
                        a = [["Z"]]
                    getattr(obj, m)(*a)
                    try:
                        obj.flush()
                    except Exception:
                        pass
                    verdict = "ok"
                except Exception as e:  # noqa
                    verdict = "refused"
                after = st.snapshot()
                results.append(dict(construction=label, method="%s(...).%s" % (name, m), args=repr(args)[:80],
                                    verdict=verdict, changed=before != after, handle=True))
            # reading through the handle in every way must not change data or metadata either
            for m, a in (("readable", []), ("seekable", []), ("tell", []), ("read", [1]), ("readline", []),
                         ("readinto", [bytearray(2)]), ("readlines", [3]), ("seek", [0]), ("read", []),
                         ("__iter__", []), ("fileno", []), ("isatty", []), ("flush", [])):
                before = st.snapshot()
                try:
                    rr = getattr(obj, m)(*a)
                    if m == "__iter__":
                        list(rr)
                    verdict = "ok"
                except Exception as e:  # noqa
                    verdict = "refused"
                after = st.snapshot()
                if before != after:
                    results.append(dict(construction=label, method="%s(...).%s" % (name, m), args=repr(args)[:80],
                                        verdict=verdict, changed=True, read_call=True))
            try:
                obj.close()
            except Exception:
                pass
        elif isinstance(obj, FS):
            # queries on a returned sub-filesystem (its root in every spelling) must change nothing
            for m, a in (("getinfo", ["/"]), ("getinfo", ["", ["details", "access"]]), ("getbasic", ["/"]),
                         ("getdetails", ["/"]), ("listdir", ["/"]), ("scandir", ["."]), ("opendir", ["/"]),
                         ("isdir", ["/"]), ("exists", ["./"]), ("getmeta", []), ("walk.files", []), ("tree", [])):
                before = st.snapshot()
                try:
                    tgt = obj
                    for part in m.split("."):
                        tgt = getattr(tgt, part)
                    import contextlib
                    with contextlib.redirect_stdout(io.StringIO()):
                        rr = tgt(*a)
                    if inspect.isgenerator(rr) or hasattr(rr, "__next__"):
                        list(rr)
                    verdict = "ok"
                except Exception as e:  # noqa
                    verdict = type(e).__name__
                after = st.snapshot()
                if before != after:
                    results.append(dict(construction=label, method="%s(...).%s" % (name, m), args=repr(a)[:80],
                                        verdict=verdict, changed=True, sub=True, read_call=True))
            for m, a in (("writebytes", ["zz", b"Z"]), ("makedir", ["zd"]), ("remove", ["g.txt"]),
                         ("removetree", ["/"]), ("setinfo", ["/", {"details": {"modified": 5}}]),
                         ("movedir", ["sub", "sub2", True]), ("copydir", ["sub", "sub3", True]),
                         ("touch", ["zt"]), ("appendbytes", ["g.txt", b"Z"])):
                before = st.snapshot()
                verdict, _v = call(obj, m, a)
                after = st.snapshot()
                results.append(dict(construction=label, method="%s(...).%s" % (name, m), args=repr(a)[:80],
                                    verdict=verdict, changed=before != after, sub=True))
        elif type(obj).__name__ in ("Globber", "BoundGlobber", "BoundWalker"):
            pass


def read_idioms_probe(label, make, results):
    """Every way of READING through a read-only filesystem (buffered / unbuffered / text handles, wrappers from the io
    module, bulk copies out of it) leaves data and metadata (modification times) of the storage unchanged."""
    import fs.copy
    from fs.memoryfs import MemoryFS

    def idioms(ro):
        yield "open(rb,buffering=0).read", lambda: ro.open("f.txt", "rb", buffering=0).read()
        yield "open(rb,buffering=1)", lambda: ro.open("f.txt", "rb", buffering=1).read()
        yield "open(rb,buffering=4096).read", lambda: ro.open("d/g.txt", "rb", buffering=4096).read()
        yield "open(r).readlines", lambda: ro.open("d/g.txt", "r").readlines()
        yield "for line in open(r,buffering=16)", lambda: [l for l in ro.open("d/g.txt", "r", buffering=16)]
        yield "io.BufferedReader(openbin).read", lambda: io.BufferedReader(ro.openbin("f.txt")).read()
        yield "io.TextIOWrapper(openbin).read", lambda: io.TextIOWrapper(ro.openbin("d/g.txt")).read()
        yield "openbin.readinto", lambda: ro.openbin("f.txt").readinto(bytearray(3))
        yield "readbytes/readtext/hash/getsize", lambda: (ro.readbytes("f.txt"), ro.readtext("d/g.txt"),
                                                       ro.hash("f.txt", "md5"), ro.getsize("f.txt"))
        yield "download", lambda: ro.download("f.txt", io.BytesIO())
        yield "copy_file out", lambda: fs.copy.copy_file(ro, "f.txt", MemoryFS(), "c")
        yield "copy_fs out (workers=0)", lambda: fs.copy.copy_fs(ro, MemoryFS())
        yield "copy_fs out (workers=2, preserve_time)", lambda: fs.copy.copy_fs(ro, MemoryFS(), workers=2, preserve_time=True)
        yield "getinfo all namespaces", lambda: [ro.getinfo(p, ["details", "access", "stat", "link"]).raw
                                                 for p in ("f.txt", "d", "d/g.txt", "/")]
    ro, st = make()
    try:
        for what, fn in idioms(ro):
            before = st.snapshot()
            try:
                fn()
                verdict = "ok"
            except Exception as e:  # noqa
                verdict = type(e).__name__
            results.append(dict(construction=label, method="read idiom: " + what, args="", verdict=verdict,
                                changed=before != st.snapshot(), read_call=True))
    finally:
        try:
            ro.close()
        except Exception:
            pass
        st.cleanup()


def glob_walk_probe(label, make, results):
    ro, st = make()
    try:
        before = st.snapshot()
        try:
            n = ro.glob("**/*.txt").remove()
            verdict = "ok"
        except Exception as e:  # noqa
            verdict = type(e).__name__
        results.append(dict(construction=label, method="glob(...).remove", args="**/*.txt", verdict=verdict,
                            changed=before != st.snapshot()))
        before = st.snapshot()
        list(ro.walk.info())
        list(ro.walk.files(filter=["*.txt"]))
        ro.glob("*").count()
        results.append(dict(construction=label, method="walk/glob queries", args="", verdict="ok",
                            changed=before != st.snapshot()))
    finally:
        try:
            ro.close()
        except Exception:
            pass
        st.cleanup()


# ------------------------------------------------------------------ C04, round 4: the whole reachable surface
# (a) every public attribute reachable on a read-only object - by dir() AND by asking the wrapper for every public name
#     of the class of the filesystem it wraps - is exercised: callables are called with synthesised arguments, values
#     that are filesystems / file objects get the mutator battery, other objects get every public method called;
# (b) every value a call returns (lists, dicts, Info objects and their nested dicts, tuples) gets every in-place mutator of
#     its type; afterwards the storage snapshot AND the answers of a battery of queries on the same object are unchanged,
#     and equal (structurally) to those of a freshly built twin.

def safe_snapshot(st):
    """The storage snapshot; a storage so damaged that it cannot be read any more is a change, not a harness failure."""
    try:
        return st.snapshot()
    except Exception as e:  # noqa
        return "SNAPFAIL:" + type(e).__name__


def is_mutable_value(v, depth=0):
    from fs.info import Info
    if isinstance(v, (list, dict, set, bytearray, Info)):
        return True
    if isinstance(v, tuple) and depth < 3:
        return any(is_mutable_value(x, depth + 1) for x in v)
    return False


def mutate_in_place(v, depth=0, log=None):
    """Every in-place mutator of the value's type (nested containers first). Returns the names of the mutators applied."""
    from fs.info import Info
    log = [] if log is None else log
    if depth > 4:
        return log

    def attempt(what, fn):
        try:
            fn()
            log.append(what)
        except Exception:  # noqa
            pass
    if isinstance(v, Info):
        mutate_in_place(v.raw, depth + 1, log)
    elif isinstance(v, dict):
        for x in list(v.values()):
            if isinstance(x, (list, dict, set, bytearray, tuple, Info)):
                mutate_in_place(x, depth + 1, log)
        for k in list(v.keys())[:3]:
            attempt("dict[k]=", lambda k=k: v.__setitem__(k, "changed-by-caller"))
        attempt("dict.update", lambda: v.update({"zz-added-by-caller": {"x": 1}}))
        attempt("dict.pop", lambda: v.pop(next(iter(v))))
        attempt("dict.setdefault", lambda: v.setdefault("zz2", []))
        attempt("dict.clear", v.clear)
    elif isinstance(v, list):
        for x in list(v):
            if isinstance(x, (list, dict, set, bytearray, tuple, Info)):
                mutate_in_place(x, depth + 1, log)
        attempt("list.sort", lambda: v.sort(key=repr, reverse=True))
        attempt("list.reverse", v.reverse)
        attempt("list.append", lambda: v.append("zz-added-by-caller"))
        attempt("list[i]=", lambda: v.__setitem__(0, "changed-by-caller"))
        attempt("list[:]=", lambda: v.__setitem__(slice(None), v[:1]))
        attempt("del list[i]", lambda: v.__delitem__(0))
        attempt("list.clear", v.clear)
    elif isinstance(v, tuple):
        for x in v:
            mutate_in_place(x, depth + 1, log)
    elif isinstance(v, set):
        attempt("set.add", lambda: v.add("zz-added-by-caller"))
        attempt("set.clear", v.clear)
    elif isinstance(v, bytearray):
        attempt("bytearray[:]=", lambda: v.__setitem__(slice(None), b"changed"))
    return log


def _freeze(v, structural):
    """A deep, order-preserving copy as text; 'accessed' times move when one reads (dropped); structural: no time,
    identity or location at all (what a freshly built twin must agree on)."""
    from fs.info import Info
    if isinstance(v, Info):
        v = v.raw
    if isinstance(v, dict):
        items = []
        for k, x in sorted(v.items(), key=lambda kv: repr(kv[0])):
            if k in ("accessed",) or (structural and k in ("modified", "created", "metadata_changed", "stat", "lstat", "access")):
                continue
            items.append((k, _freeze(x, structural)))
        return ("dict", tuple(items))
    if isinstance(v, (list, tuple)):
        return (type(v).__name__, tuple(_freeze(x, structural) for x in v))
    if isinstance(v, (set, frozenset)):
        return ("set", tuple(sorted(repr(x) for x in v)))
    return repr(v)


def answers(fsx, structural=False):
    """A fixed battery of queries on a filesystem; every answer is copied at once (nothing returned is kept or touched)."""
    rows = []

    def q(what, fn):
        try:
            rows.append((what, _freeze(fn(), structural)))
        except Exception as e:  # noqa
            rows.append((what, "exc:" + type(e).__name__))
    todo, seen = ["/"], 0
    while todo and seen < 10:
        d = todo.pop(0)
        seen += 1
        try:
            names = list(fsx.listdir(d))
        except Exception as e:  # noqa
            rows.append((d, "listdir", "exc:" + type(e).__name__))
            continue
        rows.append((d, "listdir", tuple(sorted(names) if structural else names)))
        q((d, "isempty"), lambda: fsx.isempty(d))
        q((d, "scandir"), lambda: (sorted if structural else list)((i.name, i.is_dir) for i in fsx.scandir(d)))
        q((d, "filterdir"), lambda: sorted(i.name for i in fsx.filterdir(d, files=["*.txt"])))
        for n in sorted(names):
            p = d.rstrip("/") + "/" + n
            q((p, "getinfo"), lambda: fsx.getinfo(p, ["details"]))
            q((p, "exists"), lambda: (fsx.exists(p), fsx.isfile(p)))
            isdir = False
            try:
                isdir = fsx.isdir(p)
            except Exception:  # noqa
                pass
            if isdir:
                todo.append(p)
            else:
                q((p, "readbytes"), lambda: fsx.readbytes(p))
    q("getinfo(/)", lambda: fsx.getinfo("/", ["details"]))
    q("getmeta", fsx.getmeta)
    q("getmeta(standard)", lambda: fsx.getmeta("standard"))
    q("walk.files", lambda: (sorted if structural else list)(fsx.walk.files()))
    q("walk.dirs", lambda: (sorted if structural else list)(fsx.walk.dirs()))
    q("glob", lambda: sorted(m.path for m in fsx.glob("**/*.txt")))
    return repr(rows)


def returned_value_probe(label, name, args, value, ro, st, make, results, cov):
    """Part (b): the in-place mutators of the returned value, then storage + answers (same object, fresh twin)."""
    before = safe_snapshot(st)
    base = answers(ro)
    applied = mutate_in_place(value)
    if not applied:
        return
    cov["returned_values_mutated"] += 1
    cov["in_place_mutators_applied"] += len(applied)
    after = answers(ro)
    changed = safe_snapshot(st) != before
    rec = dict(construction=label, method="%s(...) -> caller changes the returned %s in place" % (name, type(value).__name__),
               args=repr(args)[:80], verdict="ok", changed=changed, mutators=sorted(set(applied)), returned_value=True)
    if after != base:
        rec["answers_changed"] = True
        rec["first_difference"] = first_difference(base, after)
    else:
        twin, twin_st = make()
        try:
            mine, fresh = answers(ro, structural=True), answers(twin, structural=True)
            cov["twins_compared"] += 1
            if mine != fresh:
                rec["answers_changed"] = True
                rec["differs_from_fresh_twin"] = first_difference(fresh, mine)
        finally:
            try:
                twin.close()
            except Exception:  # noqa
                pass
            twin_st.cleanup()
    results.append(rec)


def first_difference(a, b):
    i = next((i for i in range(min(len(a), len(b))) if a[i] != b[i]), min(len(a), len(b)))
    return dict(expected=a[max(0, i - 80): i + 80], got=b[max(0, i - 80): i + 80])


def backend_chain(ro):
    """The filesystems a wrapper stands in front of (delegate_fs, repeatedly) and, for composites, their members."""
    from fs.base import FS
    out, f = [], ro
    for _ in range(6):
        g = None
        try:
            g = f.delegate_fs()
        except Exception:  # noqa
            pass
        if not isinstance(g, FS) or g is f:
            break
        out.append(g)
        f = g
    return out


def surface_names(ro, fs_methods):
    """Public names to try on a read-only object: what dir() shows that the FS-method sweep does not cover, and every
    public name of the classes (and instances) of the filesystems behind it. -> [(name, where it comes from)]"""
    mine = set(n for n in dir(ro) if not n.startswith("_"))
    out = dict((n, "dir(read-only object)") for n in mine if n not in fs_methods)
    for b in backend_chain(ro):
        for n in set(dir(type(b))) | set(dir(b)):
            if not n.startswith("_") and n not in fs_methods and n not in out:
                out[n] = "public name of %s" % type(b).__name__
    out.pop("close", None)
    return sorted(out.items())


def surface_args(fn, variant):
    """Arguments for an arbitrary public callable, from its parameter names."""
    from fs.memoryfs import MemoryFS
    try:
        params = list(inspect.signature(fn).parameters.values())
    except (TypeError, ValueError):
        return []
    args = []
    for p in params:
        if p.kind in (p.VAR_POSITIONAL, p.VAR_KEYWORD) or p.name == "self":
            continue
        n = p.name
        if n in ("path", "dir_path", "src_path", "dst_path"):
            args.append(["extra", "f.txt", "d", "/", "d/sub"][variant % 5])
        elif n in ("fs", "src_fs", "dst_fs", "filesystem"):
            m = MemoryFS()
            m.writebytes("from-caller.txt", b"C")
            args.append(m)
        elif n == "name":
            args.append(["m", "w", "extra", "f.txt"][variant % 4])
        elif n in ("write", "wipe", "create", "overwrite", "recreate"):
            args.append(variant % 2 == 0)
        elif n == "priority":
            args.append([10, -10, 0][variant % 3])
        elif n == "file":
            args.append(io.BytesIO())
        elif n == "mode":
            args.append(["r", "w", "a"][variant % 3])
        elif n in ("pattern",):
            args.append("**/*")
        elif n in ("namespaces",):
            args.append(["details"])
        elif n in ("data", "contents"):
            args.append(b"DATA")
        elif p.default is not inspect.Parameter.empty:
            args.append(p.default)
        else:
            args.append(None)
    return args


FS_BATTERY = (("writebytes", ["zz", b"Z"]), ("makedir", ["zd"]), ("remove", ["f.txt"]), ("remove", ["g.txt"]),
              ("appendbytes", ["f.txt", b"Z"]), ("setinfo", ["/", {"details": {"modified": 5}}]), ("touch", ["zt"]),
              ("removetree", ["/"]))
PRIMITIVE = (str, bytes, int, float, bool, type(None), type)


def exercise_obtained(obj, st, depth, ops):
    """Whatever was obtained through a read-only object: a filesystem gets the mutator battery, a file object write /
    truncate, a container its elements and its own in-place mutators, any other object every public method. ops collects
    (operation, verdict); the caller compares the storage."""
    from fs.base import FS
    if isinstance(obj, PRIMITIVE) or depth > 2 or len(ops) > 60 or inspect.isroutine(obj) or inspect.ismodule(obj):
        return
    if isinstance(obj, FS):
        for m, a in FS_BATTERY:
            ops.append(("%s.%s" % (type(obj).__name__, m), call(obj, m, a)[0]))
        return
    if hasattr(obj, "read") and hasattr(obj, "write") and hasattr(obj, "close"):
        for m, a in (("write", [b"Z"]), ("write", ["Z"]), ("truncate", [0]), ("writelines", [[b"Z"]])):
            try:
                getattr(obj, m)(*a)
                obj.flush()
                ops.append(("file.%s" % m, "ok"))
            except Exception:  # noqa
                ops.append(("file.%s" % m, "refused"))
        try:
            obj.close()
        except Exception:  # noqa
            pass
        return
    if inspect.isgenerator(obj) or hasattr(obj, "__next__"):
        try:
            obj = list(itertools.islice(obj, 50))
        except Exception:  # noqa
            return
    if isinstance(obj, (list, tuple, set, frozenset, dict)):
        for x in (list(obj.items()) if isinstance(obj, dict) else list(obj))[:6]:
            exercise_obtained(x, st, depth + 1, ops)
        for what in mutate_in_place(obj):
            ops.append((what, "ok"))
        return
    for n in sorted(dir(obj)):
        if n.startswith("_") or len(ops) > 60:
            continue
        try:
            f = getattr(obj, n)
        except Exception:  # noqa
            continue
        if not callable(f) or isinstance(f, type):
            if not isinstance(f, PRIMITIVE):
                exercise_obtained(f, st, depth + 1, ops)
            continue
        try:
            import contextlib
            with contextlib.redirect_stdout(io.StringIO()):
                r = f(*surface_args(f, 0))
            ops.append(("%s.%s" % (type(obj).__name__, n), "ok"))
        except Exception as e:  # noqa
            ops.append(("%s.%s" % (type(obj).__name__, n), type(e).__name__))
            continue
        if not isinstance(r, PRIMITIVE):
            exercise_obtained(r, st, depth + 1, ops)


def surface_sweep(label, make, fs_methods, results, cov):
    """Part (a). One record per (construction, name): could something obtained under that name change the storage, or
    what the read-only object answers?"""
    ro, st = make()
    try:
        names = surface_names(ro, fs_methods)
    finally:
        try:
            ro.close()
        except Exception:  # noqa
            pass
        st.cleanup()
    for name, origin in names:
        cov["surface_names_tried"] += 1
        for variant in range(3):
            ro, st = make()
            try:
                try:
                    v = getattr(ro, name)
                except Exception:  # noqa
                    cov["surface_names_not_reachable"] += 1
                    break
                if isinstance(v, PRIMITIVE):
                    cov["surface_plain_values"] += 1
                    break
                static = None
                for k in [type(ro)] + [type(b) for b in backend_chain(ro)]:
                    try:
                        static = inspect.getattr_static(k, name)
                        break
                    except AttributeError:
                        pass
                if static is not None and not callable(v) and not isinstance(static, property):
                    # a constant of a class (e.g. a lookup table): library code, not a value handed out
                    cov["surface_class_constants"] += 1
                    break
                before = safe_snapshot(st)
                base = answers(ro)
                ops = []
                what = name
                if callable(v) and not isinstance(v, type):
                    args = surface_args(v, variant)
                    verdict, r = call(ro, name, args)
                    what = "%s(%s)" % (name, ", ".join(type(a).__name__ if not isinstance(a, PRIMITIVE) else repr(a) for a in args))
                    ops.append((what, verdict))
                    cov["surface_calls"] += 1
                    if verdict == "ok" and r is not None:
                        exercise_obtained(r, st, 0, ops)
                else:
                    exercise_obtained(v, st, 0, ops)
                cov["surface_operations"] += len(ops)
                changed = safe_snapshot(st) != before
                after = answers(ro)
                rec = dict(construction=label, method=name, args=what[:100], origin=origin, verdict="ok", changed=changed,
                           surface=True, operations=["%s: %s" % o for o in ops[:12]])
                if after != base:
                    rec["answers_changed"] = True
                    rec["first_difference"] = first_difference(base, after)
                results.append(rec)
                if not callable(v):
                    break
            finally:
                try:
                    ro.close()
                except Exception:  # noqa
                    pass
                st.cleanup()


def mutating_methods(methods, rnd):
    """Semantic classification: a method is mutating when some synthesised call changes a
    writable MemoryFS (so a method added later is classified by what it does)."""
    from fs.base import FS
    mut = {}
    for name in methods:
        if name == "close":
            continue
        for variant in range(14):
            st = Store("mem")
            try:
                args = synth_args(name, getattr(FS, name), variant, rnd)
                if args is None:
                    continue
                before = st.snapshot()
                verdict, value = call(st.fs, name, args)
                if hasattr(value, "close") and hasattr(value, "read"):
                    value.close()
                if st.snapshot() != before:
                    mut[name] = True
            finally:
                st.cleanup()
        mut.setdefault(name, False)
    return mut


def dispatch_table():
    """class x public method -> name of the class whose implementation runs."""
    import fs.base, fs.wrapfs, fs.wrap, fs.subfs, fs.memoryfs, fs.osfs, fs.mountfs, fs.multifs, fs.zipfs, fs.tarfs, fs.tempfs
    classes = [fs.base.FS, fs.wrapfs.WrapFS, fs.wrap.WrapReadOnly, fs.wrap.WrapCachedDir, fs.subfs.SubFS,
               fs.subfs.ClosingSubFS, fs.memoryfs.MemoryFS, fs.osfs.OSFS, fs.tempfs.TempFS, fs.mountfs.MountFS,
               fs.multifs.MultiFS, fs.zipfs.ReadZipFS, fs.zipfs.WriteZipFS, fs.tarfs.ReadTarFS, fs.tarfs.WriteTarFS]
    table = {}
    for c in classes:
        for n in public_methods():
            for k in c.__mro__:
                if n in k.__dict__:
                    table[(c.__name__, n)] = k.__name__
                    break
    return table


CHECK_FILES = {'fs/wrapfs.py': ['WrapFS'], 'fs/subfs.py': ['SubFS', 'ClosingSubFS'], 'fs/wrap.py': ['WrapCachedDir', 'WrapReadOnly'],
               'fs/mountfs.py': ['MountFS'], 'fs/multifs.py': ['MultiFS'], 'fs/memoryfs.py': ['MemoryFS'], 'fs/osfs.py': ['OSFS'],
               'fs/zipfs.py': ['ReadZipFS', 'WriteZipFS'], 'fs/tarfs.py': ['ReadTarFS', 'WriteTarFS'], 'fs/tempfs.py': ['TempFS']}
CHECK_EXEMPT = NON_DATA | {"mount", "add_fs", "get_fs", "iterate_fs", "which", "clean", "write_zip", "write_tar", "walk", "glob"}
_PURE = {'format', 'get', 'strip', 'lower', 'append', 'extend', 'partition', 'split', 'join', 'startswith', 'endswith',
         'rstrip', 'lstrip', 'update', 'items', 'keys', 'values', 'copy'}


def check_table():
    """Translator (Python ast -> table): for every public data/metadata method DEFINED in a filesystem class of
    /repo, does its body call self.check() / self.validatepath() (directly, or through a private method of the
    class that does), or consist only of calls on self / super (so the check happens in what it calls)?"""
    import ast
    rows = []
    for fn, classes in sorted(CHECK_FILES.items()):
        tree = ast.parse(open(os.path.join(common.REPO, fn)).read())
        for sub in ast.walk(tree):
            if not (isinstance(sub, ast.ClassDef) and sub.name in classes):
                continue
            info = {}
            defs = []

            def collect(body):
                for f in body:
                    if isinstance(f, ast.FunctionDef):
                        defs.append(f)
                    elif isinstance(f, ast.If):      # e.g. OSFS: `if scandir: def _scandir ... else: def _scandir`
                        collect(f.body)
                        collect(f.orelse)
            collect(sub.body)
            alts = {}
            for f in defs:
                cs = []
                for n in ast.walk(f):
                    if isinstance(n, ast.Call):
                        fu = n.func
                        if isinstance(fu, ast.Attribute):
                            b = fu.value
                            if isinstance(b, ast.Name):
                                cs.append((b.id, fu.attr))
                            elif isinstance(b, ast.Call) and isinstance(b.func, ast.Name) and b.func.id == 'super':
                                cs.append(('super', fu.attr))
                            else:
                                cs.append(('?', fu.attr))
                        elif isinstance(fu, ast.Name):
                            cs.append(('', fu.id))
                info[f.name] = info.get(f.name, []) + cs
                alts.setdefault(f.name, []).append(('self', 'check') in cs or ('self', 'validatepath') in cs)
            direct = dict((m, all(a)) for m, a in alts.items())      # every alternative definition must check
            for m, cs in sorted(info.items()):
                if m.startswith('_') or m in CHECK_EXEMPT:
                    continue
                via_private = any(b == 'self' and a.startswith('_') and direct.get(a) for b, a in cs)
                only_self = all(b in ('self', 'super', '', 'errors', 'six', 'typing') or a in _PURE for b, a in cs)
                rows.append((sub.name, m, bool(direct[m] or via_private), bool(only_self)))
    return rows


def write_gen(table, mut):
    os.makedirs(os.path.join(common.COQ, "Gen"), exist_ok=True)
    def lit(s):
        return "[" + ";".join(str(ord(ch)) for ch in s) + "]%N"
    rows = []
    for (c, n), k in sorted(table.items()):
        rows.append("  (%s, %s, %s, %s)" % (lit(c), lit(n), lit(k), "true" if mut.get(n) else "false"))
    crow = ["  (%s, %s, %s, %s)" % (lit(c), lit(m), "true" if a else "false", "true" if b else "false")
            for c, m, a, b in check_table()]
    text = ("(* GENERATED on every run from the running code of /repo by harness/h_reflect.py. *)\n"
            "From Coq Require Import List NArith Bool.\nImport ListNotations.\n"
            "Definition dispatch_table : list (list N * list N * list N * bool) := [\n" +
            ";\n".join(rows) + "].\n"
            "(* class, method defined in it, calls check()/validatepath() (or a private method that does),\n"
            "   consists only of calls on self/super *)\n"
            "Definition check_table : list (list N * list N * bool * bool) := [\n" +
            ";\n".join(crow) + "].\n")
    path = os.path.join(common.COQ, "Gen", "Dispatch_gen.v")
    old = open(path).read() if os.path.exists(path) else None
    if old != text:
        with open(path, "w") as fh:
            fh.write(text)
    ok, out = common.coqc_file("Gen/Dispatch_gen.v")
    return ok, out


def ro_model_check(report, rnd, n_hist):
    """Correspondence of the proved read-only model (FS/ReadOnly.v, ro_mem_run): a history is run on a real
    MemoryFS for its first k calls, the rest on fs.wrap.read_only(that MemoryFS); every outcome and the
    storage tree after every call must equal the extracted model's."""
    import genhist
    from fs.memoryfs import MemoryFS
    from fs.wrap import read_only
    lines, got, hists = [], [], []
    for _ in range(n_hist):
        g = genhist.Gen(rnd, odd=0.1, spell=0.2)
        setup = g.history(rnd.randint(0, 14))
        k = len(setup)
        # through the read-only view: mostly the calls that are let through
        g.bias = dict(readbytes=10, openread=10, getinfo=8, listdir=8, scandir=6, exists=4, isdir=3, isfile=3,
                      isempty=4, getsize=4, gettype=3, openwrite=6)
        h = setup + g.history(rnd.randint(3, 12))
        mem = MemoryFS()
        ro = read_only(mem)
        rec = []
        for i, o in enumerate(h):
            out = fsops.execute(mem if i < k else ro, o)
            if i >= k:
                rec.append(out + "#" + fsops.snap_memoryfs(mem))
        toks = []
        for o in h:
            toks += fsops.encode(o)
        lines.append("fs ro %s %s" % (k if k else "0", " ".join(toks)))
        got.append(rec)
        hists.append((k, h))
    model = common.run_model_parallel(lines, chunk=400)
    bad = []
    steps = 0
    refused = 0
    for hi, rec in enumerate(got):
        exp = model[hi].split(" ") if model[hi] else []
        steps += len(rec)
        refused += sum(1 for r in rec if r.startswith("err:ResourceReadOnly"))
        if exp != rec:
            j = next((i for i in range(min(len(exp), len(rec))) if exp[i] != rec[i]), min(len(exp), len(rec)))
            bad.append((hi, j, exp[j] if j < len(exp) else None, rec[j] if j < len(rec) else None))
    n_vm, vm_mism = common.vm_crosscheck(lines[:200], model[:200], "C04", limit=40)
    for hi, j, e, gq in bad[:5]:
        k, h = hists[hi]
        o = h[k + j] if k + j < len(h) else None
        jop = [x.decode("latin-1") if isinstance(x, bytes) else x for x in o] if o else None
        tree_changed = False
        if gq and e and "#" in gq and "#" in e:
            tree_changed = gq.split("#", 1)[1] != e.split("#", 1)[1]
        report.violation(dict(kind="read-only-breach" if tree_changed else "correspondence-broken",
                              correspondence="real read_only(MemoryFS) vs FS/ReadOnly.v ro_mem_run (extracted)",
                              setup_calls=k, history=[[x.decode("latin-1") if isinstance(x, bytes) else x for x in oo] for oo in h[:k + j + 1]],
                              call=jop, model=e, implementation=gq, theorem="Props/C04.v C04_ro_history_unchanged"),
                         no_input=not tree_changed)
    if vm_mism:
        report.violation(dict(kind="correspondence-broken", correspondence="extraction vs vm_compute", detail=vm_mism[:3]),
                         no_input=True)
    return dict(ro_model_histories=n_hist, ro_model_steps=steps, ro_model_refused_steps=refused,
                ro_model_mismatches=len(bad), ro_model_vm_crosschecked=n_vm)


def run_c04(report):
    rnd = random.Random(report.seed + 4)
    methods = public_methods()
    mut = mutating_methods(methods, rnd)
    table = dispatch_table()
    gen_ok, gen_out = write_gen(table, mut)
    proof = common.preflight(report)
    results = []
    thorough = report.tier == "thorough"
    cons = ro_constructions() + archive_constructions()
    r4 = dict(surface_names_tried=0, surface_names_not_reachable=0, surface_plain_values=0, surface_calls=0,
              surface_operations=0, surface_class_constants=0, returned_values_mutated=0, in_place_mutators_applied=0,
              twins_compared=0, constructions_with_backend_specific_mutators=list(ROUND4_CONSTRUCTIONS))
    for ci, (label, make) in enumerate(cons):
        variants = None
        if label in ROUND4_CONSTRUCTIONS and not thorough:
            # (quick tier: the FS-method sweep of the round-4 constructions takes 5 of the 26 argument variants,
            # rotating with the seed; their whole extra surface is swept below in every tier)
            variants = sorted(set((report.seed + ci + k * 5) % 26 for k in range(5)))
        sweep_readonly(label, make, methods, rnd, results, variants=variants, cov=r4, value_budget=14 if thorough else 2)
        glob_walk_probe(label, make, results)
        read_idioms_probe(label, make, results)
        surface_sweep(label, make, set(methods), results, r4)
    bad = []
    for r in results:
        base = r["method"].split("(")[0]
        if r.get("surface") and (r["changed"] or r.get("answers_changed")):
            bad.append(("read-only filesystem hands out a way to change what it wraps", r))
        elif r.get("returned_value") and (r["changed"] or r.get("answers_changed")):
            bad.append(("changing a returned value in place changed what the read-only filesystem reports", r))
        elif r["changed"]:
            bad.append(("read-only filesystem modified", r))
        elif r.get("read_call"):
            pass
        elif r.get("handle") and r["verdict"] == "ok":
            mode_writing = False
            try:
                from fs.mode import Mode
                a = eval(r["args"]) if r["args"].startswith("[") else []
                mode_writing = len(a) > 1 and isinstance(a[1], str) and Mode(a[1]).writing
            except Exception:
                pass
            if not mode_writing:
                bad.append(("read handle accepted a write/truncate", r))
        elif not r.get("handle") and not r.get("sub") and mut.get(base) and r["verdict"] == "ok" and \
                "(" not in r["method"]:
            # a mutating method that returns normally without changing anything (e.g. create on an
            # existing file with wipe=False) is not a violation; must raise only when it would mutate
            pass
    # mutating methods must raise ResourceReadOnly (on the wrapper constructions)
    for r in results:
        base = r["method"]
        if "(" in base or r.get("handle"):
            continue
        if mut.get(base) and r["verdict"] not in ("ResourceReadOnly",) and r["construction"].startswith("read_only") \
                and would_mutate(base, r["args"], rnd):
            bad.append(("mutating method did not raise ResourceReadOnly", r))
    seen = set()
    pending_seen = set()
    for why, r in bad:
        sig = "%s: %s.%s" % (why, r["construction"].split("(")[0], r["method"])
        known = report.known_match(sig)
        if known:
            report.known_finding(known)
            continue
        if sig in PENDING_FINDINGS:
            if sig not in pending_seen:
                pending_seen.add(sig)
                print("PENDING-FINDING property=C04 signature=%r (waiting for an entry in known_findings.json)" % sig)
            continue
        if sig in seen or len(seen) >= 10:
            continue
        seen.add(sig)
        report.violation(dict(kind="read-only-breach", why=why, theorem="Props/C04.v", **r))
    if not gen_ok:
        report.violation(dict(kind="proof-broken", what="generated dispatch table does not compile", log=gen_out[-1500:],
                              theorem="Gen/Dispatch_gen.v"), no_input=True)
    ro_cov = ro_model_check(report, rnd, 1500 if report.tier == "thorough" else 300)
    nontrivial = set((r["construction"], r["method"], r["verdict"]) for r in results)
    cov = dict(evaluations=len(results), distinct_nontrivial=len(nontrivial),
               rule="every public name of FS by reflection (%d methods) x 14 synthesised argument variants x %d read-only "
                    "constructions, then write/writelines/truncate on returned file objects, mutators on returned "
                    "sub-filesystems, glob(...).remove(); the storage underneath is snapshotted (tree, bytes, mtimes) "
                    "around each call; mutating = changes a writable MemoryFS twin; non-trivial = distinct "
                    "(construction, method, verdict)" % (len(methods), len(cons)),
               samples=results[:3] + results[len(results) // 2: len(results) // 2 + 2],
               mutating_methods=sorted(k for k, v in mut.items() if v), disagreements_checked=len(bad),
               dispatch_table_rows=len(table),
               traces_validated_against_impl=len(results) - len(bad) + ro_cov["ro_model_histories"] - ro_cov["ro_model_mismatches"])
    cov.update(ro_cov)
    cov["reachable_surface_and_returned_values"] = r4
    return report.finish(proof, cov, assumptions=[
        "arguments are synthesised from parameter names; 'mutating' is decided on a writable MemoryFS twin"])


def would_mutate(name, args_repr, rnd):
    """Does this very call change a writable twin? (so that e.g. create(existing, wipe=False) is exempt)"""
    st = Store("mem")
    try:
        try:
            args = eval(args_repr, {"b": bytes, "io": io})
        except Exception:
            return False
        before = st.snapshot()
        verdict, value = call(st.fs, name, args)
        if hasattr(value, "close") and hasattr(value, "read"):
            value.close()
        return st.snapshot() != before
    finally:
        st.cleanup()


# ------------------------------------------------------------------ C18

def closed_constructions():
    from fs.wrapfs import WrapFS
    from fs.wrap import read_only, cache_directory
    from fs.mountfs import MountFS
    from fs.multifs import MultiFS
    from fs.memoryfs import MemoryFS

    def mem():
        st = Store("mem")
        return st.fs, st, None

    def osfs():
        st = Store("os")
        return st.fs, st, None

    def sub(kind):
        def make():
            st = Store(kind)
            return st.fs.opendir("d"), st, None
        return make

    def wrap():
        st = Store("mem")
        return WrapFS(st.fs), st, None

    def ro():
        st = Store("mem")
        return read_only(st.fs), st, None

    def cached():
        st = Store("mem")
        c = cache_directory(st.fs)
        list(c.scandir("/")), c.getinfo("f.txt"), c.isdir("d")
        return c, st, None

    def mount(auto):
        def make():
            st = Store("mem")
            m = MountFS(auto_close=auto)
            m.mount("m", st.fs)
            return m, st, ("mount", auto)
        return make

    def multi(auto):
        def make():
            st = Store("mem")
            m = MultiFS(auto_close=auto)
            m.add_fs("w", st.fs, write=True)
            return m, st, ("multi", auto)
        return make

    def failing_member(kind):
        def make():
            from fs.memoryfs import MemoryFS

            class BadClose(MemoryFS):
                _raised = False

                def close(self):
                    super(BadClose, self).close()
                    if not self._raised:          # only the first close() fails (keeps __del__ quiet)
                        self._raised = True
                        raise OSError("close failed")
            st = Store("mem")
            if kind == "multi":
                m = MultiFS(auto_close=True)
                m.add_fs("bad", BadClose())
                m.add_fs("w", st.fs, write=True)
            else:
                m = MountFS(auto_close=True)
                m.mount("bad", BadClose())
                m.mount("m", st.fs)
            return m, st, ("failing-close", kind)
        return make

    def subsub():
        st = Store("mem")
        return st.fs.opendir("d").opendir("sub"), st, None

    def wrap_sub():
        st = Store("mem")
        return WrapFS(st.fs.opendir("d")), st, None
    return [("MemoryFS", mem), ("OSFS", osfs), ("SubFS(MemoryFS)", sub("mem")), ("SubFS(OSFS)", sub("os")),
            ("WrapFS(MemoryFS)", wrap), ("WrapReadOnly(MemoryFS)", ro), ("WrapCachedDir(MemoryFS)", cached),
            ("MountFS(auto_close=True)", mount(True)), ("MountFS(auto_close=False)", mount(False)),
            ("MultiFS(auto_close=True)", multi(True)), ("MultiFS(auto_close=False)", multi(False)),
            ("SubFS(SubFS(MemoryFS))", subsub), ("WrapFS(SubFS(MemoryFS))", wrap_sub),
            ("MultiFS(auto_close, a member whose close() raises)", failing_member("multi")),
            ("MountFS(auto_close, a member whose close() raises)", failing_member("mount"))]


class _RootShim(object):
    """snap_memoryfs() on the entry tree of a MemoryFS that has been closed (close() drops fs.root; a stale
    reference - a SubFS, a wrapper, an open handle - could still reach the entries)."""
    def __init__(self, root):
        self.root = root


class Watch(object):
    """Snapshot of everything a construction stores, taken without going through the object under test:
    MemoryFS entry tree (kept across close()), directory trees on disk (names, bytes, mtime_ns), file objects."""
    def __init__(self, st):
        self.st = st
        self.root = st.fs.root if getattr(st, "kind", None) == "mem" and not st.fs.isclosed() else None

    def snap(self):
        if self.root is not None:
            return fsops.snap_memoryfs(_RootShim(self.root))
        return self.st.snapshot()


def walk_disk(top):
    if not os.path.isdir(top):
        return None if not os.path.exists(top) else "not-a-directory"
    out = []
    for root, dirs, files in os.walk(top):
        dirs.sort()
        for f in sorted(files):
            p = os.path.join(root, f)
            try:
                with open(p, "rb") as fh:
                    out.append((os.path.relpath(p, top), fh.read(), os.stat(p).st_mtime_ns))
            except (IOError, OSError) as e:
                out.append((os.path.relpath(p, top), "unreadable:" + type(e).__name__, None))
        for dd in dirs:
            out.append((os.path.relpath(os.path.join(root, dd), top), None, None))
    return sorted(out, key=lambda x: x[0])


class BudgetFile(io.BytesIO):
    """A file object whose write() raises once more than `budget` bytes have been written (None: never)."""
    budget = None

    def write(self, b):
        if self.budget is not None and self.tell() + len(b) > self.budget:
            raise OSError(28, "No space left on device")
        return super(BudgetFile, self).write(b)


class DiskStore(object):
    """Storage that lives in a private work directory (+ optionally a scratch directory elsewhere, a file object)."""
    kind = "disk"

    def __init__(self):
        self.work = tempfile.mkdtemp(prefix="pyfs2verif_")
        self.sibling = os.path.join(self.work, "other.bin")
        with open(self.sibling, "wb") as fh:
            fh.write(b"SIBLING")
        self.scratch = None
        self.scratch_root = None
        self.fileobj = None
        self.fs = None

    def snapshot(self):
        rows = [("WORK", walk_disk(self.work))]
        if self.scratch is not None and not self.scratch.startswith(self.work):
            rows.append(("SCRATCH", walk_disk(self.scratch)))
        if self.scratch_root is not None:
            rows.append(("SCRATCH-MEM", fsops.snap_memoryfs(_RootShim(self.scratch_root))))
        if self.fileobj is not None:
            f = self.fileobj
            if isinstance(f, io.BytesIO):
                rows.append(("FILEOBJ", f.closed, None if f.closed else f.getvalue()))
            else:
                rows.append(("FILEOBJ", f.closed, None if f.closed else f.tell()))
        return repr(rows)

    def remember(self):
        pass

    def cleanup(self):
        from fs.base import FS
        objs = []
        o = getattr(self, "obj", None)
        if o is not None:
            objs.append(o)
            try:
                objs.append(o.delegate_fs())
            except Exception:  # noqa
                pass
        if self.fs is not None:
            objs.append(self.fs)
        for o in reversed(objs):
            try:
                o.close()
            except Exception:  # noqa
                pass
            try:
                FS.close(o)                  # whatever happened: garbage collection must not retry anything
            except Exception:  # noqa
                pass
        if self.fileobj is not None:
            try:
                self.fileobj.budget = None
            except Exception:  # noqa
                pass
            try:
                self.fileobj.close()
            except Exception:  # noqa
                pass
        try:
            os.chmod(os.path.join(self.work, "t"), 0o755)
        except Exception:  # noqa
            pass
        shutil.rmtree(self.work, ignore_errors=True)
        if self.scratch is not None:
            shutil.rmtree(self.scratch, ignore_errors=True)


TARGET_KINDS = ("path", "bytesio", "osfile")
TEMP_KINDS = ("default", "tempfs", "mem", "osdir")


class ArchStore(DiskStore):
    """A write-mode ZipFS / TarFS: target given as path / BytesIO / real file object x scratch temp_fs variants."""
    def __init__(self, zipped, target_kind, temp_kind, extra=None):
        DiskStore.__init__(self)
        from fs.zipfs import ZipFS
        from fs.tarfs import TarFS
        from fs.tempfs import TempFS
        from fs.osfs import OSFS
        self.zipped = zipped
        self.target_kind = target_kind
        self.temp_kind = temp_kind
        self.tdir = os.path.join(self.work, "t")
        os.mkdir(self.tdir)
        self.target = os.path.join(self.tdir, "a.zip" if zipped else "a.tar")
        if target_kind == "path":
            file = self.target
        elif target_kind == "bytesio":
            file = self.fileobj = BudgetFile()
        else:
            file = self.fileobj = open(self.target, "wb")
        kw = {}
        if temp_kind == "tempfs":
            kw["temp_fs"] = TempFS()
        elif temp_kind == "mem":
            kw["temp_fs"] = "mem://"
        elif temp_kind == "osdir":
            os.mkdir(os.path.join(self.work, "scratch"))
            kw["temp_fs"] = OSFS(os.path.join(self.work, "scratch"))
        kw.update(extra or {})
        try:
            self.obj = (ZipFS if zipped else TarFS)(file, write=True, **kw)
        except Exception:
            self.cleanup()
            raise
        self.fs = self.obj.delegate_fs()
        if self.fs.hassyspath("/"):
            self.scratch = self.fs.getsyspath("/")
        elif hasattr(self.fs, "root"):
            self.scratch_root = self.fs.root
        self.scratch_removed = temp_kind in ("default", "tempfs")      # a TempFS removes its directory on close
        populate(self.obj)

    # the ways the archive write can fail when close() runs
    def failure_modes(self):
        if self.target_kind == "path":
            m = ["dir-removed", "target-is-dir"]
            if hasattr(os, "geteuid") and os.geteuid() != 0:
                m.append("unwritable")
            return m
        if self.target_kind == "bytesio":
            return ["file-closed", "write-raises"]
        return ["file-closed"]

    def inject(self, mode, rnd):
        if mode == "dir-removed":
            shutil.rmtree(self.tdir)
        elif mode == "target-is-dir":
            os.mkdir(self.target)
        elif mode == "unwritable":
            os.chmod(self.tdir, 0o555)
        elif mode == "file-closed":
            self.fileobj.close()
        elif mode == "write-raises":
            self.fileobj.budget = rnd.choice([0, 10, 40, 100])

    def restore(self, mode):
        """Make the target writable again (as far as possible): a later retry would now succeed in writing."""
        if mode == "dir-removed":
            os.mkdir(self.tdir)
        elif mode == "target-is-dir":
            os.rmdir(self.target)
        elif mode == "unwritable":
            os.chmod(self.tdir, 0o755)
        elif mode == "write-raises":
            self.fileobj.budget = None

    def archive_ok(self):
        """Reference reader (stdlib zipfile / tarfile, not fs): one complete archive with the populated content."""
        import zipfile
        import tarfile
        try:
            if self.target_kind == "bytesio":
                src = io.BytesIO(self.fileobj.getvalue())
            else:
                if self.fileobj is not None and not self.fileobj.closed:
                    self.fileobj.flush()
                src = open(self.target, "rb")
            try:
                files, dirs = {}, set()
                if self.zipped:
                    with zipfile.ZipFile(src) as z:
                        if z.testzip() is not None:
                            return False
                        for i in z.infolist():
                            n = i.filename
                            if n.endswith("/"):
                                dirs.add(n.strip("/"))
                            else:
                                if n.strip("/") in files:
                                    return False
                                files[n.strip("/")] = z.read(i)
                else:
                    with tarfile.open(fileobj=src, mode="r") as t:
                        for m in t.getmembers():
                            if m.isdir():
                                dirs.add(m.name.strip("/"))
                            elif m.isfile():
                                if m.name.strip("/") in files:
                                    return False
                                files[m.name.strip("/")] = t.extractfile(m).read()
                return files == {"f.txt": b"hello", "d/g.txt": b"world\nline2\n"} and {"d", "d/sub"} <= dirs
            finally:
                src.close()
        except Exception:  # noqa
            return False


class TempStore(DiskStore):
    def __init__(self, auto_clean=True, **kw):
        DiskStore.__init__(self)
        from fs.tempfs import TempFS
        kw.setdefault("temp_dir", self.work)
        try:
            self.obj = TempFS(auto_clean=auto_clean, **kw)
        except Exception:
            self.cleanup()
            raise
        self.fs = self.obj
        self.dir = self.obj.getsyspath("/")
        if not os.path.realpath(self.dir).startswith(os.path.realpath(self.work)):
            self.scratch = self.dir          # temp_dir=None: the directory lives in the system's temp location
        populate(self.obj)


class ReadArchStore(DiskStore):
    def __init__(self, zipped, target_kind):
        DiskStore.__init__(self)
        from fs.memoryfs import MemoryFS
        from fs.compress import write_zip, write_tar
        from fs.zipfs import ZipFS
        from fs.tarfs import TarFS
        src = MemoryFS()
        populate(src)
        path = os.path.join(self.work, "r.zip" if zipped else "r.tar")
        (write_zip if zipped else write_tar)(src, path)
        src.close()
        if target_kind == "path":
            file = path
        else:
            with open(path, "rb") as fh:
                file = self.fileobj = io.BytesIO(fh.read())
        self.obj = (ZipFS if zipped else TarFS)(file)
        self.fs = self.obj


def disk_constructions(tier):
    """Constructions whose stored data lives on disk / in a file object: write-mode archives (every target kind x
    scratch temp_fs kind), read-mode archives, TempFS."""
    out = []
    for zipped in (True, False):
        for tk in TARGET_KINDS:
            for mk in TEMP_KINDS:
                label = "%s(target=%s, temp_fs=%s)" % ("WriteZipFS" if zipped else "WriteTarFS", tk, mk)
                out.append((label, (lambda zipped=zipped, tk=tk, mk=mk: ArchStore(zipped, tk, mk)), "write-archive"))
    for zipped in (True, False):
        for tk in ("path", "bytesio"):
            label = "%s(source=%s)" % ("ReadZipFS" if zipped else "ReadTarFS", tk)
            out.append((label, (lambda zipped=zipped, tk=tk: ReadArchStore(zipped, tk)), "read-archive"))
    for ac in (True, False):
        out.append(("TempFS(auto_clean=%s)" % ac, (lambda ac=ac: TempStore(ac)), "tempfs"))
    return out


def public_callables(obj):
    """ALL public callables of the concrete object (methods of type(obj), properties / attributes whose value is
    callable), not only the names the FS base class defines."""
    out = []
    for n in sorted(set(dir(obj)) | set(dir(type(obj)))):
        if n.startswith("_"):
            continue
        try:
            v = getattr(obj, n)
        except Exception:  # noqa
            continue
        if callable(v):
            out.append(n)
    return out


PATH_PARAMS = ("path", "src_path", "dst_path", "dir_path")


def c18_args(obj, name, variant, rnd, st, prefix=None):
    """Arguments for ANY public callable of the concrete object: names of the FS interface as in the C04/C18 sweep
    (signature of FS), class-specific ones (write_zip, add_fs, mount, which, clean, ...) from their own signature."""
    from fs.base import FS
    from fs.memoryfs import MemoryFS
    base = inspect.getattr_static(FS, name, None)
    if base is not None and not isinstance(base, property) and callable(getattr(FS, name, None)):
        fn = getattr(FS, name)
        specific = False
    else:
        fn = getattr(obj, name)
        specific = True
    args = synth_args(name, fn, variant, rnd)
    if args is None:
        return None, specific
    try:
        params = [p for p in inspect.signature(fn).parameters.values()
                  if p.kind not in (p.VAR_POSITIONAL, p.VAR_KEYWORD) and p.name != "self"]
    except (TypeError, ValueError):
        return args, specific
    k = (0, 1, 2, 2)[variant % 4]
    for i, p in enumerate(params):
        if i >= len(args):
            break
        if specific:
            if p.name == "file":
                # default (= the target the filesystem was created with) / a fresh buffer / another file of the storage
                sib = getattr(st, "sibling", None)
                args[i] = (p.default if p.default is not inspect.Parameter.empty else None, io.BytesIO(),
                           sib if sib is not None else io.BytesIO())[k]
            elif p.name == "fs":
                m = MemoryFS()
                populate(m)
                args[i] = m
            elif p.name == "name":
                args[i] = ("w", "m", "fresh")[k]
            elif p.name == "pattern":
                args[i] = "**/*.txt"
            elif p.name == "write":
                args[i] = True
            elif p.name == "mode" and args[i] is None:
                args[i] = "r"
        if prefix and p.name in PATH_PARAMS and isinstance(args[i], str):
            args[i] = prefix + args[i].lstrip("/")
    return args, specific


def c18_call(obj, name, args):
    verdict, value = call(obj, name, args)
    if verdict == "ok" and type(value).__name__ in ("Globber", "BoundGlobber"):
        # lazy query objects: the data access happens on iteration
        import fs.errors as E
        try:
            list(value)
        except E.FSError as e:
            verdict = type(e).__name__
        except Exception as e:  # noqa
            verdict = "crash:" + type(e).__name__
    if hasattr(value, "close") and hasattr(value, "read"):
        try:
            value.close()
        except Exception:
            pass
    return verdict


class _Unraisable(object):
    """Collect (instead of printing) exceptions raised by finalisers run by the garbage collector."""
    def __enter__(self):
        import sys
        self.seen = []
        self.old = getattr(sys, "unraisablehook", None)
        if self.old is not None:
            sys.unraisablehook = lambda u: self.seen.append(type(u.exc_value).__name__)
        return self

    def __exit__(self, *a):
        import sys
        if self.old is not None:
            sys.unraisablehook = self.old


def sequential_sweep(obj, st, names, data_names, variants, rnd, label, how, results, bad, failed=False):
    """On ONE closed object: every public callable x variants in turn; the storage snapshot must never move."""
    after_what = "a failed close()" if failed else "close()"
    n = 0
    before = st.snapshot()
    for name in names:
        if name == "close":
            continue
        for variant in variants:
            try:
                args, specific = c18_args(obj, name, variant, rnd, st)
            except Exception:  # noqa
                continue
            if args is None:
                continue
            verdict = c18_call(obj, name, args)
            after = st.snapshot()
            r = dict(construction=label, how=how, method=name, args=repr(args)[:100], verdict=verdict,
                     changed=before != after)
            results.append(r)
            n += 1
            if r["changed"]:
                bad.append(("call after %s changed stored data" % after_what, r))
            elif name in data_names and verdict != "FilesystemClosed":
                bad.append(("call after %s did not raise FilesystemClosed" % after_what, r))
            before = after
    return n


def failed_close_probe(label, make, rnd, data_names, variants, results, bad, stats):
    """close() raising midway: the archive cannot be written.  close() reports it, is still final (scratch filesystem
    closed, its directory gone, every public call refused, nothing changes), a further close() is harmless and nothing
    is written later - not when the target becomes writable again, not by a finaliser."""
    probe = make()
    modes = probe.failure_modes()
    probe.cleanup()
    for mode in modes:
        for how in ("close", "with"):
            st = make()
            obj = st.obj
            lab = label
            hw = "%s fails (%s)" % (how, mode)

            def note(why, method="close", verdict="", changed=False):
                bad.append((why, dict(construction=lab, how=hw, method=method, verdict=str(verdict), changed=changed)))
            try:
                st.inject(mode, rnd)
                try:
                    if how == "close":
                        obj.close()
                    else:
                        with obj:
                            pass
                    r1 = None
                except Exception as e:  # noqa
                    r1 = type(e).__name__
                stats["scenarios"] += 1
                if r1 is None:
                    note("close() did not report the archive write failure", verdict="returned normally")
                if not st.fs.isclosed():
                    note("scratch filesystem still open after a failed close()", verdict="delegate_fs().isclosed() False")
                if st.scratch_removed and st.scratch is not None and os.path.exists(st.scratch):
                    note("scratch directory survives a failed close()", verdict=st.scratch)
                if not obj.isclosed():
                    note("isclosed() is False after a failed close()", method="isclosed", verdict="False")
                s1 = st.snapshot()
                for k in (2, 3):
                    try:
                        obj.close()
                    except Exception as e:  # noqa
                        note("close() after a failed close() raised", verdict=type(e).__name__)
                        break
                if st.snapshot() != s1:
                    note("close() after a failed close() changed stored data", changed=True)
                stats["calls"] += sequential_sweep(obj, st, public_callables(obj), data_names, variants, rnd, lab, hw,
                                                   results, bad, failed=True)
                # the obstacle goes away: anything that still wants to write the archive now can
                try:
                    st.restore(mode)
                except Exception:  # noqa
                    pass
                s2 = st.snapshot()
                try:
                    obj.close()
                except Exception:  # noqa
                    pass
                if st.snapshot() != s2:
                    note("close() after a failed close() wrote to the target again", changed=True)
                s2 = st.snapshot()
                with _Unraisable() as un:
                    try:
                        obj.__del__()              # what the interpreter runs for the object at exit
                    except Exception as e:  # noqa
                        un.seen.append(type(e).__name__)
                    st.obj = None
                    del obj
                    gc.collect()
                if st.snapshot() != s2:
                    note("finaliser after a failed close() wrote to the target again", method="__del__", changed=True)
            finally:
                with _Unraisable():
                    obj = None
                    st.cleanup()
                    gc.collect()


# ---- constructor keywords (by reflection) x "finalises exactly once"

FINAL_FIRST = ("close", "with")
FINAL_REPEATS = (("close",), ("close", "close"), ("__del__",), ("gc",), ("close", "__del__", "gc"))
CANARY = "not-yours.txt"


def keyword_domain(family, p, unvaried):
    """Values for one constructor keyword, chosen from its name and its default (the keywords themselves come from
    inspect.signature of the constructor); symbolic values are resolved by the store classes."""
    import zipfile
    if isinstance(p.default, bool):
        return [p.default, not p.default]
    if p.name == "identifier":
        return [p.default, "verif", "", "a/b"]
    if p.name == "temp_dir":
        return [None, "<work>"]
    if p.name == "file":
        return list(TARGET_KINDS)
    if p.name == "temp_fs":
        return list(TEMP_KINDS)
    if p.name == "encoding":
        return [p.default, "latin-1"]
    if p.name == "compression":
        if family == "zip":
            return [p.default, zipfile.ZIP_STORED]
        out = [p.default, "gz"]
        for mod, name in (("bz2", "bz2"), ("lzma", "xz")):
            try:
                __import__(mod)
                out.append(name)
            except ImportError:
                pass
        return out
    unvaried.append("%s.%s" % (family, p.name))
    return [p.default]


def keyword_constructions(thorough, rnd):
    """[(label, make, family)] for every combination of constructor keyword values of the filesystems whose
    close() releases something outside the object: TempFS (its directory), write-mode ZipFS / TarFS (the archive is
    written, the scratch filesystem closed and its directory removed)."""
    import itertools
    from fs.tempfs import TempFS
    from fs.zipfs import WriteZipFS
    from fs.tarfs import WriteTarFS
    out, unvaried, keywords = [], [], {}
    for family, cls in (("temp", TempFS), ("zip", WriteZipFS), ("tar", WriteTarFS)):
        params = [p for p in inspect.signature(cls.__init__).parameters.values()
                  if p.name != "self" and p.kind not in (p.VAR_POSITIONAL, p.VAR_KEYWORD)]
        keywords[cls.__name__] = [p.name for p in params]
        domains = [keyword_domain(family, p, unvaried) for p in params]
        for combo in itertools.product(*domains):
            kw = dict(zip([p.name for p in params], combo))
            label = "%s(%s)" % (cls.__name__, ", ".join("%s=%r" % (p.name, kw[p.name]) for p in params))
            if family == "temp":
                def make(kw=kw):
                    k = dict(kw)
                    if k.get("temp_dir") == "<work>":
                        del k["temp_dir"]           # TempStore's default: its private work directory
                    return TempStore(**k)
            else:
                def make(kw=kw, family=family):
                    k = dict(kw)
                    return ArchStore(family == "zip", k.pop("file"), k.pop("temp_fs"), extra=k)
            out.append((label, make, "tempfs" if family == "temp" else "write-archive"))
    return out, keywords, unvaried


def exactly_once_probe(label, make, family, scenarios, bad, stats):
    """first finalisation (close / with-block), then repeats (close, __del__, garbage collection): no repeat may
    raise, and what the first one released is released exactly once - every directory it removed is re-created
    (with a canary file in it) before the repeats and must survive them, as must every other byte of the storage."""
    for first, repeats, recreate in scenarios:
        with _Unraisable() as un0:
            try:
                st = make()
            except Exception as e:  # noqa
                st = None
                failure = type(e).__name__
                e = None
                gc.collect()          # the half-built object goes away here, not at some later point of the run
        if st is None:
            stats["constructor_failures"].add("%s: %s%s" % (label, failure, "" if not un0.seen else
                                                            " (then its finaliser raised %s)" % un0.seen[0]))
            return
        obj = st.obj
        how = "%s, then %s%s" % (first, "+".join(repeats), " (path re-created in between)" if recreate else "")

        def note(why, method, verdict="", changed=False):
            bad.append((why, dict(construction=label, how=how, method=method, verdict=str(verdict), changed=changed)))
        try:
            stats["scenarios"] += 1
            if family == "tempfs":
                auto = bool(obj._auto_clean)
                dirs = [st.dir]
            else:
                auto = st.scratch_removed
                dirs = [st.scratch] if st.scratch is not None else []
            try:
                if first == "close":
                    obj.close()
                else:
                    with obj:
                        pass
            except Exception as e:  # noqa
                note("the first close() raised", "close", type(e).__name__)
                continue

            def plant():
                planted = []
                for d in dirs:
                    if not os.path.isdir(d):
                        if not recreate:
                            continue        # the released path stays absent: a repeat finds nothing to release
                        os.mkdir(d)
                    c = os.path.join(d, CANARY)
                    with open(c, "w") as fh:
                        fh.write("created after the filesystem was closed")
                    planted.append(c)
                return planted
            for d in dirs:
                if os.path.exists(d) != (not auto):
                    note("close() removes the directory iff the constructor keywords say so: violated", "close",
                         "exists=%s" % os.path.exists(d))
            if family == "write-archive" and not st.archive_ok():
                note("close() did not write one complete readable archive", "close")
            canaries = plant()
            steps = list(repeats)
            if family == "tempfs" and not auto and "gc" not in repeats:
                # clean() is the documented release of a TempFS(auto_clean=False): it happens once, too
                steps += ["release", "clean", "close", "__del__"]
            snap = st.snapshot()
            for step in steps:
                stats["repeats"] += 1
                with _Unraisable() as un:
                    try:
                        if step == "close":
                            obj.close()
                        elif step == "__del__":
                            obj.__del__()
                        elif step in ("clean", "release"):
                            obj.clean()
                        else:
                            st.obj = None
                            st.fs = None
                            obj = None
                            gc.collect()
                    except Exception as e:  # noqa
                        note("a repeated close() / finaliser raised", step, type(e).__name__)
                        break
                if un.seen:
                    note("a repeated close() / finaliser raised", step, un.seen)
                    break
                if step == "release":
                    if any(os.path.exists(d) for d in dirs):
                        note("clean() did not remove the directory", "clean")
                        break
                    canaries = plant()
                    snap = st.snapshot()
                elif st.snapshot() != snap or not all(os.path.exists(c) for c in canaries):
                    note("a repeated close() / finaliser released the resource again", step,
                         "canary survives: %s" % [os.path.exists(c) for c in canaries], changed=True)
                    break
        finally:
            with _Unraisable():
                obj = None
                st.cleanup()
                gc.collect()


def run_c18(report):
    rnd = random.Random(report.seed + 18)
    thorough = report.tier == "thorough"
    methods = public_methods()
    mut = mutating_methods(methods, rnd)
    table = dispatch_table()
    gen_ok, gen_out = write_gen(table, mut)
    proof = common.preflight(report)
    from fs.base import FS
    results = []
    bad = []
    data_names = set(n for n in methods if n not in NON_DATA and n != "close")
    swept = set()                # (concrete class, callable)
    specific_names = set()
    for label, make in closed_constructions():
        probe, pst, _c = make()
        try:
            names = [n for n in public_callables(probe) if n != "close"]
            cname = type(probe).__name__
        finally:
            try:
                probe.close()
            except Exception:  # noqa
                pass
            probe = None
            pst.cleanup()
        for how in ("close", "close-twice", "with"):
            for name in names:
                swept.add((cname, name))
                if name not in data_names and how != "close" and not thorough:
                    continue            # quick tier: the non-data / class-specific names after a plain close() only
                for variant in (0, 1, 3):
                    obj, st, comp = make()
                    try:
                        st.remember()
                        watch = Watch(st)
                        before = watch.snap()
                        failing = comp is not None and comp[0] == "failing-close"
                        if failing:
                            try:
                                obj.close()
                            except OSError:
                                pass
                        elif how == "close":
                            obj.close()
                        elif how == "close-twice":
                            obj.close()
                            try:
                                obj.close()
                            except Exception as e:
                                bad.append(("second close() raised", dict(construction=label, how=how, method="close",
                                                                          verdict=type(e).__name__, changed=False)))
                        else:
                            with obj:
                                pass
                        members_closed = st.fs.isclosed()
                        if comp is not None and comp[0] in ("mount", "multi") and members_closed != comp[1]:
                            bad.append(("members closed iff auto_close violated",
                                        dict(construction=label, how=how, method="close", verdict=str(members_closed),
                                             changed=False)))
                        # address the mounted member (paths outside 'm/' only reach the default filesystem)
                        prefix = "m/" if comp is not None and (comp[0] == "mount" or comp == ("failing-close", "mount")) \
                            else None
                        try:
                            args, specific = c18_args(obj, name, variant, rnd, st, prefix)
                        except Exception:  # noqa
                            continue
                        if args is None:
                            continue
                        if specific:
                            specific_names.add("%s.%s" % (cname, name))
                        verdict = c18_call(obj, name, args)
                        after = watch.snap()
                        r = dict(construction=label, how=how, method=name, args=repr(args)[:100], verdict=verdict,
                                 changed=before != after)
                        results.append(r)
                        if r["changed"]:
                            bad.append(("call after close() changed stored data", r))
                        elif name in data_names and verdict != "FilesystemClosed":
                            bad.append(("call after close() did not raise FilesystemClosed", r))
                    finally:
                        st.cleanup()
    # constructions that keep their data on disk / in a file object
    disk = disk_constructions(report.tier)
    fstats = dict(scenarios=0, calls=0)
    disk_calls = 0
    variants = (0, 1, 3)
    for label, make, family in disk:
        for how in ("close", "close-twice", "with"):
            st = make()
            obj = st.obj
            try:
                cname = type(obj).__name__
                names = public_callables(obj)
                for n in names:
                    swept.add((cname, n))
                    if n not in methods:
                        specific_names.add("%s.%s" % (cname, n))
                if how == "with":
                    with obj:
                        pass
                else:
                    obj.close()
                    if how == "close-twice":
                        s = st.snapshot()
                        try:
                            obj.close()
                        except Exception as e:
                            bad.append(("second close() raised", dict(construction=label, how=how, method="close",
                                                                      verdict=type(e).__name__, changed=False)))
                        if st.snapshot() != s:
                            bad.append(("second close() changed stored data",
                                        dict(construction=label, how=how, method="close", verdict="", changed=True)))
                if family == "write-archive":
                    if not st.archive_ok():
                        bad.append(("close() did not write one complete readable archive",
                                    dict(construction=label, how=how, method="close", verdict="", changed=False)))
                    if not st.fs.isclosed() or (st.scratch_removed and st.scratch and os.path.exists(st.scratch)):
                        bad.append(("scratch filesystem survives close()",
                                    dict(construction=label, how=how, method="close", verdict=str(st.scratch), changed=False)))
                if family == "tempfs" and os.path.exists(st.dir) != (not st.obj._auto_clean):
                    bad.append(("TempFS directory removed iff auto_clean violated",
                                dict(construction=label, how=how, method="close", verdict=str(os.path.exists(st.dir)),
                                     changed=False)))
                disk_calls += sequential_sweep(obj, st, names, data_names, variants, rnd, label, how, results, bad)
                if family == "write-archive" and not st.archive_ok():
                    bad.append(("archive no longer complete after the post-close calls",
                                dict(construction=label, how=how, method="*", verdict="", changed=True)))
                # garbage collection of the closed object writes nothing
                s = st.snapshot()
                with _Unraisable() as un:
                    st.obj = None
                    st.fs = None
                    del obj
                    gc.collect()
                if st.snapshot() != s or un.seen:
                    bad.append(("garbage collection of a closed filesystem changed stored data / raised",
                                dict(construction=label, how=how, method="__del__", verdict=str(un.seen), changed=True)))
            finally:
                obj = None
                st.cleanup()
        if family == "write-archive":
            failed_close_probe(label, make, rnd, data_names, variants if thorough else (0, 3), results, bad, fstats)
    # every constructor keyword combination x every way of finalising more than once
    kstats = dict(scenarios=0, repeats=0, constructor_failures=set())
    kcons, kwords, unvaried = keyword_constructions(thorough, rnd)
    every = [(f, r, rc) for f in FINAL_FIRST for r in FINAL_REPEATS for rc in (True, False)]
    shift = rnd.randrange(len(every))
    for ci, (label, make, family) in enumerate(kcons):
        if thorough:
            scen = every
        else:
            # quick tier: every keyword combination with some of the twenty scenarios (6 for TempFS, 1 for an
            # archive), rotating so that every scenario is used with many combinations (7 and 3 are coprime to 20)
            k = 6 if family == "tempfs" else 1
            scen = [every[(shift + ci * 7 + j * 3) % len(every)] for j in range(k)]
        exactly_once_probe(label, make, family, scen, bad, kstats)
    # histories BEFORE close (class-specific callables between data changes) and gc-only finalisation of every class
    extra_cov = preclose_probe(random.Random(report.seed * 7919 + 1818), thorough, methods, bad)
    extra_cov.update(gc_only_probe(thorough, bad))
    fin = finalisers_probe()
    for f in fin:
        if not f["ok"]:
            bad.append((f["what"], dict(construction=f["what"], how="close", method="close", verdict=str(f.get("detail")),
                                        changed=False)))
    seen = set()
    pending_seen = set()
    if os.environ.get("C18_DEBUG"):
        import sys
        dbg = {}
        for why, r in bad:
            dbg.setdefault("%s: %s.%s" % (why, r["construction"].split("(")[0], r["method"]), []).append(r)
        for k in sorted(dbg):
            sys.stderr.write("SIG %s  x%d  e.g. %r\n" % (k, len(dbg[k]), dbg[k][0]))
    for why, r in bad:
        sig = "%s: %s.%s" % (why, r["construction"].split("(")[0], r["method"])
        known = report.known_match(sig)
        if known:
            report.known_finding(known)
            continue
        if sig in PENDING_FINDINGS:
            pending_seen.add(sig)
            continue
        if sig in seen or len(seen) >= 12:
            continue
        seen.add(sig)
        report.violation(dict(kind="close-not-final", why=why, theorem="Props/C18.v", **r))
    if not gen_ok:
        report.violation(dict(kind="proof-broken", what="generated dispatch table does not compile", log=gen_out[-1500:],
                              theorem="Gen/Dispatch_gen.v"), no_input=True)
    nontrivial = set((r["construction"], r["method"], r["verdict"]) for r in results)
    cov = dict(evaluations=len(results), distinct_nontrivial=len(nontrivial),
               rule="every public callable of the CONCRETE object by reflection (FS interface + class-specific: write_zip, "
                    "write_tar, add_fs, mount, get_fs, iterate_fs, which, clean, ...) x 3 argument variants after close() "
                    "(explicit, double, with-block) on 15 memory/OSFS constructions (fresh object per call) and on "
                    "write-mode ZipFS/TarFS (target path / BytesIO / real file x 4 scratch temp_fs kinds), read-mode "
                    "archives, TempFS (one closed object, calls in sequence); storage snapshot (entry tree kept across "
                    "close, directory trees with bytes and mtime_ns, file objects, scratch directory) around each call: "
                    "data/metadata methods must raise FilesystemClosed, NO call may change anything; close() failing "
                    "midway (target directory removed / is a directory / unwritable, file object closed / write raises) "
                    "via close() and via with-exit: reported, final, scratch gone, repeat harmless, nothing written "
                    "later (retry after the obstacle is removed, __del__, gc); finaliser probes; every combination of "
                    "constructor keyword values (keywords by reflection) of TempFS and write-mode ZipFS/TarFS x first "
                    "finalisation (close / with) x repeats (close, close+close, __del__, gc, close+__del__+gc) x the "
                    "released directory re-created with a canary file / left absent: no repeat raises, nothing is "
                    "released twice (clean() of a TempFS(auto_clean=False) included); "
                    "non-trivial = distinct (construction, method, verdict)",
               samples=results[:3], finaliser_probes=fin, disagreements_checked=len(bad),
               concrete_callables_swept=len(swept), class_specific_callables=sorted(specific_names),
               disk_constructions=len(disk), disk_post_close_calls=disk_calls,
               failed_close_scenarios=fstats["scenarios"], failed_close_post_calls=fstats["calls"],
               constructor_keywords_by_reflection=kwords, constructor_keyword_combinations=len(kcons),
               constructor_keywords_not_varied=sorted(unvaried),
               constructor_failures=sorted(kstats["constructor_failures"]),
               finalise_exactly_once_scenarios=kstats["scenarios"], finalise_exactly_once_repeats=kstats["repeats"],
               finalisation_orders=sorted(set("%s, then %s" % (f, "+".join(r)) for f, r, _rc in every)),
               released_path_between_first_and_repeated_finalisation=["re-created with a canary file", "left absent"],
               pending_findings_seen=sorted(pending_seen),
               traces_validated_against_impl=len(results) - len(bad))
    cov.update(extra_cov)
    return report.finish(proof, cov, assumptions=[
        "getmeta, lock, getsyspath, getospath, geturl, hassyspath, hasurl, isclosed, check, validatepath, match, "
        "match_glob, desc and the class-specific callables (write_zip, mount, add_fs, which, clean, ...) may answer "
        "from the object after close(): they are called and must change nothing, but need not raise; tree() may "
        "print the error",
        "constructor keyword values are chosen from the keyword's name and default (booleans both ways, identifier "
        "default / custom / empty / containing '/', temp_dir None / a private directory, every target and temp_fs "
        "kind, two encodings, the compressions the interpreter supports); a combination whose constructor raises is "
        "recorded under constructor_failures and not judged by C18"])


# ------------------------------------------------------------------ C18: histories BEFORE close, gc-only finalisation
# (a) Every class-specific public callable (by reflection: the public callables of the concrete object the FS base
#     class does not define - write_zip, write_tar, clean, mount, add_fs, get_fs, iterate_fs, which, delegate_fs, ...)
#     is called BEFORE close, with each of its argument variants, between data changes; then the filesystem is
#     finalised (close / with-block / dropped and garbage-collected).  A reference MemoryFS receives the same data
#     changes; the archive found on the target afterwards (read with zipfile / tarfile) must be one complete archive
#     of the FINAL reference tree, an archive written by an explicit write_zip / write_tar must be one of the tree at
#     that moment, a TempFS directory must be gone after clean() and stay gone, the members of a composite (also the
#     ones mounted / added in the middle of the history) are closed iff auto_close.
# (b) For EVERY filesystem class the library defines (subclasses of fs.base.FS found by importing every fs.* module)
#     an instance is built, used, and its last reference dropped without close(): close() must have run exactly once
#     (FS.__del__: "Auto close the filesystem on exit") and the documented finalisation of the class must be visible
#     from outside the object.

def archive_tree(zipped, data):
    """(files {name: bytes}, dirs set) of ONE archive read with the standard library, or a string saying why not."""
    import zipfile
    import tarfile
    files, dirs = {}, set()
    try:
        src = io.BytesIO(data)
        if zipped:
            with zipfile.ZipFile(src) as z:
                if z.testzip() is not None:
                    return "corrupt member"
                for i in z.infolist():
                    n = i.filename
                    if n.endswith("/"):
                        dirs.add(n.strip("/"))
                    elif n.strip("/") in files:
                        return "duplicate member %s" % n
                    else:
                        files[n.strip("/")] = z.read(i)
        else:
            with tarfile.open(fileobj=src, mode="r") as t:
                for m in t.getmembers():
                    if m.isdir():
                        dirs.add(m.name.strip("/"))
                    elif m.name.strip("/") in files:
                        return "duplicate member %s" % m.name
                    elif m.isfile():
                        files[m.name.strip("/")] = t.extractfile(m).read()
    except Exception as e:  # noqa
        return "unreadable (%s)" % type(e).__name__
    return files, dirs


def tree_of(fsx, top="/"):
    files, dirs = {}, set()
    for p, info in fsx.walk.info(top):
        rel = p[len(top):].strip("/") if top != "/" else p.strip("/")
        if info.is_dir:
            dirs.add(rel)
        else:
            files[rel] = fsx.readbytes(p)
    return files, dirs


def tree_diff(got, want):
    if isinstance(got, str):
        return got
    gf, gd = got
    wf, wd = want
    out = []
    for n in sorted(set(wf) - set(gf))[:3]:
        out.append("missing file %s" % n)
    for n in sorted(set(gf) - set(wf))[:3]:
        out.append("stale file %s" % n)
    for n in sorted(n for n in set(gf) & set(wf) if gf[n] != wf[n])[:3]:
        out.append("stale bytes in %s" % n)
    for n in sorted(wd - gd)[:3]:
        out.append("missing directory %s" % n)
    for n in sorted(gd - wd)[:3]:
        out.append("stale directory %s" % n)
    return "; ".join(out)


_CHANGE_COUNTER = [0]


def gen_change(rnd, ref):
    """One data change that is valid on (and changes) the reference tree: (method, [args])."""
    _CHANGE_COUNTER[0] += 1
    n = _CHANGE_COUNTER[0]
    files, dirs = sorted(ref.walk.files()), sorted(ref.walk.dirs())
    kinds = ["write-new", "write-new", "makedir"]
    if files:
        kinds += ["overwrite", "overwrite", "append", "remove", "move", "copy"]
    if len(dirs) > 1:
        kinds += ["removetree"]
    kind = rnd.choice(kinds)
    parent = rnd.choice(["/"] + dirs).rstrip("/")
    if kind == "write-new":
        return "writebytes", [parent + "/n%d.bin" % n, b"new %d " % n * rnd.randint(0, 3)]
    if kind == "makedir":
        return "makedir", [parent + "/nd%d" % n]
    if kind == "removetree":
        return "removetree", [rnd.choice(dirs)]
    f = rnd.choice(files)
    if kind == "overwrite":
        return "writebytes", [f, b"over %d" % n]
    if kind == "append":
        return "appendbytes", [f, b"+%d" % n]
    if kind == "remove":
        return "remove", [f]
    return kind, [f, parent + "/%s%d" % (kind[:2], n)]


def apply_change(fsx, change, prefix=""):
    name, args = change
    args = [prefix + a.lstrip("/") if prefix and isinstance(a, str) else a for a in args]
    getattr(fsx, name)(*args)


def specific_callables(obj, methods):
    """Public callables of the concrete object that the FS base class does not have under that name at all."""
    from fs.base import FS
    return [n for n in public_callables(obj) if n not in methods and not hasattr(FS, n)]


class Region(object):
    """What a write to the target of an ArchStore leaves: the file at the path, or the bytes a file object received
    since the mark."""
    def __init__(self, st):
        self.st = st
        self.mark()

    def mark(self):
        f = self.st.fileobj
        self.pos = 0 if f is None else f.tell()

    def data(self):
        st = self.st
        if st.target_kind == "bytesio":
            return st.fileobj.getvalue()[self.pos:]
        if st.fileobj is not None and not st.fileobj.closed:
            st.fileobj.flush()
        if not os.path.exists(st.target):
            return b""
        with open(st.target, "rb") as fh:
            return fh.read()[self.pos:]


def finalise(holder, how):
    """close / with / gc on holder['obj'] (the only strong reference this module keeps)."""
    obj = holder["obj"]
    if how == "close":
        obj.close()
    elif how == "with":
        with obj:
            pass
    else:
        st = holder.get("st")
        if st is not None:
            st.obj = None
        holder["obj"] = None
        del obj
        gc.collect()


def preclose_archives(rnd, thorough, methods, bad, stats):
    hows = ("close", "with", "gc")
    combos = [(z, tk, mk) for z in (True, False) for tk in TARGET_KINDS for mk in TEMP_KINDS]
    turn = rnd.randrange(3)
    for ci, (zipped, tk, mk) in enumerate(combos):
        probe = ArchStore(zipped, tk, mk)
        try:
            names = specific_callables(probe.obj, methods)
        finally:
            with _Unraisable():
                probe.cleanup()
        label = "%s(target=%s, temp_fs=%s)" % ("WriteZipFS" if zipped else "WriteTarFS", tk, mk)
        for name in names:
            for variant in (0, 1, 2):
                # quick: every (class, target, temp_fs, callable, argument variant) with one way of finalising (rotating)
                for how in (hows if thorough else (hows[(ci + variant + turn) % 3],)):
                    preclose_archive_case(rnd, zipped, tk, mk, label, name, variant, how, bad, stats)


def preclose_archive_case(rnd, zipped, tk, mk, label, name, variant, how, bad, stats, script=None):
    from fs.memoryfs import MemoryFS
    st = ArchStore(zipped, tk, mk)
    ref = MemoryFS()
    populate(ref)
    holder = dict(obj=st.obj, st=st)
    history = []
    desc = "%s before %s" % (name, how)

    def note(why, verdict="", method=name):
        bad.append((why, dict(construction=label, how=desc, method=method, verdict=str(verdict)[:300], changed=True,
                              history=list(history), replay_case=dict(zipped=zipped, target=tk, temp_fs=mk, name=name,
                                                                      variant=variant, how=how))))

    def changes(k):
        for _ in range(k):
            ch = gen_change(rnd, ref)
            history.append("%s%r" % (ch[0], tuple(a if isinstance(a, str) else "<%d bytes>" % len(a) for a in ch[1])))
            apply_change(holder["obj"], ch)
            apply_change(ref, ch)
            stats["changes"] += 1

    def specific(nm, var):
        obj = holder["obj"]
        region = Region(st)
        before = region.data() if st.fileobj is None else None
        args, _s = c18_args(obj, nm, var, rnd, st)
        if args is None:
            return
        try:
            pnames = [p.name for p in inspect.signature(getattr(obj, nm)).parameters.values()
                      if p.kind not in (p.VAR_POSITIONAL, p.VAR_KEYWORD)]
        except (TypeError, ValueError):
            pnames = []
        history.append("%s(%s)" % (nm, ", ".join("%s=%s" % (p, "<BytesIO>" if isinstance(a, io.BytesIO) else repr(a))
                                                 for p, a in zip(pnames, args))))
        verdict = c18_call(obj, nm, args)
        stats["specific_calls"] += 1
        stats["specific_seen"].add("%s.%s" % (type(obj).__name__, nm))
        if "file" not in pnames:
            return
        # an archive writer: "write what the filesystem holds now" to the given file / to the constructor's target
        if verdict != "ok":
            note("an explicit archive write before close() raised", verdict, nm)
            return
        dest = args[pnames.index("file")]
        if dest is None:
            data, where = region.data(), "the constructor's target"
        elif isinstance(dest, io.BytesIO):
            data, where = dest.getvalue(), "the given file object"
        else:
            with open(dest, "rb") as fh:
                data, where = fh.read(), "the given path"
        d = tree_diff(archive_tree(zipped, data), tree_of(ref))
        stats["snapshots_checked"] += 1
        if d:
            note("an explicit archive write before close() did not write one complete archive of the current tree",
                 "%s: %s" % (where, d), nm)
        if dest is not None and before is not None and region.data() != before:
            note("an explicit archive write to another file changed the constructor's target", where, nm)
    try:
        stats["histories"] += 1
        changes(rnd.randint(0, 2))
        specific(name, variant)
        changes(rnd.randint(1, 3))
        if rnd.random() < 0.5:
            others = specific_callables(holder["obj"], set(public_methods()))
            specific(rnd.choice(others), rnd.randrange(3))
            changes(rnd.randint(1, 2))
        want = tree_of(ref)
        final = Region(st)
        scratch_fs = st.fs
        with _Unraisable() as un:
            try:
                finalise(holder, how)
            except Exception as e:  # noqa
                note("finalisation after a pre-close history raised", type(e).__name__, "close")
                return
        if un.seen:
            note("finalisation after a pre-close history raised", un.seen, "close")
            return
        d = tree_diff(archive_tree(zipped, final.data()), want)
        if d:
            note("finalisation after a pre-close history did not leave one complete archive of the final tree", d)
        if not scratch_fs.isclosed() or (st.scratch_removed and st.scratch and os.path.exists(st.scratch)):
            note("scratch filesystem survives the finalisation after a pre-close history", st.scratch)
    except Exception as e:  # noqa
        note("a pre-close history could not be driven", "%s: %s" % (type(e).__name__, e))
    finally:
        with _Unraisable():
            holder["obj"] = None
            ref.close()
            st.cleanup()
            gc.collect()


def preclose_tempfs(rnd, thorough, methods, bad, stats):
    from fs.memoryfs import MemoryFS
    for auto in (True, False):
        for how in ("close", "with", "gc"):
            for twice in (False, True):
                st = TempStore(auto)
                holder = dict(obj=st.obj, st=st)
                names = specific_callables(st.obj, methods)
                label = "TempFS(auto_clean=%s)" % auto
                history = []

                def note(why, verdict="", method="clean"):
                    bad.append((why, dict(construction=label, how="%s before %s" % (method, how), method=method,
                                          verdict=str(verdict)[:300], changed=True, history=list(history))))
                try:
                    stats["histories"] += 1
                    ref = MemoryFS()
                    populate(ref)
                    for _ in range(rnd.randint(1, 3)):
                        ch = gen_change(rnd, ref)
                        history.append(ch[0])
                        apply_change(st.obj, ch)
                        apply_change(ref, ch)
                    ref.close()
                    outside = walk_disk(st.work) if st.scratch is not None else None
                    sib = open(st.sibling, "rb").read()
                    for nm in names * (2 if twice else 1):
                        args, _s = c18_args(st.obj, nm, 0, rnd, st)
                        history.append(nm)
                        verdict = c18_call(st.obj, nm, args or [])
                        stats["specific_calls"] += 1
                        stats["specific_seen"].add("TempFS.%s" % nm)
                        if verdict != "ok":
                            note("a class-specific call before close() raised", verdict, nm)
                        if nm == "clean" and os.path.exists(st.dir):
                            note("clean() before close() did not remove the directory", st.dir)
                    with _Unraisable() as un:
                        try:
                            st.fs = None
                            finalise(holder, how)
                        except Exception as e:  # noqa
                            note("finalisation after a pre-close history raised", type(e).__name__, "close")
                    if un.seen:
                        note("finalisation after a pre-close history raised", un.seen, "close")
                    if os.path.exists(st.dir):
                        note("TempFS directory exists after clean() and close()", st.dir)
                    if open(st.sibling, "rb").read() != sib:
                        note("finalisation after clean() touched a file next to the directory", st.sibling)
                except Exception as e:  # noqa
                    note("a pre-close history could not be driven", "%s: %s" % (type(e).__name__, e))
                finally:
                    with _Unraisable():
                        holder["obj"] = None
                        st.cleanup()
                        gc.collect()


def preclose_composites(rnd, thorough, methods, bad, stats):
    from fs.memoryfs import MemoryFS
    from fs.mountfs import MountFS
    from fs.multifs import MultiFS
    from fs.tempfs import TempFS
    hows = ("close", "with", "gc")
    turn = rnd.randrange(3)
    ci = 0
    for kind in ("mount", "multi"):
        for auto in (True, False):
            for zipped in (True, False):
                for tk in (TARGET_KINDS if thorough else ("path", "bytesio")):
                    ci += 1
                    for how in (hows if thorough else (hows[(ci + turn) % 3],)):
                        preclose_composite_case(rnd, kind, auto, zipped, tk, how, methods, bad, stats)


def preclose_composite_case(rnd, kind, auto, zipped, tk, how, methods, bad, stats):
    from fs.memoryfs import MemoryFS
    from fs.mountfs import MountFS
    from fs.multifs import MultiFS
    from fs.tempfs import TempFS
    label = "%s(auto_close=%s) over a write-mode %s(target=%s)" % ("MountFS" if kind == "mount" else "MultiFS", auto,
                                                                  "ZipFS" if zipped else "TarFS", tk)
    history = []
    st = ArchStore(zipped, tk, rnd.choice(TEMP_KINDS))
    ref = MemoryFS()
    populate(ref)
    comp = (MountFS if kind == "mount" else MultiFS)(auto_close=auto)
    prefix = "a/" if kind == "mount" else ""
    late = []                    # members that join in the middle of the history: (name, fs, temp directory or None)
    holder = dict(obj=comp)

    def note(why, verdict="", method="close"):
        bad.append((why, dict(construction=label, how="class-specific calls and changes before %s" % how, method=method,
                              verdict=str(verdict)[:300], changed=True, history=list(history))))

    def changes(k):
        for _ in range(k):
            ch = gen_change(rnd, ref)
            history.append("%s%r" % (ch[0], tuple(a if isinstance(a, str) else "<%d bytes>" % len(a) for a in ch[1])))
            apply_change(holder["obj"], ch, prefix)
            apply_change(ref, ch)
            stats["changes"] += 1

    def specific(nm):
        obj = holder["obj"]
        try:
            params = [p for p in inspect.signature(getattr(obj, nm)).parameters.values()
                      if p.kind not in (p.VAR_POSITIONAL, p.VAR_KEYWORD)]
        except (TypeError, ValueError):
            return
        kw = {}
        joined = None
        for p in params:
            if p.name == "fs":
                member = rnd.choice(["mem", "temp"])
                m = MemoryFS() if member == "mem" else TempFS()
                m.writebytes("late.txt", b"late")
                joined = m
                kw["fs"] = m
            elif p.name in ("path", "name") and "fs" in [q.name for q in params]:
                kw[p.name] = "late%d" % len(late)          # a new mount point / member name
            elif p.name == "name":
                kw[p.name] = "a"
            elif p.name == "path":
                kw[p.name] = prefix + "f.txt"
            elif p.name == "priority":
                kw[p.name] = -1                             # reads keep coming from the archive member
            elif p.name == "write":
                kw[p.name] = False
            elif p.default is inspect.Parameter.empty:
                kw[p.name] = None
        history.append("%s(%s)" % (nm, ", ".join("%s=%s" % (k, type(v).__name__ if k == "fs" else repr(v))
                                                 for k, v in sorted(kw.items()))))
        verdict, value = call(obj, nm, [], kw)
        stats["specific_calls"] += 1
        stats["specific_seen"].add("%s.%s" % (type(obj).__name__, nm))
        if joined is not None:
            if verdict == "ok":
                late.append((kw.get("path") or kw.get("name"), joined,
                             joined.getsyspath("/") if joined.hassyspath("/") else None))
            else:
                joined.close()
        if verdict != "ok":
            note("a class-specific call before close() raised", verdict, nm)
    try:
        stats["histories"] += 1
        if kind == "mount":
            comp.mount("a", st.obj)
        else:
            comp.add_fs("a", st.obj, write=True)
        names = specific_callables(comp, methods)
        changes(rnd.randint(1, 2))
        order = list(names)
        rnd.shuffle(order)
        for nm in order:
            specific(nm)
            changes(rnd.randint(1, 2))
        want = tree_of(ref)
        final = Region(st)
        with _Unraisable() as un:
            try:
                finalise(holder, how)
            except Exception as e:  # noqa
                note("finalisation after a pre-close history raised", type(e).__name__)
                return
        if un.seen:
            note("finalisation after a pre-close history raised", un.seen)
            return
        comp = None
        for nm, m, d in late:
            if m.isclosed() != auto:
                note("members closed iff auto_close violated (member joined before close)", "%s closed=%s" % (nm, m.isclosed()),
                     "mount" if kind == "mount" else "add_fs")
            if d is not None and os.path.exists(d) != (not auto):
                note("TempFS member's directory removed iff auto_close violated", d)
        if st.obj.isclosed() != auto:
            note("members closed iff auto_close violated", "archive member closed=%s" % st.obj.isclosed())
        if auto:
            d = tree_diff(archive_tree(zipped, final.data()), want)
            if d:
                note("finalisation after a pre-close history did not leave one complete archive of the final tree", d)
        else:
            if final.data() != b"" and tk != "path" or (tk == "path" and os.path.exists(st.target)):
                note("a composite without auto_close wrote its member's archive", len(final.data()))
            if tree_of(st.obj) != want:
                note("a member of a composite without auto_close lost data when the composite was finalised")
            st.obj.close()
            d = tree_diff(archive_tree(zipped, final.data()), want)
            if d:
                note("finalisation after a pre-close history did not leave one complete archive of the final tree", d)
    except Exception as e:  # noqa
        note("a pre-close history could not be driven", "%s: %s" % (type(e).__name__, e))
    finally:
        with _Unraisable():
            holder["obj"] = None
            comp = None
            for _nm, m, d in late:
                try:
                    m.close()
                except Exception:  # noqa
                    pass
                if d is not None:
                    shutil.rmtree(d, ignore_errors=True)
            ref.close()
            st.cleanup()
            gc.collect()


def preclose_probe(rnd, thorough, methods, bad):
    stats = dict(histories=0, changes=0, specific_calls=0, snapshots_checked=0, specific_seen=set())
    methods = set(methods)
    preclose_archives(rnd, thorough, methods, bad, stats)
    preclose_tempfs(rnd, thorough, methods, bad, stats)
    preclose_composites(rnd, thorough, methods, bad, stats)
    return dict(preclose_histories=stats["histories"], preclose_data_changes=stats["changes"],
                preclose_class_specific_calls=stats["specific_calls"],
                preclose_class_specific_callables=sorted(stats["specific_seen"]),
                preclose_explicit_archive_writes_checked=stats["snapshots_checked"],
                preclose_rule="write-mode ZipFS / TarFS (every target kind x scratch temp_fs kind) x every class-specific "
                              "public callable (reflection) x 3 argument variants (file = the constructor's target / a "
                              "fresh BytesIO / another path) called between random data changes (write, overwrite, "
                              "append, remove, move, copy, makedir, removetree; mirrored on a reference MemoryFS), a "
                              "second class-specific call in half of the histories, then close / with-block / drop + "
                              "gc (quick: one of the three per history, rotating; thorough: all): the bytes the "
                              "finalisation left on the target are ONE complete archive of the FINAL reference tree "
                              "(zipfile / tarfile), every explicit write_zip / write_tar left one of the tree at that "
                              "moment; TempFS x auto_clean x clean() once / twice before close; MountFS / MultiFS x "
                              "auto_close x archive member x every class-specific callable (mount / add_fs of a late "
                              "MemoryFS / TempFS member, get_fs, iterate_fs, which) between changes made through the "
                              "composite: members (late ones included) closed and finalised iff auto_close")


# ---- (b) garbage collection as the only finalisation, for every FS class of the library

def library_fs_classes():
    """{qualified name: class} of every subclass of FS defined in a module of the fs package; import failures."""
    import importlib
    import pkgutil
    import fs as fspkg
    from fs.base import FS
    found, failed = {}, []
    for m in pkgutil.walk_packages(fspkg.__path__, "fs."):
        try:
            mod = importlib.import_module(m.name)
        except Exception as e:  # noqa
            failed.append("%s (%s)" % (m.name, type(e).__name__))
            continue
        for v in list(vars(mod).values()):
            if inspect.isclass(v) and issubclass(v, FS) and v.__module__ == mod.__name__:
                found["%s.%s" % (v.__module__, v.__name__)] = v
    return found, failed


class _CloseCounter(object):
    """Counts the calls of close() on ONE object (by identity) while active, by shadowing close on its concrete class."""
    def __init__(self, obj):
        self.cls = type(obj)
        self.ident = id(obj)
        self.calls = 0

    def __enter__(self):
        cls = self.cls
        self.had = "close" in cls.__dict__
        self.orig = cls.__dict__.get("close")
        inner = cls.close
        counter = self

        def close(self_, *a, **kw):
            if id(self_) == counter.ident:
                counter.calls += 1
            return inner(self_, *a, **kw)
        cls.close = close
        return self

    def __exit__(self, *a):
        if self.had:
            self.cls.close = self.orig
        else:
            del self.cls.close


def _open_fds(path):
    n = 0
    try:
        for fd in os.listdir("/proc/self/fd"):
            try:
                if os.readlink("/proc/self/fd/" + fd) == path:
                    n += 1
            except OSError:
                pass
    except OSError:
        return None
    return n


def gc_recipes(thorough):
    """{qualified class name: [(label, make)]}; make() -> dict(obj=<the filesystem, used>, after=<callable returning a
    list of (why, detail) once the object is gone>, cleanup=<callable>)."""
    import fs.appfs
    from fs.memoryfs import MemoryFS
    from fs.mountfs import MountFS
    from fs.multifs import MultiFS
    from fs.osfs import OSFS
    from fs.subfs import SubFS, ClosingSubFS
    from fs.tarfs import TarFS, WriteTarFS, ReadTarFS
    from fs.tempfs import TempFS
    from fs.wrap import read_only, cache_directory
    from fs.wrapfs import WrapFS
    from fs.zipfs import ZipFS, WriteZipFS, ReadZipFS
    R = {}

    def add(cls, label, make):
        R.setdefault("%s.%s" % (cls.__module__, cls.__name__), []).append((label, make))

    def simple(build):
        def make():
            tmp = tempfile.mkdtemp(prefix="pyfs2verif_gc_")
            try:
                obj = build(tmp)
                populate(obj)
            except Exception:
                shutil.rmtree(tmp, ignore_errors=True)
                raise
            return dict(obj=obj, after=lambda: [], cleanup=lambda: shutil.rmtree(tmp, ignore_errors=True))
        return make
    add(MemoryFS, "MemoryFS()", simple(lambda tmp: MemoryFS()))
    add(OSFS, "OSFS(dir)", simple(lambda tmp: OSFS(tmp)))

    # TempFS: the directory goes iff auto_clean
    for auto in (True, False):
        def make(auto=auto):
            st = TempStore(auto)
            d = st.dir

            def after():
                return [] if os.path.exists(d) != auto else [
                    ("TempFS directory removed iff auto_clean violated by garbage collection", "exists=%s" % os.path.exists(d))]
            obj, st.obj, st.fs = st.obj, None, None
            return dict(obj=obj, after=after, cleanup=st.cleanup)
        add(TempFS, "TempFS(auto_clean=%s)" % auto, make)

    # views and wrappers: the view is closed, a plain SubFS / wrapper leaves its parent open
    def view(wrap, parent_kind, closes_parent):
        def make():
            st = Store(parent_kind)
            obj = wrap(st.fs)
            obj.writebytes("via.txt", b"via")

            def after():
                if st.fs.isclosed() != closes_parent:
                    return [("%s when its view is garbage-collected" % (
                        "the parent of a ClosingSubFS is not closed" if closes_parent else "the parent filesystem is closed"),
                        "parent closed=%s" % st.fs.isclosed())]
                return []
            return dict(obj=obj, after=after, cleanup=st.cleanup)
        return make
    for pk in ("mem", "os"):
        add(SubFS, "SubFS(%s)" % pk, view(lambda p: p.opendir("d"), pk, False))
        add(ClosingSubFS, "ClosingSubFS(%s)" % pk, view(lambda p: p.opendir("d", factory=ClosingSubFS), pk, True))
        add(WrapFS, "WrapFS(%s)" % pk, view(lambda p: WrapFS(p), pk, False))
    add(SubFS, "SubFS(SubFS(mem))", view(lambda p: p.opendir("d").opendir("sub"), "mem", False))
    add(ClosingSubFS, "ClosingSubFS(SubFS(mem)) via opendir of a view",
        view(lambda p: p.opendir("d").opendir("sub", factory=ClosingSubFS), "mem", False))

    def ro_view(wrap):
        def make():
            st = Store("mem")
            obj = wrap(st.fs)
            obj.listdir("/"), obj.readbytes("f.txt")
            return dict(obj=obj, after=lambda: [], cleanup=st.cleanup)
        return make
    from fs.wrap import WrapReadOnly, WrapCachedDir
    add(WrapReadOnly, "read_only(mem)", ro_view(read_only))
    add(WrapCachedDir, "cache_directory(mem)", ro_view(cache_directory))

    # ClosingSubFS over a TempFS / a write-mode archive (what open_fs('temp://.../d'), open_fs('zip://a.zip!/d') build)
    def closing_temp():
        st = TempStore(True)
        d = st.dir
        obj = st.obj.opendir("d", factory=ClosingSubFS)
        parent, st.obj, st.fs = st.obj, None, None

        def after():
            out = []
            if not parent.isclosed():
                out.append(("the parent of a ClosingSubFS is not closed when its view is garbage-collected", "TempFS"))
            if os.path.exists(d):
                out.append(("TempFS directory survives the garbage collection of its ClosingSubFS", d))
            return out
        return dict(obj=obj, after=after, cleanup=lambda: (parent.close(), st.cleanup()))
    add(ClosingSubFS, "ClosingSubFS(TempFS)", closing_temp)

    # write-mode archives: one complete archive of what was stored, scratch closed / gone, written exactly once
    def archive(zipped, tk, mk, through):
        def make():
            import fs.zipfs
            import fs.tarfs
            st = ArchStore(zipped, tk, mk)
            parent = st.obj
            parent.writebytes("d/sub/late.bin", b"late")
            want = tree_of(parent)
            region = Region(st)
            scratch_fs = st.fs
            mod, attr = (fs.zipfs, "write_zip") if zipped else (fs.tarfs, "write_tar")
            orig = getattr(mod, attr)
            writes = []

            def counting(*a, **kw):
                writes.append(1)
                return orig(*a, **kw)
            setattr(mod, attr, counting)
            if through == "direct":
                obj = parent
            else:
                obj = parent.opendir("d", factory=ClosingSubFS)
            st.obj = None
            parent = None

            def after():
                out = []
                d = tree_diff(archive_tree(zipped, region.data()), want)
                if d:
                    out.append(("garbage collection of a write-mode archive did not leave one complete archive of its tree", d))
                if len(writes) != 1:
                    out.append(("garbage collection of a write-mode archive wrote the archive %d times" % len(writes), ""))
                if not scratch_fs.isclosed() or (st.scratch_removed and st.scratch and os.path.exists(st.scratch)):
                    out.append(("scratch filesystem survives the garbage collection of a write-mode archive", st.scratch))
                return out

            def cleanup():
                setattr(mod, attr, orig)
                st.cleanup()
            return dict(obj=obj, after=after, cleanup=cleanup)
        return make
    for zipped, fac, wcls in ((True, ZipFS, WriteZipFS), (False, TarFS, WriteTarFS)):
        for tk in TARGET_KINDS:
            for mk in TEMP_KINDS:
                nm = "ZipFS" if zipped else "TarFS"
                add(wcls, "%s(target=%s, temp_fs=%s, write=True)" % (nm, tk, mk), archive(zipped, tk, mk, "direct"))
            add(fac, "%s(target=%s, write=True) [the factory returns %s]" % (nm, tk, wcls.__name__),
                archive(zipped, tk, "default", "direct"))
            add(ClosingSubFS, "ClosingSubFS(write-mode %s, target=%s)" % (nm, tk), archive(zipped, tk, "default", "view"))

    # read-mode archives: the file opened for a path target is closed again
    def reader(zipped, tk, direct):
        def make():
            st = ReadArchStore(zipped, tk)
            path = os.path.join(st.work, "r.zip" if zipped else "r.tar")
            obj, st.obj, st.fs = st.obj, None, None
            if direct:
                obj.close()
                cls = (ReadZipFS if zipped else ReadTarFS)
                obj = cls(path if tk == "path" else io.BytesIO(open(path, "rb").read()))
            obj.listdir("/"), obj.readbytes("f.txt")

            def after():
                n = _open_fds(path)
                if tk == "path" and n:
                    return [("the archive file is still open after its read-mode filesystem was garbage-collected", "%d descriptors" % n)]
                return []
            return dict(obj=obj, after=after, cleanup=st.cleanup)
        return make
    for zipped, fac, rcls in ((True, ZipFS, ReadZipFS), (False, TarFS, ReadTarFS)):
        for tk in ("path", "bytesio"):
            add(rcls, "%s(source=%s)" % (rcls.__name__, tk), reader(zipped, tk, True))
            add(fac, "%s(source=%s) [the factory returns %s]" % (fac.__name__, tk, rcls.__name__), reader(zipped, tk, False))

    # composites: members closed / finalised iff auto_close
    def composite(kind, auto):
        def make():
            comp = (MountFS if kind == "mount" else MultiFS)(auto_close=auto)
            st = ArchStore(True, "path", "default")
            arch = st.obj
            tst = TempStore(True)
            temp = tst.obj
            mem = Store("mem")
            if kind == "mount":
                comp.mount("arch", arch), comp.mount("temp", temp), comp.mount("mem", mem.fs)
                comp.writebytes("arch/via-composite.txt", b"via"), comp.writebytes("temp/x", b"x")
                comp.writebytes("top.txt", b"default filesystem")
            else:
                comp.add_fs("mem", mem.fs), comp.add_fs("temp", temp), comp.add_fs("arch", arch, write=True)
                comp.writebytes("via-composite.txt", b"via")
            comp.listdir("/")
            want = tree_of(arch)
            region = Region(st)

            def after():
                out = []
                for nm, m in (("archive", arch), ("TempFS", temp), ("MemoryFS", mem.fs)):
                    if m.isclosed() != auto:
                        out.append(("members closed iff auto_close violated by garbage collection", "%s closed=%s" % (nm, m.isclosed())))
                if os.path.exists(tst.dir) != (not auto):
                    out.append(("TempFS member's directory removed iff auto_close violated by garbage collection", tst.dir))
                if auto:
                    d = tree_diff(archive_tree(True, region.data()), want)
                    if d:
                        out.append(("garbage collection of an auto_close composite did not leave one complete archive of "
                                    "its member's tree", d))
                elif os.path.exists(st.target):
                    out.append(("a composite without auto_close wrote its member's archive when garbage-collected", ""))
                return out

            def cleanup():
                for c in (st, tst, mem):
                    c.cleanup()
            return dict(obj=comp, after=after, cleanup=cleanup)
        return make
    for auto in (True, False):
        add(MountFS, "MountFS(auto_close=%s) over a write-mode ZipFS, a TempFS, a MemoryFS" % auto, composite("mount", auto))
        add(MultiFS, "MultiFS(auto_close=%s) over a write-mode ZipFS, a TempFS, a MemoryFS" % auto, composite("multi", auto))

    # application directories (private HOME / XDG_* for the time of the construction)
    def app(cls):
        def make():
            tmp = tempfile.mkdtemp(prefix="pyfs2verif_gc_")
            keys = ("HOME", "XDG_DATA_HOME", "XDG_CONFIG_HOME", "XDG_CACHE_HOME", "XDG_STATE_HOME", "XDG_DATA_DIRS",
                    "XDG_CONFIG_DIRS")
            old = dict((k, os.environ.get(k)) for k in keys)
            try:
                os.environ["HOME"] = tmp
                for k in keys[1:]:
                    os.environ[k] = os.path.join(tmp, k.lower())
                obj = cls("pyfs2verif", author="verif", version="1", create=True)
                root = obj.getsyspath("/")
                if not os.path.realpath(root).startswith(os.path.realpath(tmp)):
                    obj.close()
                    raise RuntimeError("application directory outside the private HOME: %s" % root)
                populate(obj)
            except Exception:
                shutil.rmtree(tmp, ignore_errors=True)
                raise
            finally:
                for k, v in old.items():
                    if v is None:
                        os.environ.pop(k, None)
                    else:
                        os.environ[k] = v
            return dict(obj=obj, after=lambda: [], cleanup=lambda: shutil.rmtree(tmp, ignore_errors=True))
        return make
    for name in fs.appfs.__all__:
        cls = getattr(fs.appfs, name)
        add(cls, "%s('pyfs2verif', create=True) in a private HOME" % name, app(cls))

    # FTPFS against the loop-back server: the control connection is closed
    def ftp():
        import time
        import ftpserver
        from pyftpdlib.handlers import FTPHandler
        srv = ftpserver.start("normal")
        try:
            obj = srv.connect()
            obj.writebytes("f.txt", b"hello")
            obj.listdir("/")
        except Exception:
            srv.stop()
            raise

        def controls():
            loop = srv.ioloop
            return 0 if loop is None else sum(1 for h in list(loop.socket_map.values()) if isinstance(h, FTPHandler))
        n0 = controls()

        def after():
            end = time.time() + 2.0
            while controls() and time.time() < end:
                time.sleep(0.005)
            if controls():
                return [("the FTP control connection is still open after the FTPFS was garbage-collected",
                         "%d connection(s), %d while in use" % (controls(), n0))]
            return []
        return dict(obj=obj, after=after, cleanup=srv.stop)
    try:
        import ftpserver
        from fs.ftpfs import FTPFS
        ok, why = ftpserver.available()
        if ok:
            add(FTPFS, "FTPFS(loop-back server)", ftp)
        else:
            R.setdefault("fs.ftpfs.FTPFS", [])
            R["__skipped__"] = ["fs.ftpfs.FTPFS: no loop-back FTP server here (%s)" % why]
    except Exception as e:  # noqa
        R["__skipped__"] = ["fs.ftpfs.FTPFS: %s" % type(e).__name__]
    return R


def gc_only_probe(thorough, bad):
    import weakref
    classes, import_failures = library_fs_classes()
    recipes = gc_recipes(thorough)
    skipped = recipes.pop("__skipped__", [])
    no_recipe, abstract = [], []
    ran = 0
    per_class = {}
    for qn in sorted(classes):
        cls = classes[qn]
        if inspect.isabstract(cls) or cls.__name__.startswith("_"):
            abstract.append(qn)
            continue
        if not recipes.get(qn):
            if not any(s.startswith(qn) for s in skipped):
                no_recipe.append(qn)
            continue
        for label, make in recipes[qn]:
            def note(why, verdict=""):
                bad.append((why, dict(construction=label, how="used, last reference dropped, gc.collect(); never closed",
                                      method="__del__", verdict=str(verdict)[:300], changed=False, fs_class=qn)))
            with _Unraisable() as un0:
                try:
                    rec = make()
                except Exception as e:  # noqa
                    note("a filesystem for the garbage-collection probe could not be built", "%s: %s" % (type(e).__name__, e))
                    gc.collect()
                    continue
            try:
                obj = rec.pop("obj")
                if obj.isclosed():
                    note("a filesystem for the garbage-collection probe could not be built", "closed before use ended")
                    continue
                ref = weakref.ref(obj)
                with _CloseCounter(obj) as counter, _Unraisable() as un:
                    del obj
                    gc.collect()
                ran += 1
                per_class[qn] = per_class.get(qn, 0) + 1
                if ref() is not None:
                    note("a dropped filesystem is not collected", "still referenced")
                    continue
                if un.seen:
                    note("the finaliser of a dropped filesystem raised", un.seen)
                if counter.calls != 1:
                    note("close() did not run exactly once for a filesystem that was dropped without close()",
                         "%d calls" % counter.calls)
                for why, detail in rec["after"]():
                    note(why, detail)
            finally:
                with _Unraisable():
                    obj = None
                    try:
                        rec["cleanup"]()
                    except Exception:  # noqa
                        pass
                    rec = None
                    gc.collect()
    for qn in no_recipe:
        bad.append(("a filesystem class of the library has no garbage-collection recipe in the harness",
                    dict(construction=qn, how="reflection over fs.*", method="__del__", verdict="", changed=False)))
    return dict(gc_only_classes_found=sorted(classes), gc_only_classes_abstract_or_private=abstract,
                gc_only_constructions_per_class=per_class, gc_only_constructions=ran,
                gc_only_classes_without_recipe=no_recipe, gc_only_skipped=skipped,
                gc_only_import_failures=import_failures,
                gc_only_rule="every subclass of fs.base.FS defined in a module of the fs package (pkgutil over fs.*): built, "
                             "used, last reference dropped, gc.collect(), never closed -> close() ran exactly once "
                             "(counted on the concrete class), no finaliser raised, and from outside the object: "
                             "write-mode ZipFS/TarFS (every target x temp_fs kind, direct / through the ZipFS/TarFS "
                             "factory / through a ClosingSubFS) left ONE complete archive of their tree written exactly "
                             "once and no scratch directory; TempFS directory gone iff auto_clean; ClosingSubFS closed "
                             "its parent (MemoryFS, OSFS, TempFS, archive), SubFS / WrapFS did not; MountFS / MultiFS "
                             "closed and finalised their members (archive, TempFS, MemoryFS) iff auto_close; read-mode "
                             "archives released the descriptor of a path source; FTPFS closed its control connection; "
                             "application directories in a private HOME")


def finalisers_probe():
    from fs.zipfs import ZipFS
    from fs.tarfs import TarFS
    from fs.tempfs import TempFS
    import fs.compress
    out = []
    for label, cls, attr in (("WriteZipFS", ZipFS, "write_zip"), ("WriteTarFS", TarFS, "write_tar")):
        for target_kind in TARGET_KINDS:
            d = tempfile.mkdtemp(prefix="pyfs2verif_")
            try:
                calls = []
                orig = getattr(fs.compress, attr)
                import fs.zipfs, fs.tarfs
                mod = fs.zipfs if attr == "write_zip" else fs.tarfs

                def counting(*a, **kw):
                    calls.append(1)
                    return orig(*a, **kw)
                setattr(mod, attr, counting)
                try:
                    target = os.path.join(d, "a.bin")
                    fobj = None
                    if target_kind == "path":
                        w = cls(target, write=True)
                    elif target_kind == "bytesio":
                        fobj = io.BytesIO()
                        w = cls(fobj, write=True)
                    else:
                        fobj = open(target, "wb")
                        w = cls(fobj, write=True)
                    populate(w)
                    with w:
                        pass
                    w.close()
                    w.close()
                    del w
                    gc.collect()
                    if target_kind == "bytesio":
                        src = io.BytesIO(fobj.getvalue())
                    else:
                        if fobj is not None:
                            fobj.close()
                        src = target
                    r = cls(src)
                    ok = sorted(p for p, _ in r.walk.info()) == ["/d", "/d/g.txt", "/d/sub", "/f.txt"] and \
                        r.readbytes("f.txt") == b"hello"
                    r.close()
                    out.append(dict(what="%s: one complete readable archive written exactly once" % label,
                                    target=target_kind, ok=ok and len(calls) == 1,
                                    detail=dict(writes=len(calls), readable=ok, target=target_kind)))
                finally:
                    setattr(mod, attr, orig)
            finally:
                shutil.rmtree(d, ignore_errors=True)
    t = TempFS()
    p = t.getsyspath("/")
    t.writebytes("x", b"1")
    t.close()
    t.close()
    out.append(dict(what="TempFS: directory removed on close", ok=not os.path.exists(p), detail=p))
    t = TempFS()
    p = t.getsyspath("/")
    del t
    gc.collect()
    out.append(dict(what="TempFS: directory removed when garbage-collected", ok=not os.path.exists(p), detail=p))
    return out


def run(report):
    return {"C04": run_c04, "C18": run_c18}[report.pid](report)


def replay(report, path):
    with open(path) as fh:
        print(fh.read()[:3000])
    return 1
