"""C17 / C01 for compositions: real MultiFS / MountFS objects over real MemoryFS members against the
executable state models of coq/Route/Composite.v (dispatcher domain `composite`, Run/RunComposite.v).

Every case = a configuration (members / priorities / write flags, resp. mount points, each member
pre-populated by its own generated history) + a generated history of calls.  After EVERY call the
outcome and the storage tree of EVERY member (fsops.snap_memoryfs) must equal the model's record.
The theorems of Route/CompositeProofs.v are about exactly that model."""
from __future__ import print_function

import collections
import json
import os
import random
import sys

import common
import fsops
import genhist
from common import tok

THEOREM = "Route/CompositeProofs.v"

MOUNT_SETS = [
    [], ["/a"], ["/c"], ["/a", "/ab"], ["/ab", "/a"], ["/a/b"], ["/a/b", "/a"], ["/a", "/a/b"],
    ["/a", "/c", "/ab"], ["/a/b", "/c"], ["/a", "/b", "/c"], ["/"], ["/c", "/"], ["a/", "/x/../ab"],
    ["/a/b", "/ab", "/a"], ["/c/d", "/c/e"], ["/a", "/a"], ["/b/../..", "/a"],
]
PRIO_SHAPES = ["equal", "asc", "desc", "random", "random"]
PAGES = [(0, 1), (1, 3), (2, 2), (0, 10), (3, 1), (1, None)]


def _is_multi(kind):
    return kind == "multi"


# --------------------------------------------------------------------------- configurations

def _member_history(rnd, base, extra_max=3):
    """A pre-population history: a random part of the shared base history (so that paths exist in
    several members), a few calls of its own, now and then a file where the others have a directory
    (or the reverse)."""
    h = [o for o in base if rnd.random() < 0.6]
    g = genhist.Gen(rnd, odd=0.1, spell=0.0)
    for o in h:
        fsops.execute(g.shadow, o)
    h += g.history(rnd.randint(0, extra_max))
    if base and rnd.random() < 0.35:
        o = rnd.choice(base)
        p = o[1]
        if o[0] in ("makedir", "makedirs"):
            h.append(("writebytes", p, b"clash"))
        elif o[0] == "writebytes":
            h.append(("makedirs", p, True))
            h.append(("writebytes", p.rstrip("/") + "/in", b"deep"))
    return h


def gen_config(rnd, kind, idx):
    g = genhist.Gen(rnd, odd=0.1, spell=0.0)
    base = g.history(rnd.randint(2, 7))
    if _is_multi(kind):
        k = 1 + idx % 3
        shape = PRIO_SHAPES[(idx // 3) % len(PRIO_SHAPES)]
        if shape == "equal":
            prios = [0] * k
        elif shape == "asc":
            prios = list(range(k))
        elif shape == "desc":
            prios = list(range(k, 0, -1))
        else:
            prios = [rnd.choice([-2, -1, 0, 0, 1, 5]) for _ in range(k)]
        wsel = (idx // 15) % 4
        if wsel == 0:
            writes = [False] * k                      # no write member
        elif wsel == 1:
            writes = [i == rnd.randrange(k) for i in range(k)]
        elif wsel == 2:
            writes = [i == (k - 1 if prios[0] >= prios[-1] else 0) for i in range(k)]   # lowest layer writes
        else:
            writes = [rnd.random() < 0.6 for _ in range(k)]   # several add_fs(write=True): the last wins
        members = [dict(priority=prios[i], write=writes[i], history=_member_history(rnd, base)) for i in range(k)]
        return dict(kind="multi", members=members)
    mset = MOUNT_SETS[idx % len(MOUNT_SETS)]
    dflt = _member_history(rnd, base, 2) if rnd.random() < 0.6 else []
    return dict(kind="mount", default=dflt,
                mounts=[dict(path=p, history=_member_history(rnd, base)) for p in mset])


def config_json(cfg):
    import h_fs
    c = dict(cfg)
    if cfg["kind"] == "multi":
        c["members"] = [dict(m, history=[h_fs.op_json(o) for o in m["history"]]) for m in cfg["members"]]
    else:
        c["default"] = [h_fs.op_json(o) for o in cfg["default"]]
        c["mounts"] = [dict(m, history=[h_fs.op_json(o) for o in m["history"]]) for m in cfg["mounts"]]
    return c


def config_from_json(c):
    import h_fs
    cfg = dict(c)
    if c["kind"] == "multi":
        cfg["members"] = [dict(m, history=[h_fs.op_from_json(o) for o in m["history"]]) for m in c["members"]]
    else:
        cfg["default"] = [h_fs.op_from_json(o) for o in c["default"]]
        cfg["mounts"] = [dict(m, history=[h_fs.op_from_json(o) for o in m["history"]]) for m in c["mounts"]]
    return cfg


# --------------------------------------------------------------------------- real objects

_REC = []


def rec_class():
    """MemoryFS that records every path it is handed (all its methods validate the raw argument first)."""
    if not _REC:
        from fs.memoryfs import MemoryFS

        class RecordingMemoryFS(MemoryFS):
            def __init__(self):
                MemoryFS.__init__(self)
                self.seen = []

            def validatepath(self, path):
                self.seen.append(path)
                return MemoryFS.validatepath(self, path)
        _REC.append(RecordingMemoryFS)
    return _REC[0]


def _valid_bin(mode):
    """FS/Mode.v mode_valid_bin (an invalid mode is rejected by MountFS.openbin before it delegates)."""
    return bool(mode) and mode[0] in "rwxa" and set(mode) <= set("rwxab+")


def _is_root(path):
    """MountFS.removedir refuses the root itself (RemoveRootError) before it delegates."""
    from fs.path import normpath
    try:
        return normpath(path) in ("", "/")
    except Exception:
        return False


def _filled(history):
    m = rec_class()()
    for o in history:
        fsops.execute(m, o)
    return m


# calls MountFS hands to exactly one filesystem with exactly the delegated path
DIRECT = ("getinfo", "listdir", "scandir", "makedir", "openwrite", "openread", "remove", "removedir", "readbytes",
          "writebytes", "getsize", "gettype", "isdir", "isfile", "setinfo")


def build_real(cfg):
    """-> (composite object, [storage filesystems in the model's order])."""
    if cfg["kind"] == "multi":
        from fs.multifs import MultiFS
        comp = MultiFS()
        stores = []
        for i, m in enumerate(cfg["members"]):
            member = _filled(m["history"])
            comp.add_fs("m%d" % i, member, write=m["write"], priority=m["priority"])
            stores.append(member)
        return comp, stores
    from fs.mountfs import MountFS
    comp = MountFS()
    for o in cfg["default"]:
        fsops.execute(comp.default_fs, o)
    stores = [comp.default_fs]
    for req, m in enumerate(cfg["mounts"]):
        member = _filled(m["history"])
        member.request = req
        n_before = len(comp.mounts)
        try:
            comp.mount(m["path"], member)
        except Exception:     # MountError (refused) or a failing default_fs.makedirs: the model decides alike
            pass
        if len(comp.mounts) > n_before:
            stores.append(member)
        else:
            member.close()
    return comp, stores


def snaps(stores):
    return "|".join(fsops.snap_memoryfs(s) for s in stores)


# --------------------------------------------------------------------------- model line

def _hist_tokens(h):
    toks = []
    for o in h:
        toks += fsops.encode(o)
    return toks


def _counted(h):
    t = _hist_tokens(h)
    return [str(len(t))] + t


def model_line(cfg, history):
    if cfg["kind"] == "multi":
        toks = [str(len(cfg["members"]))]
        for m in cfg["members"]:
            toks += ["1" if m["priority"] < 0 else "0", str(abs(m["priority"])), "1" if m["write"] else "0"]
            toks += _counted(m["history"])
        return "composite multi " + " ".join(toks + _hist_tokens(history))
    toks = _counted(cfg["default"]) + [str(len(cfg["mounts"]))]
    for m in cfg["mounts"]:
        toks += [tok(m["path"])] + _counted(m["history"])
    return "composite mount " + " ".join(toks + _hist_tokens(history))


# --------------------------------------------------------------------------- one case

class CompGen(genhist.Gen):
    """The shared generator, looking at the COMPOSITE for the paths that exist (in some member, in
    several, below a mount point) and adding member-specific / missing / odd ones."""

    def __init__(self, rnd, comp, stores, extra_paths):
        genhist.Gen.__init__(self, rnd, odd=0.12, spell=0.2)
        self.shadow.close()
        self.shadow = comp
        self.stores = stores
        self.extra = extra_paths

    NUL_PATHS = ["x\0/..", "a/\0", "\0", "a/x\0/../..", "/a/b\0/..", "ab/\0/../x", "c/d/y\0/.."]

    def path(self, kind=None):
        # a NUL character, in the open or hidden behind '..' (validatepath of the composite / of the member decides)
        if self.rnd.random() < 0.04:
            return self.rnd.choice(self.NUL_PATHS)
        return genhist.Gen.path(self, kind)

    def existing(self):
        files, dirs = [], ["/"]
        seen = set()

        def add(p, is_dir):
            if p not in seen:
                seen.add(p)
                (dirs if is_dir else files).append(p)
        try:
            for p, info in self.shadow.walk.info():
                add(p, info.is_dir)
        except Exception:
            pass
        for prefix, s in self.extra:
            # paths of a single member as the composite names them (hidden by another member / a mount or not)
            try:
                for p, info in s.walk.info():
                    add((prefix.rstrip("/") + p) if prefix != "/" else p, info.is_dir)
            except Exception:
                pass
        return files, dirs


def run_case(cfg, history=None, rnd=None, length=10):
    """Run (or generate and run) a history on the real composite.
    Returns (history, records, paging mismatches, routed: [(call index, [(mount request, first path seen)])])."""
    comp, stores = build_real(cfg)
    routed = []

    def call(o):
        for s in stores[1:]:
            del s.seen[:]
        out = fsops.execute(comp, o)
        if cfg["kind"] == "mount" and o[0] in DIRECT and not (o[0].startswith("open") and not _valid_bin(o[2])) \
                and not (o[0] == "removedir" and _is_root(o[1])):
            routed.append((len(records) - 1, [(s.request, s.seen[0]) for s in stores[1:] if s.seen]))
        return out
    try:
        records = ["init#" + snaps(stores)]
        if history is None:
            if cfg["kind"] == "multi":
                extra = [("/", s) for s in stores]
            else:
                extra = [(mp.rstrip("/") or "/", f) for mp, f in comp.mounts]
            g = CompGen(rnd, comp, stores, extra)
            history = []
            for _ in range(length):
                o = g.op()
                history.append(o)
                records.append(call(o) + "#" + snaps(stores))
        else:
            for o in history:
                records.append(call(o) + "#" + snaps(stores))
        paging = paging_probe(comp) if cfg["kind"] == "multi" else []
        return history, records, paging, routed
    finally:
        for s in stores:
            try:
                s.close()
            except Exception:
                pass


def paging_probe(comp):
    """MultiFS.scandir(path, page=(s, e)) = [s:e] of the merged listing (Composite.v page_slice)."""
    bad = []
    dirs = ["/"]
    try:
        dirs += [p for p in comp.walk.dirs()][:2]
    except Exception:
        pass
    for d in dirs:
        try:
            full = [i.name for i in comp.scandir(d)]
        except Exception:
            continue
        for s, e in PAGES:
            try:
                got = [i.name for i in comp.scandir(d, page=(s, e))]
            except Exception as ex:     # noqa
                got = "raises " + type(ex).__name__
            if got != full[s:e]:
                bad.append(dict(path=d, page=[s, e], paged=got, merged=full))
    return bad


def route_line(cfg, path):
    mps = [m["path"] for m in cfg["mounts"]]
    return " ".join(["route", "mount", tok(path), str(len(mps))] + [tok(p) for p in mps])


def parse_route(s):
    """ok:S(i<k>|s<code points>) -> [(k, relative path)] ; ok:N / err:... -> []"""
    if not s.startswith("ok:S("):
        return []
    i, p = s[5:-1].split("|", 1)
    return [(int(i[1:]), "".join(chr(int(x)) for x in p[1:].split(",")) if len(p) > 1 else "")]


def listed_dirs(record):
    """Names of the directory entries in the model's record of a scandir call ('ok:[(name|T|size|mt);...]#trees')."""
    out = record.split("#", 1)[0]
    if not out.startswith("ok:[") or out == "ok:[]":
        return []
    names = []
    for item in out[4:-1].split(";"):
        name, is_dir = item[1:].split("|")[:2]
        if is_dir == "T":
            names.append("".join(chr(int(x)) for x in name[1:].split(",")) if len(name) > 1 else "")
    return names


def expected_routes(items):
    """items: [(cfg, history, call index, the model's record of that call)] -> what each mounted filesystem must have
    been handed first, as Route/Composite.v says: the delegate of the call's path (Route.v mount_delegate: member AND
    relative path); and for a scandir answered by the DEFAULT filesystem (mount_scandir / scan_mount_points) the members
    mounted directly on a directory entry of the model's listing are asked getinfo('') - nobody else is asked anything."""
    from fs.path import abspath, forcedir, normpath
    first = common.run_model_parallel([route_line(cfg, h[k][1]) for cfg, h, k, _r in items], chunk=5000) if items else []
    expected = [parse_route(e) for e in first]
    extra = []       # (index into items, route line of <dir key> + name)
    for n, (cfg, h, k, rec) in enumerate(items):
        if h[k][0] == "scandir" and first[n] == "ok:N" and cfg["mounts"]:
            key = forcedir(abspath(normpath(h[k][1])))
            for name in listed_dirs(rec):
                extra.append((n, route_line(cfg, key + name)))
    answers = common.run_model_parallel([l for _n, l in extra], chunk=5000) if extra else []
    for (n, _l), a in zip(extra, answers):
        expected[n] = sorted(expected[n] + [r for r in parse_route(a) if r[1] == ""])
    return expected, first


def first_diff(model, real):
    n = min(len(model), len(real))
    for i in range(n):
        if model[i] != real[i]:
            return i
    return n if len(model) != len(real) else None


# --------------------------------------------------------------------------- the check

def run_composite_checks(report, rnd, tier):
    import h_fs
    thorough = tier == "thorough"
    n_cases = 3000 if thorough else 300
    maxlen = 14 if thorough else 10
    cases = []
    route_obs = []
    for idx in range(n_cases):
        kind = "multi" if idx % 2 == 0 else "mount"
        cfg = gen_config(rnd, kind, idx // 2)
        history, records, paging, routed = run_case(cfg, None, rnd, rnd.randint(3, maxlen))
        cases.append((cfg, history, records, paging))
        for k, seen in routed:
            route_obs.append((cfg, history, k, seen, len(cases) - 1))
    lines = [model_line(cfg, h) for cfg, h, _r, _p in cases]
    model = common.run_model_parallel(lines, chunk=400)
    # the path each mounted filesystem is handed: exactly Route.v's mount_delegate (member AND relative path),
    # nobody else is asked anything
    route_bad = None      # filled in below, once the model's records are split
    recs = [out.split(" ") if out else [] for out in model]
    items = [(cfg, h, k, recs[ci][k + 1] if k + 1 < len(recs[ci]) else "") for cfg, h, k, _s, ci in route_obs]
    expected, first = expected_routes(items)
    route_bad = [(cfg, h, k, seen, "%s -> %s" % (f, e)) for (cfg, h, k, seen, _ci), e, f in zip(route_obs, expected, first)
                 if sorted(seen) != e]
    calls = 0
    bad = []
    paging_bad = []
    dist = collections.Counter()
    changed = collections.Counter()
    kinds = collections.Counter()
    for (cfg, h, real, paging), out in zip(cases, model):
        exp = out.split(" ") if out else []
        calls += len(h)
        if cfg["kind"] == "multi":
            w = [m["write"] for m in cfg["members"]]
            kinds["multi/%d members/%s" % (len(w), "write" if any(w) else "no write member")] += 1
        else:
            kinds["mount/%d mount requests" % len(cfg["mounts"])] += 1
        for i, o in enumerate(h):
            r = real[i + 1]
            res = r.split("#", 1)[0]
            dist["%s/%s/%s" % (cfg["kind"], o[0], res if not res.startswith("ok") else "ok")] += 1
            if r.split("#", 1)[1] != real[i].split("#", 1)[1]:
                changed["%s/%s" % (cfg["kind"], o[0])] += 1
        k = first_diff(exp, real)
        if k is not None:
            bad.append((cfg, h, k, exp[k] if k < len(exp) else None, real[k] if k < len(real) else None))
        if paging:
            paging_bad.append((cfg, h, paging))
    seen = set()
    for cfg, h, k, e, g in bad:
        sig = (cfg["kind"], h[k - 1][0] if k > 0 else "init")
        if sig in seen or len(seen) >= 6:
            continue
        seen.add(sig)
        if os.environ.get("VERIF_DEBUG"):
            print("COMPOSITE-MISMATCH", sig, json.dumps(config_json(cfg)), [h_fs.op_json(o) for o in h[:k]],
                  "\n  model:", e, "\n  impl: ", g)
        report.violation(dict(kind="composite-differs-from-model", composite=cfg["kind"], config=config_json(cfg),
                              history=[h_fs.op_json(o) for o in h[:max(k, 0)]], step=k - 1, model=e, implementation=g,
                              theorem=THEOREM), no_input=True)
    for cfg, h, k, seen, exp in route_bad[:3]:
        if os.environ.get("VERIF_DEBUG"):
            print("ROUTE-MISMATCH", [m["path"] for m in cfg["mounts"]], h_fs.op_json(h[k]), seen, exp)
        report.violation(dict(kind="composite-differs-from-model", composite="mount", config=config_json(cfg),
                              history=[h_fs.op_json(o) for o in h[:k + 1]], step=k,
                              what="filesystem / relative path handed over by MountFS._delegate (for a scandir of a default-tree "
                                   "directory: plus getinfo('') of the filesystems mounted on its entries)",
                              model=exp, implementation=[list(x) for x in seen],
                              theorem=THEOREM + " mount_route_member"), no_input=True)
    for cfg, h, pg in paging_bad[:2]:
        report.violation(dict(kind="composite-differs-from-model", composite="multi", config=config_json(cfg),
                              history=[h_fs.op_json(o) for o in h], what="scandir(page=) is not a slice of the merged listing",
                              model="page_slice of the merged listing", implementation=pg[:3],
                              theorem=THEOREM + " multi_scandir_page_slice"), no_input=True)
    n_vm, vm_mism = (0, [])
    if not os.environ.get("COMPOSITE_DRIVER"):
        n_vm, vm_mism = common.vm_crosscheck(lines[:60], model[:60], "C17composite", limit=12)
        if vm_mism:
            report.violation(dict(kind="correspondence-broken", correspondence="vm_compute vs extracted composite models",
                                  detail=vm_mism, theorem=THEOREM), no_input=True)
    return dict(composite_histories=len(cases), composite_calls=calls, composite_mismatches=len(bad),
                composite_paging_mismatches=len(paging_bad), composite_routed_paths_checked=len(route_obs),
                composite_routed_path_mismatches=len(route_bad), composite_vm_crosschecked=n_vm,
                composite_configurations=dict(kinds), composite_state_changing_calls=dict(changed),
                composite_distribution=dict(dist),
                composite_rule="real MultiFS (1..3 MemoryFS members, equal / ascending / descending / random priorities, "
                               "no / one / several write flags) and MountFS (0..3 mounts incl. '/a' with '/ab', depth-2 "
                               "points, '/', refused and oddly spelt points; default_fs pre-populated) against "
                               "Route/Composite.v: outcome and EVERY member's storage tree after every call of a generated "
                               "history (all 26 calls, paths taken from the composite view and from single members, odd "
                               "spellings)")


def replay_composite(d):
    """Re-run a recorded mismatch: exit status 0 when model and implementation agree again."""
    import h_fs
    cfg = config_from_json(d["config"])
    history = [h_fs.op_from_json(o) for o in d["history"]]
    _h, real, paging, routed = run_case(cfg, history)
    out = common.run_model([model_line(cfg, history)])[0]
    exp = out.split(" ") if out else []
    k = first_diff(exp, real)
    expected, _first = expected_routes([(cfg, history, j, exp[j + 1] if j + 1 < len(exp) else "") for j, _s in routed])
    for (j, seen), e in zip(routed, expected):
        if sorted(seen) != e:
            print("call %d %s: MountFS handed %r, the model (mount_delegate / scan_mount_points) says %s" % (
                j, h_fs.op_json(history[j]), seen, e))
            return 1
    if k is None and not paging:
        print("composite %s: model and implementation agree on %d calls" % (cfg["kind"], len(history)))
        return 0
    if k is not None:
        print("composite %s differs at record %d (call %s)\n  model:          %s\n  implementation: %s" % (
            cfg["kind"], k, h_fs.op_json(history[k - 1]) if k > 0 else "init",
            exp[k] if k < len(exp) else None, real[k] if k < len(real) else None))
    if paging:
        print("scandir(page=) differs:", paging[:2])
    return 1


if __name__ == "__main__":
    # standalone: PYTHONPATH=/repo:/verif/harness PYTHONHASHSEED=0 /venv/bin/python -W ignore h_composite.py [seed] [tier]
    seed = int(sys.argv[1]) if len(sys.argv) > 1 else common.seed_from_env()
    tier_ = sys.argv[2] if len(sys.argv) > 2 else "quick"
    if os.environ.get("COMPOSITE_DRIVER"):
        common.DRIVER = os.environ["COMPOSITE_DRIVER"]
    rep = common.Report("C17", tier_, seed)
    if os.environ.get("COMPOSITE_DRIVER"):      # scratch runs: print mismatches, write no replay files
        def _v(payload, no_input=False):
            print("MISMATCH", json.dumps(payload, default=str)[:3000])
            rep.violations.append(("(scratch)", no_input))
        rep.violation = _v
    import time
    t0 = time.time()
    c = run_composite_checks(rep, random.Random(seed + 1700), tier_)
    c.pop("composite_distribution")
    print(json.dumps(c, indent=1, sort_keys=True))
    print("wall %.1fs" % (time.time() - t0))
    for path, no_input in rep.violations:
        print("VIOLATION property=C17 replay=%s%s" % (path, " no-failing-input-found" if no_input else ""))
    sys.exit(1 if rep.violations else 0)
