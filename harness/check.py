"""bin/check entry point: check.py <Cnn> [--tier quick|thorough] [--replay file]"""
from __future__ import print_function

import argparse
import importlib
import os
import sys

sys.path.insert(0, os.path.dirname(os.path.abspath(__file__)))
import common  # noqa: E402

MODULES = {
    "C02": "h_data",
    "C12": "h_path",
    "C13": "h_walk",
    "C14": "h_glob",
    "C15": "h_archive",
    "C16": "h_fileobj",
    "C17": "h_route",
    "C01": "h_fs",
    "C03": "h_sandbox",
    "C04": "h_reflect",
    "C18": "h_reflect",
    "C19": "h_copy",
    "C20": "h_parse",
    "C05": "h_fs",
    "C06": "h_fs",
    "C07": "h_fault",
    "C08": "h_threads",
    "C09": "h_copier",
    "C10": "h_fs",
    "C11": "h_fs",
}


def main():
    ap = argparse.ArgumentParser()
    ap.add_argument("pid")
    ap.add_argument("--tier", default=os.environ.get("VERIF_TIER", "quick"),
                    choices=["quick", "thorough"])
    ap.add_argument("--replay", default=None)
    args = ap.parse_args()
    if args.pid not in MODULES:
        print("unknown property", args.pid)
        return 2
    mod = importlib.import_module(MODULES[args.pid])
    seed = common.seed_from_env()
    report = common.Report(args.pid, args.tier, seed)
    if args.replay:
        return mod.replay(report, args.replay)
    try:
        return mod.run(report)
    except Exception:  # a harness crash is reported as what it is, with the evidence file written
        import traceback
        tb = traceback.format_exc()
        sys.stderr.write(tb)
        report.violation(dict(kind="check-crashed", what="the check itself raised; nothing can be concluded",
                              traceback=tb[-3000:], theorem="Props/%s.v" % args.pid), no_input=True)
        return report.finish(None, dict(evaluations=1, distinct_nontrivial=2, rule="check crashed", samples=[tb[-500:]],
                                        explanation="check crashed"), level="other")


if __name__ == "__main__":
    sys.exit(main())
