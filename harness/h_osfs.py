"""Correspondence of the OSFS model (coq/FS/Osfs.v over the kernel model coq/FS/Posix.v) with the real
fs.osfs.OSFS: every generated history is run step by step on a real OSFS over a scratch directory and on
the extracted model (`fs osfs <calls>`); after EVERY call the outcome (verdict, error class, returned value;
listings as sets because the kernel's directory order is unspecified) and the storage tree (snapshot of the
scratch directory through os.*) must be equal.

Times: the model renders the times it has.  Files: a time set explicitly (setinfo / a copy or rename that
keeps it) is `Si<z>` on both sides (fsops.canon_mt), anything written "now" is `N`; these ARE compared.
Directories: the real kernel bumps a directory's mtime whenever an entry is created or removed in it, the
kernel model does not track that, so directory times are stripped on both sides (tree and infos).

Besides the generated histories the check runs a systematic block (directed_histories: every call kind x every
status class of its path arguments x flags; every open mode, also the ones io.open refuses; time behaviour), a
vm_compute cross-check of the extracted model, and the kernel table: the raw answers of THIS kernel to ~420
system calls must be the ones recorded in coq/FS/OsfsProofs.v (`kernel_table_*`, proved of FS/Posix.v by vm_compute).

A failing directory merge (movedir / copydir) stops at an entry that depends on the kernel's directory order;
see order_dependent().

Entry points: run_osfs_model_check(report, histories, thorough) (called from h_fs.run_c01), replay(path),
and a command line for development: python h_osfs.py [--seeds 0,1,2] [--n 600] [--maxlen 12] [--directed quick|full]
[--replay f] [--emit-kernel-table] [--check-kernel-table FS/OsfsProofs.v]."""
from __future__ import print_function

import json
import os
import re
import subprocess
import sys
import time

import backends as B
import common
import fsops

CORRESPONDENCE = "real OSFS vs FS/Osfs.v (extracted)"
THEOREM = "FS/OsfsProofs.v"

_DIR_INFO_MT = re.compile(r"(\([^()|]*\|T\|[^()|]*\|)(?:N|Si-?\d+)\)")


def _driver():
    return os.environ.get("OSFS_MODEL_DRIVER") or common.DRIVER


def run_model(lines, chunk=500, procs=6):
    """Feed `fs osfs ...` lines to the extracted model."""
    def one(part):
        data = "\n".join(part) + "\n"
        p = subprocess.run([_driver()], input=data.encode("ascii"), stdout=subprocess.PIPE,
                           stderr=subprocess.PIPE)
        if p.returncode != 0:
            raise RuntimeError("model driver failed: %s" % p.stderr.decode("utf8", "replace")[-2000:])
        out = p.stdout.decode("latin-1").split("\n")
        if out and out[-1] == "":
            out.pop()
        if len(out) != len(part):
            raise RuntimeError("model driver returned %d lines for %d cases" % (len(out), len(part)))
        return out
    parts = [lines[i:i + chunk] for i in range(0, len(lines), chunk)]
    if len(parts) <= 1:
        return one(lines) if lines else []
    from concurrent.futures import ThreadPoolExecutor
    with ThreadPoolExecutor(max_workers=procs) as ex:
        outs = list(ex.map(one, parts))
    return [x for o in outs for x in o]


def norm_outcome(out):
    """Listings as sets; times of directory infos stripped, times of file infos kept."""
    import h_fs
    return _DIR_INFO_MT.sub(lambda m: m.group(1) + ")", h_fs.sort_listing(out))


def norm_tree(s):
    """Order-insensitive tree text: names, types, bytes and FILE times (directory times stripped)."""
    def go(t):
        if t[0] == "F":
            return "F" + t[1] + "@" + ("N" if t[2] is None else "S%d" % t[2])
        return "D{" + ";".join(n + ":" + go(c) for n, c in sorted(t[2], key=lambda x: x[0])) + "}"
    return go(fsops.parse_tree(s))


def run_real(h):
    """One history on a real OSFS over a fresh scratch directory: [(pre, outcome, post)]."""
    b = B.OS()
    steps = []
    try:
        fs = b.make()
        pre = b.snapshot()
        for o in h:
            out = fsops.execute(fs, o)
            try:
                post = b.snapshot()
            except Exception as e:          # noqa
                post = "SNAPFAIL:" + type(e).__name__
            steps.append((pre, out, post))
            if post.startswith("SNAPFAIL"):
                break
            pre = post
    finally:
        b.close()
    return steps


def compare_history(h, real, model_line):
    """First step at which the real OSFS and the model differ: (k, model_record, real_record) or None."""
    exp = model_line.split(" ") if model_line else []
    for k, (pre, out, post) in enumerate(real):
        if k >= len(exp):
            return k, None, out + "#" + post
        m_out, m_tree = exp[k].split("#", 1)
        if post.startswith("SNAPFAIL"):
            return k, exp[k], out + "#" + post
        if norm_outcome(m_out) != norm_outcome(out) or norm_tree(m_tree) != norm_tree(post):
            return k, exp[k], out + "#" + post
    return None


def real_agrees_with_reference(h, k, real):
    """Does the real OSFS agree with the reference (FS/Ref.v) at step k of history h?"""
    import h_fs
    pre, out, post = real[k]
    step = h_fs.Step("OSFS", 0, k, h[k], pre, out, post)
    ref = h_fs.ref_steps([step])[0]
    okr, okt = h_fs.agrees2(step, ref)
    return okr and okt, ref


SETUP = [("makedirs", "d/e", False), ("writebytes", "d/g", b"gg"), ("writebytes", "f", b"ff"),
         ("makedir", "m", False), ("writebytes", "h", b""), ("setinfo", "f", 5), ("setinfo", "d/g", 7),
         ("setinfo", "d", 9)]
# the status classes of a path argument: root, non-empty directory, empty directory, file, empty file,
# missing, below a file, missing parent, file in a sub-directory, nested directory, new name in a directory
CASES = ["/", "d", "m", "f", "h", "x", "f/x", "x/y", "d/g", "d/e", "d/new", "m/new", "f/x/y"]
IO_MODES = ["r", "r+", "w", "w+", "a", "a+", "x", "x+", "rb", "w+b",
            # refused by io.open, and since /repo af07be9 by fs.mode.Mode itself (before: ValueError from inside OSFS.openbin only)
            "rw", "rr", "rbb", "r++", "wa", "rx", "a+r", "xw", "wb+b"]


def directed_histories(full):
    """Systematic histories: a fixed tree, then ONE call - every call kind x every status class of its path
    argument(s) x every flag combination; every open mode x data x state of the file, each followed by
    getinfo (time behaviour of the kernel: O_TRUNC, empty writes, utime, rename and copy2 keeping times);
    the os.rename fast path of FS.move with every way it falls back; removetree over nested content."""
    hs = []
    one = ["getinfo", "listdir", "scandir", "readbytes", "touch", "remove", "removedir", "removetree", "exists",
           "isdir", "isfile", "isempty", "getsize", "gettype"]
    for c in CASES:
        for n in one:
            hs.append(SETUP + [(n, c), ("getinfo", c)])
        for fl in (False, True):
            hs.append(SETUP + [("makedir", c, fl), ("getinfo", c)])
            hs.append(SETUP + [("makedirs", c, fl)])
            hs.append(SETUP + [("create", c, fl), ("getinfo", c)])
        for d in (b"", b"xyz"):
            hs.append(SETUP + [("writebytes", c, d), ("getinfo", c)])
            hs.append(SETUP + [("appendbytes", c, d), ("getinfo", c)])
        for z in (None, 3):
            hs.append(SETUP + [("setinfo", c, z), ("getinfo", c), ("scandir", "/")])
    for c in (["f", "h", "x", "d", "/", "f/x", "x/y"] if full else ["f", "x", "d"]):
        for m in IO_MODES:
            for d in (b"", b"XY"):
                hs.append(SETUP + [("openwrite", c, m, d), ("getinfo", c), ("readbytes", c)])
            hs.append(SETUP + [("openread", c, m), ("getinfo", c)])
    k = 0
    for n in ("move", "copy", "movedir", "copydir"):
        for a in CASES:
            for b in CASES:
                for f1 in (False, True):
                    for f2 in (False, True):
                        k += 1
                        if full or k % 16 == 0 or (n in ("move", "copy") and a == "f"):
                            hs.append(SETUP + [(n, a, b, f1, f2), ("scandir", "/"), ("scandir", "d")])
    deep = [("makedirs", "t/u/v", False), ("writebytes", "t/1", b"1"), ("writebytes", "t/u/2", b"2"),
            ("writebytes", "t/u/v/3", b"3"), ("makedir", "t/w", False), ("writebytes", "z", b"z")]
    for c in ["t", "t/u", "t/u/v", "/", "t/1", "t/q", "./t/.", "t/u/../u",
              # a NUL cancelled by a back-reference: FS.removetree validates first since /repo b9cf049 (before,
              # it normalised first and "t\0/.." emptied the root): rejected with InvalidCharsInPath, nothing touched
              "t\0/..", "x\0/../t", "t/\0", "t\0"]:
        hs.append(deep + [("removetree", c), ("exists", "t")])
    return hs


# ------------------------------------------------------------------ the kernel model against this kernel
KT_CASES = [[], ["d"], ["m"], ["f"], ["h"], ["x"], ["f", "x"], ["x", "y"], ["d", "e", "z"], ["d", "e"], ["d", "new"],
            ["m", "new"], ["n"], ["d", "g"], ["f", "x", "y"]]
KT_MODES = ["r", "r+", "w", "w+", "a", "a+", "x", "x+"]
OSFS_PROOFS = os.path.join(common.COQ, "FS", "OsfsProofs.v")


def kernel_table():
    """What THIS machine's kernel answers for a table of raw system calls (os.mkdir / rmdir / remove / stat /
    listdir / io.open in eight modes / os.rename over all pairs) in a scratch directory holding d/{e/,g} f h m/ n/{k/}:
    [(table name, Coq function of one case, cases, [errno name | "ok#" + resulting tree])].  The same table is stated
    about the kernel model as `Example kernel_table_*` in FS/OsfsProofs.v (proved by vm_compute)."""
    import errno
    import io
    import shutil
    import tempfile
    d = tempfile.mkdtemp(prefix="pyfs2verif_kt_")
    root = os.path.join(d, "root")
    os.mkdir(root)

    def p(c):
        return os.path.join(root, *c) if c else root + "/"

    def reset():
        shutil.rmtree(root)
        os.mkdir(root)
        os.mkdir(p(["d"]))
        os.mkdir(p(["d", "e"]))
        for c, data in ((["d", "g"], b"gg"), (["f"], b"ff"), (["h"], b"hh")):
            with open(p(c), "wb") as fh:
                fh.write(data)
        os.mkdir(p(["m"]))
        os.mkdir(p(["n"]))
        os.mkdir(p(["n", "k"]))

    def run(f):
        reset()
        try:
            f()
            return "ok#" + B.snap_os(root)
        except OSError as e:
            return errno.errorcode[e.errno]

    def cstr(x):
        return "[" + ";".join(str(ord(ch)) for ch in x) + "]%N"

    tabs = []
    try:
        cs = KT_CASES
        tabs.append(("mkdir", "fun c => kshow (k_mkdir c kt0)", cs, [run(lambda c=c: os.mkdir(p(c))) for c in cs]))
        tabs.append(("rmdir", "fun c => kshow (k_rmdir c kt0)", cs[1:], [run(lambda c=c: os.rmdir(p(c))) for c in cs[1:]]))
        tabs.append(("unlink", "fun c => kshow (k_unlink c kt0)", cs, [run(lambda c=c: os.remove(p(c))) for c in cs]))
        tabs.append(("stat", "fun c => kshow (k_stat c kt0)", cs, [run(lambda c=c: os.stat(p(c))) for c in cs]))
        tabs.append(("listdir", "fun c => kshow (k_listdir c kt0)", cs, [run(lambda c=c: os.listdir(p(c))) for c in cs]))
        for m in KT_MODES:
            tabs.append(("open_" + m.replace("+", "p"), "fun c => kshow (k_open c %s kt0)" % cstr(m), cs,
                         [run(lambda c=c, m=m: io.open(p(c), m + "b").close()) for c in cs]))
        pairs = [(a, b) for a in cs for b in cs]
        tabs.append(("rename", "fun ab => kshow (k_rename (fst ab) (snd ab) kt0)", pairs,
                     [run(lambda a=a, b=b: os.rename(p(a), p(b))) for a, b in pairs]))
    finally:
        common.rm_rf(d)
    return tabs


def emit_kernel_table():
    """Coq text of the recorded table (the `kernel_table_*` examples of FS/OsfsProofs.v)."""
    def cstr(x):
        return "[" + ";".join(str(ord(ch)) for ch in x) + "]%N"

    def cpath(c):
        return "[" + ";".join(cstr(x) for x in c) + "]"
    out = []
    for name, call, args, exp in kernel_table():
        if name == "rename":
            argl = "[" + ";\n     ".join("(%s, %s)" % (cpath(a), cpath(b)) for a, b in args) + "]"
        else:
            argl = "[" + "; ".join(cpath(a) for a in args) + "]"
        expl = "[" + ";\n     ".join('lit "%s"' % e for e in exp) + "]"
        out.append("Example kernel_table_%s :\n  map (%s)\n    %s\n  = %s.\nProof. vm_compute. reflexivity. Qed.\n"
                   % (name, call, argl, expl))
    return "\n".join(out)


def check_kernel_table(path=None):
    """The answers of this kernel must be the ones recorded (and proved of the model) in FS/OsfsProofs.v:
    returns (number of cases, [(table, case, recorded, live)])."""
    path = path or OSFS_PROOFS
    if not os.path.exists(path):
        return 0, [("-", "-", "FS/OsfsProofs.v missing", "-")]
    src = open(path).read()
    bad = []
    n = 0
    for name, _call, args, exp in kernel_table():
        m = re.search(r"Example kernel_table_%s :(.*?)\nProof\." % re.escape(name), src, re.S)
        if not m:
            bad.append((name, "-", "no recorded table", "-"))
            continue
        rec = re.findall(r'lit "([^"]*)"', m.group(1).split("\n  = ", 1)[1])
        if len(rec) != len(exp):
            bad.append((name, "-", "%d recorded cases" % len(rec), "%d live cases" % len(exp)))
            continue
        for a, r, e in zip(args, rec, exp):
            n += 1
            if r != e:
                bad.append((name, a, r, e))
    return n, bad


def order_dependent(op, model_rec, real_rec, ref):
    """A directory merge (movedir / copydir) that fails half-way - a file/directory clash below the
    destination, or a merge into an ancestor - stops at an entry that depends on the order in which the
    kernel lists the source directory (unspecified; the model lists in creation order).  Both sides must
    fail with the same class and the reference must leave the resulting tree open (`ANY`); only the partial
    tree may differ.  Such a step ends the comparison of its history and is counted separately."""
    if op[0] not in ("movedir", "copydir") or model_rec is None:
        return False
    m_out, r_out = model_rec.split("#", 1)[0], real_rec.split("#", 1)[0]
    return m_out.startswith("err:") and m_out == r_out and ref.endswith("#ANY")


def check(histories):
    """Run all histories; returns (stats, mismatches) with mismatches = [(hist index, k, model, real)]."""
    import h_fs
    t0 = time.time()
    lines = [h_fs.hist_line("osfs", h) for h in histories]
    model = run_model(lines)
    t_model = time.time() - t0
    mism = []
    steps = 0
    kinds = {}
    explicit_times = 0
    for hi, h in enumerate(histories):
        real = run_real(h)
        steps += len(real)
        for (pre, out, post), o in zip(real, h):
            key = o[0] + "/" + (out.split(":")[0] if out.startswith("ok") else out)
            kinds[key] = kinds.get(key, 0) + 1
            explicit_times += post.count("@Si")
        bad = compare_history(h, real, model[hi])
        if bad is not None:
            mism.append((hi, bad[0], bad[1], bad[2], real))
    stats = dict(histories=len(histories), steps=steps, distinct_call_outcome_kinds=len(kinds),
                 explicit_file_times_compared=explicit_times,
                 model_s=round(t_model, 2), wall_s=round(time.time() - t0, 2))
    return stats, mism


def run_osfs_model_check(report, histories, thorough):
    """The OSFS model must match the real OSFS step by step (tie of FS/OsfsProofs.v).

    A mismatch is a broken correspondence unless the real OSFS also disagrees with the reference at that
    call (then it is a C01 divergence, which the main check reports anyway)."""
    import h_fs
    hs = (list(histories) if thorough else list(histories)[:400]) + directed_histories(thorough)
    stats, mism = check(hs)
    broken = []
    also_divergent = 0
    order_dep = 0
    for hi, k, m, r, real in mism:
        agrees, ref = real_agrees_with_reference(hs[hi], k, real)
        if not agrees:
            also_divergent += 1
            continue
        if order_dependent(hs[hi][k], m, r, ref):
            order_dep += 1
            continue
        broken.append((hi, k, m, r, ref))
    for hi, k, m, r, ref in broken[:3]:
        report.violation(dict(kind="correspondence-broken", correspondence=CORRESPONDENCE,
                              history=[h_fs.op_json(o) for o in hs[hi][:k + 1]],
                              model=m, implementation=r, reference=ref, theorem=THEOREM), no_input=True)
    # the extracted binary against Coq's own evaluation of the model on a sample of the histories
    import h_fs as _h
    sample = [_h.hist_line("osfs", h) for h in hs[:120] + hs[-120:]]
    n_vm, vm_mism = common.vm_crosscheck(sample, run_model(sample), "C01osfs", limit=40)
    if vm_mism:
        report.violation(dict(kind="correspondence-broken", correspondence=CORRESPONDENCE,
                              vm_compute_vs_extraction=vm_mism, theorem=THEOREM), no_input=True)
    stats.update(vm_compute_crosschecked=n_vm)
    kt_n, kt_bad = check_kernel_table()
    for name, case, rec, live in kt_bad[:3]:
        report.violation(dict(kind="correspondence-broken",
                              correspondence="this kernel vs FS/Posix.v (table recorded in FS/OsfsProofs.v kernel_table_%s)" % name,
                              case=case, model=rec, implementation=live, theorem=THEOREM), no_input=True)
    stats.update(kernel_table_cases=kt_n, kernel_table_mismatches=len(kt_bad))
    stats.update(model_fidelity_mismatches=len(broken), steps_where_osfs_itself_diverges_from_reference=also_divergent,
                 traces_validated_against_impl=len(hs) - len(mism),
                 order_dependent_partial_merges=order_dep,
                 rule="each history on a real OSFS over a scratch directory and on the extracted FS/Osfs.v model; "
                      "after every call: outcome (listings as sets), tree through os.*, file times set explicitly; "
                      "directory times are not compared")
    return stats


def replay(path):
    """Re-run the history of a correspondence-broken replay file; prints both sides per call."""
    import h_fs
    with open(path) as fh:
        d = json.load(fh)
    h = [h_fs.op_from_json(o) for o in d["history"]]
    real = run_real(h)
    model = run_model([h_fs.hist_line("osfs", h)])[0].split(" ")
    bad = 0
    for k, (pre, out, post) in enumerate(real):
        m = model[k] if k < len(model) else "?"
        same = k < len(model) and norm_outcome(m.split("#", 1)[0]) == norm_outcome(out) and \
            norm_tree(m.split("#", 1)[1]) == norm_tree(post)
        print("replay OSFS-model", h[k], "-> real:", out, post, "| model:", m, "| same:", same)
        bad += (not same)
        if not same:
            break
    return 1 if bad else 0


def main(argv):
    import argparse
    import h_fs
    ap = argparse.ArgumentParser()
    ap.add_argument("--seeds", default="0")
    ap.add_argument("--n", type=int, default=400)
    ap.add_argument("--maxlen", type=int, default=12)
    ap.add_argument("--replay")
    ap.add_argument("--show", type=int, default=5)
    ap.add_argument("--directed", choices=["quick", "full"])
    ap.add_argument("--emit-kernel-table", action="store_true")
    ap.add_argument("--check-kernel-table")
    a = ap.parse_args(argv)
    if a.replay:
        return replay(a.replay)
    if a.emit_kernel_table:
        print(emit_kernel_table())
        return 0
    if a.check_kernel_table:
        n, bad = check_kernel_table(a.check_kernel_table)
        print("kernel table:", n, "cases,", len(bad), "mismatches", bad[:5])
        return 1 if bad else 0
    rc = 0
    for seed in [int(x) for x in a.seeds.split(",")]:
        hs = h_fs.gen_histories(seed + 101, a.n, a.maxlen)
        if a.directed:
            hs = directed_histories(a.directed == "full")
        stats, mism = check(hs)
        n_div = 0
        shown = 0
        for hi, k, m, r, real in mism:
            agrees, ref = real_agrees_with_reference(hs[hi], k, real)
            if agrees and order_dependent(hs[hi][k], m, r, ref):
                n_div += 1
                print("order-dependent partial merge: seed", seed, "hist", hi, "step", k, h_fs.op_json(hs[hi][k]))
                continue
            if not agrees:
                n_div += 1
                print("OSFS-DIVERGES-FROM-REFERENCE seed", seed, "hist", hi, "step", k, h_fs.op_json(hs[hi][k]),
                      "pre:", real[k][0], "real:", r.split("#")[0], "ref:", ref[:120], "model:", (m or "")[:80])
                continue
            rc = 1
            if shown < a.show:
                shown += 1
                print("MISMATCH seed", seed, "hist", hi, "step", k)
                print("  history:", json.dumps([h_fs.op_json(o) for o in hs[hi][:k + 1]]))
                print("  model:", m)
                print("  real :", r)
        print("seed", seed, stats, "mismatches", len(mism) - n_div, "osfs-vs-reference divergences", n_div)
    return rc


if __name__ == "__main__":
    sys.path.insert(0, os.environ.get("PYFS2_VERIF_REPO", "/repo"))
    sys.exit(main(sys.argv[1:]))
