"""C08 -- the Coq model of fs/lrucache.py (Glob/LRU.v: lru_set / lru_get) against the real class.

Props/C08.v (Conc/LruConc.v) proves, for the LOCKED methods of LRUCache -- one atomic block
each, equal to lru_set / lru_get of Glob/LRU.v -- that no schedule of any number of threads
takes the cache over cache_size or duplicates a key, and that every complete run is
linearizable.  Those theorems say something about /repo only if lru_set / lru_get ARE what
`LRUCache.__setitem__` / `__getitem__` do.  This module checks exactly that, sequentially:

  * random operation sequences (`cache[k] = v`, `cache[k]` with KeyError when absent,
    `k in cache`, `len(cache)`) over a small key alphabet, cache_size 1..4, are run on the
    real `fs.lrucache.LRUCache`; after EVERY operation the result and `list(cache.items())`
    (the order is the recency order) are recorded;
  * one generated file work/cases_lru.v evaluates the same sequences with lru_set / lru_get
    inside Coq (`Eval vm_compute`) and compares every step; coqc prints the pair
    (agreeing, differing), the indices of the differing sequences and the model's trace of the
    first few of them.

No threads here: the thread scheduler lives in h_threads.py.

    run_lru_model_check(report, tier, seed) -> coverage dict
    /venv/bin/python harness/h_lru.py [quick|thorough] [seed]      prints the dict
"""
from __future__ import print_function

import os
import random
import re
import subprocess
import sys
import time

sys.path.insert(0, os.path.dirname(os.path.abspath(__file__)))
import common  # noqa: E402

THEOREM = "Props/C08.v (lru_locked_bound over Glob/LRU.v)"

KEYS = [u"a", u"b", u"c", u"d", u"e", u"ab", u""]
SIZES = (1, 2, 3, 4)
CHUNK = 500            # sequences per generated file
SHOW_MODEL = 5         # differing sequences whose model trace is printed by coqc


# --------------------------------------------------------------------------- generation

def gen_sequences(rnd, n, ops_per_seq=12):
    """[(size, [op, ...])] with op = ("set", k, v) | ("get", k) | ("in", k) | ("len",)."""
    seqs = []
    for _ in range(n):
        size = rnd.choice(SIZES)
        # a few more keys than the cache holds, so that both hits and evictions are common
        nkeys = min(len(KEYS), size + rnd.choice((1, 2, 3)))
        alphabet = rnd.sample(KEYS, nkeys)
        ops = []
        recent = []        # the last keys stored: likely (not certainly) still cached
        for _ in range(rnd.choice((ops_per_seq - 4, ops_per_seq, ops_per_seq, ops_per_seq + 4))):
            x = rnd.random()
            k = rnd.choice(alphabet)
            if x >= 0.45 and recent and rnd.random() < 0.6:
                k = rnd.choice(recent[-size:])
            if x < 0.45:
                ops.append(("set", k, rnd.randrange(100)))
                if k in recent:
                    recent.remove(k)
                recent.append(k)
            elif x < 0.80:
                ops.append(("get", k))
            elif x < 0.92:
                ops.append(("in", k))
            else:
                ops.append(("len",))
        seqs.append((size, ops))
    return seqs


# --------------------------------------------------------------------------- implementation

def run_real(size, ops, stats=None):
    """The trace of the real class: [(result, items)], result = ("none",) | ("val", v) |
    ("keyerror",) | ("bool", b) | ("len", n) | ("crash", text); items = [(key, value)]."""
    from fs.lrucache import LRUCache
    cache = LRUCache(size)
    trace = []
    for op in ops:
        before = list(cache.keys())
        try:
            if op[0] == "set":
                cache[op[1]] = op[2]
                res = ("none",)
            elif op[0] == "get":
                try:
                    res = ("val", cache[op[1]])
                except KeyError:
                    res = ("keyerror",)
            elif op[0] == "in":
                res = ("bool", op[1] in cache)
            else:
                res = ("len", len(cache))
        except Exception as e:  # noqa -- anything else is an observable difference
            res = ("crash", "%s: %s" % (type(e).__name__, e))
        items = list(cache.items())
        if stats is not None:
            after = [k for k, _ in items]
            stats[op[0]] = stats.get(op[0], 0) + 1
            if op[0] == "set" and op[1] not in before and len(before) >= size:
                stats["evictions"] = stats.get("evictions", 0) + 1
            if op[0] == "set" and op[1] in before:
                stats["overwrites_in_place"] = stats.get("overwrites_in_place", 0) + 1
            if op[0] == "get" and res[0] == "val":
                stats["hits"] = stats.get("hits", 0) + 1
                if after != before:
                    stats["hits_that_reorder"] = stats.get("hits_that_reorder", 0) + 1
            if res[0] == "keyerror":
                stats["keyerrors"] = stats.get("keyerrors", 0) + 1
            if len(items) > size:
                stats["over_capacity_states"] = stats.get("over_capacity_states", 0) + 1
        trace.append((res, items))
    return trace


# --------------------------------------------------------------------------- Coq terms

def c_key(k):
    return "[" + ";".join(str(ord(c)) for c in k) + "]"


def c_op(op):
    if op[0] == "set":
        return "S %s %d" % (c_key(op[1]), op[2])
    if op[0] == "get":
        return "G %s" % c_key(op[1])
    if op[0] == "in":
        return "I %s" % c_key(op[1])
    return "L"


def c_res(res):
    if res[0] == "none":
        return "Rn"
    if res[0] == "val":
        return "Rv %d" % res[1]
    if res[0] == "keyerror":
        return "Rk"
    if res[0] == "bool":
        return "Rb %s" % ("true" if res[1] else "false")
    if res[0] == "len":
        return "Rl %d" % res[1]
    return "Rc"        # a crash of the implementation: the model never answers this


def c_items(items):
    return "[" + ";".join("(%s,%d)" % (c_key(k), v) for k, v in items) + "]"


PRELUDE = """From Coq Require Import List NArith Bool.
Import ListNotations.
From PyFS Require Import Base.PyStr FS.Tree Glob.LRU.
Local Open Scope N_scope.
Inductive op := S (k : list N) (v : N) | G (k : list N) | I (k : list N) | L.
Inductive res := Rn | Rv (v : N) | Rk | Rb (b : bool) | Rl (n : N) | Rc.
Definition step (size : nat) (c : cache N) (o : op) : res * cache N :=
  match o with
  | S k v => (Rn, lru_set size c k v)
  | G k => match lru_get c k with Some (v, c') => (Rv v, c') | None => (Rk, c) end
  | I k => (Rb (match assoc k c with Some _ => true | None => false end), c)
  | L => (Rl (N.of_nat (length c)), c)
  end.
Fixpoint model (size : nat) (c : cache N) (os : list op) : list (res * cache N) :=
  match os with
  | [] => []
  | o :: r => let x := step size c o in x :: model size (snd x) r
  end.
Definition res_eqb (a b : res) : bool :=
  match a, b with
  | Rn, Rn => true | Rk, Rk => true
  | Rv x, Rv y => N.eqb x y | Rl x, Rl y => N.eqb x y
  | Rb x, Rb y => Bool.eqb x y
  | _, _ => false
  end.
Fixpoint cache_eqb (a b : cache N) : bool :=
  match a, b with
  | [], [] => true
  | (k, v) :: a', (k', v') :: b' => str_eqb k k' && N.eqb v v' && cache_eqb a' b'
  | _, _ => false
  end.
Fixpoint trace_eqb (a b : list (res * cache N)) : bool :=
  match a, b with
  | [], [] => true
  | (r, c) :: a', (r', c') :: b' => res_eqb r r' && cache_eqb c c' && trace_eqb a' b'
  | _, _ => false
  end.
Definition case : Type := (nat * list op * list (res * cache N))%type.
Definition ok (x : case) : bool := trace_eqb (model (fst (fst x)) [] (snd (fst x))) (snd x).
Fixpoint number {A} (n : N) (l : list A) : list (N * A) :=
  match l with [] => [] | x :: r => (n, x) :: number (n + 1) r end.
"""

EPILOGUE = """Definition bad : list (N * case) := filter (fun p => negb (ok (snd p))) (number 0 cases).
Eval vm_compute in (N.of_nat (length cases) - N.of_nat (length bad), N.of_nat (length bad)).
Eval vm_compute in (map fst bad).
Eval vm_compute in (map (fun p => (fst p, model (fst (fst (snd p))) [] (snd (fst (snd p)))))
                        (firstn %d bad)).
""" % SHOW_MODEL


def write_cases(vfile, seqs, traces):
    with open(vfile, "w") as fh:
        fh.write(PRELUDE)
        fh.write("Definition cases : list case := [\n")
        rows = []
        for (size, ops), trace in zip(seqs, traces):
            rows.append("(%d%%nat,[%s],[%s])" % (
                size, ";".join(c_op(o) for o in ops),
                ";".join("(%s,%s)" % (c_res(r), c_items(items)) for r, items in trace)))
        fh.write(";\n".join(rows))
        fh.write("].\n")
        fh.write(EPILOGUE)


def coq_compare(vfile):
    """(agree, differ, indices, model text of the first differing cases) or (None, output)."""
    p = subprocess.run(["timeout", "600", "coqc", "-Q", common.COQ, "PyFS", vfile], cwd=common.WORK,
                       stdout=subprocess.PIPE, stderr=subprocess.STDOUT, universal_newlines=True)
    for ext in (".vo", ".glob", ".vok", ".vos"):
        for path in (vfile[:-2] + ext,
                     os.path.join(os.path.dirname(vfile), "." + os.path.basename(vfile)[:-2] + ".aux")):
            try:
                os.remove(path)
            except OSError:
                pass
    out = p.stdout
    m = re.search(r"=\s*\((\d+)(?:%N)?,\s*(\d+)(?:%N)?\)\s*:\s*N \* N", out)
    if p.returncode != 0 or not m:
        return None, out
    agree, differ = int(m.group(1)), int(m.group(2))
    rest = out[m.end():]
    m2 = re.search(r"=\s*\[([^\]]*)\]\s*:\s*list N", rest)
    if not m2:
        return None, out
    idx = [int(x) for x in re.findall(r"\d+", m2.group(1))]
    if len(idx) != differ:
        return None, out
    model_text = rest[m2.end():].strip()
    return (agree, differ, idx, model_text), out


def split_model_text(text, idx):
    """The printed model traces, cut per differing case (best effort; the whole text otherwise)."""
    flat = " ".join(text.split())
    res = {}
    shown = idx[:SHOW_MODEL]
    for n, i in enumerate(shown):
        start = flat.find("(%d, [" % i) if n == 0 else flat.find("; (%d, [" % i)
        if start < 0:
            continue
        if n + 1 < len(shown):
            end = flat.find("; (%d, [" % shown[n + 1], start + 1)
        else:
            end = flat.rfind("]")
        res[i] = flat[start:end if end > 0 else None].lstrip("; ")[:4000]
    return res, flat


def show_ops(size, ops):
    def one(o):
        if o[0] == "set":
            return "cache[%r] = %d" % (str(o[1]), o[2])
        if o[0] == "get":
            return "cache[%r]" % str(o[1])
        if o[0] == "in":
            return "%r in cache" % str(o[1])
        return "len(cache)"
    return dict(cache_size=size, ops=[one(o) for o in ops])


def show_trace(trace):
    return [dict(result=list(r), items=[[str(k), v] for k, v in items]) for r, items in trace]


# --------------------------------------------------------------------------- the check

def run_lru_model_check(report, tier="quick", seed=0):
    t0 = time.time()
    rnd = random.Random(seed)
    n = 1500 if tier == "thorough" else 300
    seqs = gen_sequences(rnd, n)
    # fixed cases: the two situations of the unlocked race, run sequentially; in-place
    # overwrite; hit on the oldest; cache_size 1
    seqs += [
        (2, [("set", u"a", 1), ("set", u"b", 2), ("set", u"c", 3), ("set", u"d", 4), ("len",)]),
        (2, [("set", u"a", 1), ("set", u"c", 3), ("set", u"d", 4), ("in", u"a"), ("len",)]),
        (2, [("set", u"a", 1), ("set", u"b", 2), ("set", u"a", 9), ("set", u"c", 3), ("get", u"a")]),
        (3, [("set", u"a", 1), ("set", u"b", 2), ("set", u"c", 3), ("get", u"a"), ("set", u"d", 4),
             ("get", u"b"), ("get", u"a")]),
        (1, [("get", u""), ("set", u"", 0), ("get", u""), ("set", u"a", 1), ("in", u""), ("len",)]),
    ]
    stats = {}
    traces = [run_real(size, ops, stats) for size, ops in seqs]
    os.makedirs(common.WORK, exist_ok=True)
    # a run against a scratch copy of /repo (seeded changes) must not collide with a run
    # against the real tree
    tag = "" if common.REPO == "/repo" else "_%d" % os.getpid()
    files, agree, differ, coqc_s = [], 0, 0, 0.0
    reported = 0
    broken = None
    for start in range(0, len(seqs), CHUNK):
        name = "cases_lru%s%s.v" % (tag, "" if start == 0 else "_%d" % (start // CHUNK))
        vfile = os.path.join(common.WORK, name)
        write_cases(vfile, seqs[start:start + CHUNK], traces[start:start + CHUNK])
        files.append(vfile)
        t1 = time.time()
        parsed, out = coq_compare(vfile)
        coqc_s += time.time() - t1
        if parsed is None:
            broken = out[-1500:]
            report.violation(dict(kind="correspondence-broken",
                                  what="coqc failed on %s: %s" % (vfile, broken)), no_input=True)
            break
        a, d, idx, model_text = parsed
        agree += a
        differ += d
        per_case, flat = split_model_text(model_text, idx)
        for i in idx:
            if reported >= 10:
                break
            size, ops = seqs[start + i]
            report.violation(dict(
                kind="lru-model-differs-from-implementation",
                sequence=show_ops(size, ops),
                implementation=show_trace(traces[start + i]),
                model=per_case.get(i, "(trace not printed: only the first %d differing sequences "
                                      "of a file are; re-run %s)" % (SHOW_MODEL, vfile)),
                case_file=vfile, case_index=i,
                theorem=THEOREM))
            reported += 1
        if tag and not d:      # scratch run: keep the file only when a violation points at it
            try:
                os.remove(vfile)
            except OSError:
                pass
    cov = dict(
        what="fs.lrucache.LRUCache vs Glob/LRU.v (lru_set / lru_get, vm_compute): result of every "
             "operation and list(cache.items()) after every operation",
        sequences=len(seqs), operations=sum(len(o) for _, o in seqs),
        cache_sizes=sorted(set(s for s, _ in seqs)),
        key_alphabet=[str(k) for k in KEYS],
        op_counts=dict((k, stats.get(k, 0)) for k in ("set", "get", "in", "len")),
        evictions=stats.get("evictions", 0),
        overwrites_in_place=stats.get("overwrites_in_place", 0),
        hits=stats.get("hits", 0), hits_that_reorder=stats.get("hits_that_reorder", 0),
        keyerrors=stats.get("keyerrors", 0),
        implementation_states_over_capacity=stats.get("over_capacity_states", 0),
        agreeing=agree, differing=differ, compared_in_coq=agree + differ,
        coq_files=[f for f in files if os.path.exists(f)], coqc_ok=broken is None,
        coqc_wall_s=round(coqc_s, 2), wall_s=round(time.time() - t0, 2),
        theorem=THEOREM)
    return cov


class _PrintReport(object):
    """Stand-alone use: violations are printed, nothing is written."""

    def __init__(self):
        self.violations = []

    def violation(self, payload, no_input=False):
        self.violations.append((payload, no_input))
        return None


if __name__ == "__main__":
    import json
    _tier = sys.argv[1] if len(sys.argv) > 1 else "quick"
    _seed = int(sys.argv[2]) if len(sys.argv) > 2 else common.seed_from_env()
    _rep = _PrintReport()
    _cov = run_lru_model_check(_rep, _tier, _seed)
    print(json.dumps(_cov, indent=1, sort_keys=True))
    for _payload, _no_input in _rep.violations[:3]:
        print("VIOLATION%s %s" % (" (no failing input)" if _no_input else "",
                                  json.dumps(_payload, indent=1, sort_keys=True, default=str)[:3000]))
    if _rep.violations:
        print("%d violation(s)" % len(_rep.violations))
    sys.exit(1 if _rep.violations else 0)
