"""C15 -- Zip and Tar archives round-trip any tree; hostile member names stay inside.

Two families of cases, all driven against the real code in /repo:

round trips   a generated tree (unicode / combining / metacharacter names, empty
              directories, empty and large files, depth <= 6, explicit modification times
              >= 1980 on every file and directory) is built on a MemoryFS (the reference),
              written through
                  route 'fs'        ZipFS(target, write=True, ...) / TarFS(target, write=True, ...)
                  route 'compress'  fs.compress.write_zip / write_tar directly
              for every format {zip stored, zip deflated, tar, tar.gz, tar.bz2, tar.xz}
              x temp_fs / source backend {default TempFS, 'mem://'} x target {file path,
              io.BytesIO}; the archive is reopened read-only and compared with the reference
              in both directions through walk + getinfo + readbytes + openbin + listdir.

time bounds   per archive family, one tree whose files and directories carry every boundary
              modification time the format can hold (tar: 0, +-1, before 1970, 2**31-1, 2**31,
              2**32, 2**33-1 / 2**33 (the end of the octal ustar field), sub-second parts;
              zip: 1980-01-01T00:00:00 .. 2107-12-31T23:59:59, even / odd / fractional seconds),
              through every format x temp_fs x target x route of that family, plus random
              trees drawn from the family's own time range.

keywords      every keyword parameter (found with inspect.signature) of ZipFS / TarFS (write
              and read mode), WriteZipFS / WriteTarFS, ReadZipFS / ReadTarFS, their
              write_zip / write_tar methods, fs.compress.write_zip / write_tar and
              open_fs('zip://...' / 'tar://...') is driven through each of its documented
              values, one parameter at a time (all combinations in the thorough tier), on a
              tree of non-ASCII, long (> 100 characters, path > 255 characters, component
              > 255 characters on memory temp filesystems) and odd names.  Expected: the
              same tree whenever every name is encodable in the requested `encoding`;
              with a name the encoding cannot express, either the same tree or an
              exception while writing (never a silently different tree).  The compression
              actually found in the archive must be the requested one (tar: also the one
              implied by the file name, as the TarFS documentation promises).

crafted       archives built with zipfile / tarfile whose member names are hostile or
              odd ('..', absolute, 'a/../b', duplicates, implicit directories, file and
              directory of the same name, file used as a directory, ...), opened with
              ReadZipFS / ReadTarFS inside a canary directory.

Expected modification time after a round trip (t = the number given to setinfo):
  tar   floor(t)        write_tar stores int(st_mtime) (stat sources) or
                        datetime_to_epoch(info.modified) (other sources); ReadTarFS returns
                        TarInfo.mtime.
  zip   e - e % 2 with e = floor(t)
                        DOS time has 2-second resolution (zipfile stores second // 2).
                        write_zip takes the broken-down time from time.localtime(st_mtime)
                        when the source has a 'stat' namespace (OSFS / TempFS, also for the
                        default temp_fs of WriteZipFS) and from the *UTC* datetime
                        info.modified otherwise (MemoryFS); ReadZipFS converts the stored
                        fields back with datetime_to_epoch(datetime(*date_time)), i.e. reads
                        them as UTC.  The two conventions agree exactly when the process
                        runs in UTC.  The harness always expects the true epoch value at
                        2-second resolution; cases run under a non-UTC zone ('tz' field) show
                        the stat route shifting times by the zone's UTC offset.
"""
from __future__ import print_function

import io
import json
import os
import random
import shutil
import sys
import tarfile
import tempfile
import time
import warnings
import zipfile

import common

PID = "C15"

# TODO(main): signatures of misbehaviour of the UNCHANGED library exposed by the coverage of this
# module that are not yet in known_findings.json.  A failure whose signature is listed here does
# not fail the check (it is counted in coverage['pending_findings_seen']); once the signature is
# registered as a known finding it prints as KNOWN-FINDING and can be dropped from this list.
# NOT findings of property C15 (decided by the framework owner): C15 is about the TREE that comes back (paths, types,
# bytes, sizes, times); which compression method the members carry is not part of it.  The two observations below are
# real defects of the library (the `compression` argument is ignored for memory-backed sources; ZIP_STORED (0) is
# treated as "not given" by WriteZipFS.write_zip), recorded in DESIGN.md 9.5 as "observed, not covered by a property";
# they are counted in the evidence and never fail this check.
PENDING_FINDINGS = [
    # ZipFS(f, write=True, compression=ZIP_DEFLATED|ZIP_BZIP2|ZIP_LZMA, temp_fs='mem://') and
    # fs.compress.write_zip(MemoryFS, f, compression=...): every file is ZIP_STORED.  write_zip passes a fresh
    # zipfile.ZipInfo (compress_type ZIP_STORED) to ZipFile.writestr for sources without a syspath.
    "keywords zip: files are stored uncompressed although a compression was requested [memory source]",
    # WriteZipFS.write_zip(file, compression=zipfile.ZIP_STORED) on a ZipFS created with the default
    # ZIP_DEFLATED writes deflated members: `compression or self.compression` treats ZIP_STORED (0) as "not given".
    "keywords zip: files are compressed with another method than the requested one [method, host source]",
    # (the ReadTarFS first-use race found by the threaded first-use rounds was repaired in /repo fa519e7: a violation again
    #  if it returns)
]
LOCAL_KNOWN = os.path.join(os.path.dirname(os.path.abspath(__file__)), "c15_known_local.json")

T1980 = 315532800           # 1980-01-01T00:00:00Z, the DOS epoch

NAMES = [
    u"a", u"b.txt", u"c", u"d.d", u"A",                       # plain (and a case pair)
    u"\u00e9", u"e\u0301",                                   # NFC / NFD spelling of the same glyph
    u"u\u0308\u0323x", u"\u65e5\u672c\u8a9e", u"\U0001F600.bin", u"\u0645\u0644\u0641",
    u" sp ace ", u" ", u"-rf", u"--", u"-",                  # spaces, leading dashes
    u"*", u"?[x]", u"a;b&c|d", u"$(x)`y`", u"'q\"", u"{}", u"%41%2f", u"a:b", u"~",
    u"back\\slash", u"..\\up", u"tab\there", u"new\nline",    # metacharacters
    u"...", u"..a", u"a..", u".hidden", u"a.",                 # dot names that are not '.'/'..'
    u"x" * 101, u"\u00fc" * 60,                               # > 100 bytes (tar long names)
]

FORMATS = ["zip-stored", "zip-deflated", "tar", "tar.gz", "tar.bz2", "tar.xz"]
TEMPS = ["default", "mem"]
TARGETS = ["path", "bytesio"]
ROUTES = ["fs", "compress"]
ALT_TZ = "Etc/GMT-5"        # UTC+5, no DST


def family(fmt):
    return "zip" if fmt.startswith("zip") else "tar"


# --------------------------------------------------------------------------- trees

def content(size, seed):
    if size == 0:
        return b""
    if seed % 3 == 0:
        return (bytes(bytearray([seed % 251, (seed * 7) % 256])) * (size // 2 + 1))[:size]
    return random.Random(seed).getrandbits(8 * size).to_bytes(size, "little")


def gen_mtime(rnd):
    r = rnd.random()
    if r < 0.25:
        t = rnd.choice([T1980, T1980 + 1, T1980 + 2, T1980 + 59, T1980 + 86399, 2 ** 31 - 1, 2 ** 31,
                        2 ** 31 + 1, 4102444799, 4102444798, 951782400 + 43199, 1000000000 + 1])
    elif r < 0.65:
        t = 1000000000 + rnd.randint(0, 2000)
    else:
        t = rnd.randint(T1980, 4102444799)
    if rnd.random() < 0.15:
        t += rnd.choice([0.5, 0.25, 0.999])
    return t


# Boundary modification times per archive family (seconds since the epoch).
#   tar  the ustar header holds 11 octal digits (< 2**33), larger and negative values need a pax
#        record / GNU base-256 field; 2**31 is where 32-bit time_t ends; 0 is the epoch itself
#        (reproducible builds, `tar --mtime=@0`).  Values the scratch file system of the host cannot
#        hold (ext4 stops at 2**34 + 2**31 - 1 ... ) are only used with memory temp filesystems.
#   zip  DOS date/time: 1980-01-01T00:00:00 .. 2107-12-31T23:59:58, two-second resolution.
T2107_LAST = 4354819199     # 2107-12-31T23:59:59Z
TAR_TIMES = [0, 1, 2, -1, -2 ** 31, 0.5, 0.999, T1980 - 1, 2 ** 31 - 1, 2 ** 31, 2 ** 31 + 0.75, 2 ** 32 - 1, 2 ** 32,
             2 ** 33 - 1, 2 ** 33, 2 ** 33 + 1.25]
TAR_TIMES_MEM = [2 ** 36 + 0.5, 253402300799, -62135596800]      # year 9999 / year 1: datetime's own range
ZIP_TIMES = [T1980, T1980 + 1, T1980 + 2, T1980 + 3, T1980 + 1.5, T1980 + 0.25, T1980 + 59, T1980 + 60, T1980 + 86399,
             T1980 + 86400, 2 ** 31 - 1, 2 ** 31, 2 ** 31 + 0.75, 2 ** 32 - 1, 2 ** 32, T2107_LAST - 1, T2107_LAST,
             T2107_LAST - 0.5, T2107_LAST - 2]


def time_tree(times):
    """Every time on a file, on an empty directory and on a directory with a child."""
    nodes = []
    for i, t in enumerate(times):
        nodes.append(dict(n=u"f%d" % i, t=t, size=i % 3, seed=i))
        if i % 2:
            nodes.append(dict(n=u"d%d" % i, t=t, d=[]))
        else:
            nodes.append(dict(n=u"d%d" % i, t=t, d=[dict(n=u"c", t=times[(i + 1) % len(times)], size=1, seed=i)]))
    return nodes


def gen_mtime_tar(rnd):
    r = rnd.random()
    if r < 0.4:
        t = rnd.choice(TAR_TIMES)
    elif r < 0.6:
        t = rnd.randint(-5, 5)
    elif r < 0.8:
        t = rnd.randint(-2 ** 31, 2 ** 33 + 1000)
    else:
        t = rnd.randint(0, T1980)
    if t >= 0 and t == int(t) and rnd.random() < 0.15:
        t += rnd.choice([0.5, 0.25, 0.999])
    return t


def gen_tree(rnd, budget, big=None, depth=0, maxdepth=6, gen_mtime=None):
    """A list of nodes; budget is a one-element list (remaining node count)."""
    gen_mtime = gen_mtime or globals()["gen_mtime"]
    nodes = []
    k = rnd.randint(0 if depth else 1, 4)
    for name in rnd.sample(NAMES, k):
        if budget[0] <= 0:
            break
        budget[0] -= 1
        if depth + 1 < maxdepth and rnd.random() < 0.45:
            nodes.append(dict(n=name, t=gen_mtime(rnd), d=gen_tree(rnd, budget, big, depth + 1, maxdepth, gen_mtime)))
        else:
            size = rnd.choice([0, 0, 1, 2, 17, 255, 4096, 65537] if big is None else [0, 1, 300, 70000, big])
            nodes.append(dict(n=name, t=gen_mtime(rnd), size=size, seed=rnd.randint(0, 999)))
    return nodes


def chain_tree(rnd, depth):
    """A single chain of directories down to `depth`, a file and an empty directory at the bottom."""
    names = rnd.sample(NAMES, depth + 1)
    node = [dict(n=names[-1], t=gen_mtime(rnd), size=3, seed=5), dict(n=names[-2], t=gen_mtime(rnd), d=[])]
    for nm in names[:depth - 1]:
        node = [dict(n=nm, t=gen_mtime(rnd), d=node)]
    return node


def count_nodes(nodes):
    return sum(1 + (count_nodes(x["d"]) if "d" in x else 0) for x in nodes)


def tree_depth(nodes):
    return 0 if not nodes else 1 + max(tree_depth(x["d"]) if "d" in x else 0 for x in nodes)


def build_tree(fs, nodes, base=u"/"):
    for nd in nodes:
        p = base.rstrip(u"/") + u"/" + nd["n"]
        if "d" in nd:
            fs.makedir(p)
            build_tree(fs, nd["d"], p)
        else:
            fs.writebytes(p, content(nd["size"], nd["seed"]))


def set_times(fs, nodes, base=u"/"):
    for nd in nodes:
        p = base.rstrip(u"/") + u"/" + nd["n"]
        if "d" in nd:
            set_times(fs, nd["d"], p)
        fs.setinfo(p, {"details": {"modified": nd["t"]}})


def expected_of(ref):
    """path -> dict(is_dir, data, t) read back from the reference MemoryFS."""
    exp = {}
    for path, info in ref.walk.info(namespaces=["details"]):
        exp[path] = dict(is_dir=info.is_dir, data=None if info.is_dir else ref.readbytes(path),
                         t=info.raw["details"]["modified"])
    return exp


def expected_mtime(fmt, t):
    e = int(t // 1)
    return e - e % 2 if family(fmt) == "zip" else e


# --------------------------------------------------------------------------- round trip

class TZ(object):
    def __init__(self, tz):
        self.tz = tz

    def __enter__(self):
        if self.tz:
            self.old = os.environ.get("TZ")
            os.environ["TZ"] = self.tz
            time.tzset()

    def __exit__(self, *a):
        if self.tz:
            if self.old is None:
                os.environ.pop("TZ", None)
            else:
                os.environ["TZ"] = self.old
            time.tzset()


def local_offset():
    """Current UTC offset (seconds east) of the process' zone for a mid-range date."""
    lt = time.localtime(1000000000)
    return lt.tm_gmtoff or 0


def write_archive(ref, tree, fmt, temp, target, route, workdir):
    """Write the reference tree; returns something ReadZipFS/ReadTarFS can open."""
    from fs.zipfs import ZipFS
    from fs.tarfs import TarFS
    from fs.tempfs import TempFS
    from fs import compress
    fam = family(fmt)
    if fam == "zip":
        comp = zipfile.ZIP_STORED if fmt == "zip-stored" else zipfile.ZIP_DEFLATED
        ext = ".zip"
    else:
        comp = {"tar": None, "tar.gz": "gz", "tar.bz2": "bz2", "tar.xz": "xz"}[fmt]
        ext = "." + fmt
    if target == "path":
        tgt = os.path.join(workdir, u"out" + ext)
        if os.path.exists(tgt):
            os.remove(tgt)
    else:
        tgt = io.BytesIO()
    if route == "fs":
        kw = {}
        if temp == "mem":
            kw["temp_fs"] = "mem://"
        if fam == "zip":
            w = ZipFS(tgt, write=True, compression=comp, **kw)
        elif target == "path":
            w = TarFS(tgt, write=True, **kw)            # compression inferred from the file name
        else:
            w = TarFS(tgt, write=True, compression=comp, **kw)
        try:
            build_tree(w, tree)
            set_times(w, tree)
        finally:
            w.close()
    else:
        if temp == "mem":
            src, own = ref, False
        else:
            src, own = TempFS(), True
            build_tree(src, tree)
            set_times(src, tree)
        try:
            if fam == "zip":
                compress.write_zip(src, tgt, compression=comp)
            else:
                compress.write_tar(src, tgt, compression=comp)
        finally:
            if own:
                src.close()
    if target == "bytesio":
        tgt.seek(0)
    return tgt


def compare(ro, exp, fmt):
    """Both-direction comparison of a read-only archive fs with the expectation."""
    fails = []

    def bad(kind, path, detail=None):
        fails.append(dict(kind=kind, path=path, detail=detail))

    try:
        got = {}
        for path, info in ro.walk.info(namespaces=["details"]):
            if path in got:
                bad("duplicate", path)
            got[path] = info.is_dir
    except Exception as e:  # noqa
        bad("exception", "/", "walk: " + common.exc_name(e))
        return fails
    for p in sorted(set(exp) - set(got)):
        bad("missing", p)
    for p in sorted(set(got) - set(exp)):
        bad("extra", p)
    children = {"/": set()}
    for p in exp:
        if exp[p]["is_dir"]:
            children.setdefault(p, set())
    for p in exp:
        par = p.rsplit("/", 1)[0] or "/"
        children.setdefault(par, set()).add(p.rsplit("/", 1)[1])
    for p in sorted(exp):
        e = exp[p]
        if p not in got:
            continue
        try:
            info = ro.getinfo(p, ["details"])
            if info.is_dir != e["is_dir"] or got[p] != e["is_dir"] or ro.isdir(p) != e["is_dir"] \
                    or (ro.isfile(p) == e["is_dir"] and not e.get("special")) or not ro.exists(p):
                bad("type", p, dict(getinfo=info.is_dir, walk=got[p]))
                continue
            if info.name != p.rsplit("/", 1)[1]:
                bad("name", p, info.name)
            m = info.raw.get("details", {}).get("modified")
            want = expected_mtime(fmt, e["t"])
            if m != want:
                bad("mtime", p, dict(got=m, want=want, diff=None if m is None else m - want, dir=e["is_dir"]))
            if e.get("rtype") in (1, 2) and info.raw.get("details", {}).get("type") != e["rtype"]:
                # what the source presented as a regular file / directory comes back as one
                bad("type", p, dict(resource_type=info.raw.get("details", {}).get("type"), want=e["rtype"]))
                continue
            if e["is_dir"]:
                names = ro.listdir(p)
                if sorted(names) != sorted(children[p]):
                    bad("listdir", p, dict(got=sorted(names), want=sorted(children[p])))
            elif e.get("special"):
                pass            # a FIFO of the source: listed under its name, not as a directory; no bytes to compare
            else:
                if info.size != len(e["data"]):
                    bad("size", p, dict(got=info.size, want=len(e["data"])))
                data = ro.readbytes(p)
                if data != e["data"]:
                    bad("bytes", p, dict(got_len=len(data), want_len=len(e["data"])))
                with ro.openbin(p) as fh:
                    head = fh.read(10)
                    rest = fh.read()
                if head + rest != e["data"]:
                    bad("bytes", p, dict(via="openbin", got_len=len(head + rest), want_len=len(e["data"])))
        except Exception as ex:  # noqa
            bad("exception", p, common.exc_name(ex) + ": " + str(ex)[:120])
    try:
        names = ro.listdir("/")
        if sorted(names) != sorted(children["/"]):
            bad("listdir", "/", dict(got=sorted(names), want=sorted(children["/"])))
    except Exception as ex:  # noqa
        bad("exception", "/", "listdir: " + common.exc_name(ex))
    return fails


def run_roundtrip(case, workdir):
    """case: dict(tree, fmt, temp, target, route, tz). Returns list of failure dicts."""
    from fs.memoryfs import MemoryFS
    from fs.zipfs import ZipFS
    from fs.tarfs import TarFS
    if case.get("host"):
        return run_host(case, workdir)
    ref = MemoryFS()
    build_tree(ref, case["tree"])
    set_times(ref, case["tree"])
    exp = expected_of(ref)
    # the reference itself must be what the generator asked for
    assert len(exp) == count_nodes(case["tree"])
    if case.get("kw"):
        try:
            fails = run_kw(case, ref, exp, workdir)
        finally:
            ref.close()
        for f in fails:
            f["utc_offset"] = local_offset()
        return fails
    with TZ(case.get("tz")):
        try:
            tgt = write_archive(ref, case["tree"], case["fmt"], case["temp"], case["target"], case["route"], workdir)
        except Exception as e:  # noqa
            ref.close()
            return [dict(kind="exception", path="<write>", detail=common.exc_name(e) + ": " + str(e)[:200])]
        try:
            ro = ZipFS(tgt) if family(case["fmt"]) == "zip" else TarFS(tgt)
        except Exception as e:  # noqa
            ref.close()
            return [dict(kind="exception", path="<open>", detail=common.exc_name(e) + ": " + str(e)[:200])]
        try:
            fails = compare(ro, exp, case["fmt"])
            off = local_offset()
        finally:
            ro.close()
            ref.close()
    for f in fails:
        f["utc_offset"] = off
    return fails


def roundtrip_signature(case, fails):
    """One signature per case: the most fundamental discrepancy wins."""
    fam = family(case["fmt"])
    if case.get("host"):
        plain = dict(case)
        plain.pop("host")
        return "host tree " + roundtrip_signature(plain, fails)
    if case.get("kw"):
        # keyword cases: "<family> <callable>(<parameters given>)"; the compression verdict does not depend
        # on which parameter was swept
        kw = case["kw"]
        if all(f["kind"] == "compression" for f in fails):
            d = fails[0]["detail"]
            src = "memory" if kw["args"].get("temp_fs", kw["base_temp"]) in MEM_TEMPS else "host"
            if fam == "tar":
                return "keywords tar: archive compression differs from the one requested or implied by the file " \
                       "name [%s]" % fails[0]["archive"]
            if d["got"] == [zipfile.ZIP_STORED]:
                return "keywords zip: files are stored uncompressed although a compression was requested " \
                       "[%s source]" % src
            return "keywords zip: files are compressed with another method than the requested one [%s, %s source]" % (
                fails[0]["archive"], src)
        fails = [f for f in fails if f["kind"] != "compression"]
        given = sorted(kw["args"]) + ["read:" + k for k in sorted(kw["read_args"]) if k not in kw["args"]]
        fam = "%s %s(%s)" % (fam, kw["api"], ",".join(given))
        if kw["lenient"]:
            fam += " names outside the encoding"
    kinds = set(f["kind"] for f in fails)
    for k in ("exception", "missing", "extra", "duplicate", "type", "name", "bytes", "size", "listdir"):
        if k in kinds:
            f0 = [f for f in fails if f["kind"] == k][0]
            extra = ""
            if k == "exception":
                # detail is "<op>: err:Class..." for walk/listdir, "err:Class: message" otherwise
                text = str(f0["detail"])
                words = [w for w in text.replace(": ", " ").split(" ") if w.startswith(("err:", "crash:"))]
                extra = " " + (words[0].rstrip(":") if words else "unknown")
                extra += " at " + ("write" if f0["path"] == "<write>" else "open" if f0["path"] == "<open>" else "read")
            return "%s %s: %s%s" % ("keywords" if case.get("kw") else "roundtrip", fam, k, extra)
    mt = [f for f in fails if f["kind"] == "mtime"]
    off = mt[0]["utc_offset"]
    stat_route = case.get("temp") == "default"
    if case.get("kw"):
        return "keywords %s: mtime %s" % (fam, "missing" if all(f["detail"]["got"] is None for f in mt) else "wrong")
    if fam == "zip" and off and stat_route and all(f["detail"]["diff"] is not None and
                                                   abs(f["detail"]["diff"] - off) <= 2 for f in mt):
        return ("roundtrip zip: mtime shifted by the local UTC offset (stat sources are written in "
                "local time, ReadZipFS reads UTC)")
    if all(f["detail"]["got"] is None for f in mt):
        return "roundtrip %s: mtime missing%s" % (fam, " on directories" if all(f["detail"]["dir"] for f in mt) else "")
    return "roundtrip %s: mtime wrong%s" % (fam, " on directories" if all(f["detail"]["dir"] for f in mt) else "")



# --------------------------------------------------------------------------- trees of a real directory
# Source trees that live on the host file system (OSFS / TempFS / SubFS of them / the temp_fs of a write-mode
# ZipFS / TarFS, filled through its syspath) and contain what a real directory can contain next to plain files and
# directories: several names hard-linked to one file, symbolic links to files and to directories (relative, absolute,
# chained, non-normalised, to targets outside the tree, dangling), files and directories with unusual permission bits,
# FIFOs.  The expectation is never derived from the writers: it is what the SOURCE filesystem itself presents through
# listdir / getinfo / readbytes (a hard link is one more file with the same bytes; OSFS follows symbolic links, so a
# link to a file is a file with the target's bytes and a link to a directory is a directory with the target's children;
# a dangling link is listed but getinfo fails).

HOST_COMPRESS_SOURCES = ["OSFS", "TempFS", "SubFS(OSFS)", "SubFS(TempFS)", "read_only(OSFS)"]
HOST_FS_TEMPS = ["default temp_fs", "temp_fs=OSFS instance", "temp_fs='temp://'"]
HOST_TIMEOUT = 20.0
HOST_STATS = {}


def _hs(key, n=1):
    HOST_STATS[key] = HOST_STATS.get(key, 0) + n


def _f(n, size, seed, t=None, mode=None):
    nd = dict(n=n, t=1000000000 + 2 * seed if t is None else t, size=size, seed=seed)
    if mode is not None:
        nd["mode"] = mode
    return nd


def _d(n, children, t=1000000100, mode=None):
    nd = dict(n=n, t=t, d=children)
    if mode is not None:
        nd["mode"] = mode
    return nd


def host_layouts():
    """name -> (tree, links).  links: dict(k='hard'|'sym'|'fifo', p=<tree path of the new name>, to=<tree path>,
    how='rel'|'abs'|'raw', raw=<target text; '{outside}' = a directory next to the tree, '{root}' = the tree's root>)."""
    root_only = os.geteuid() == 0        # modes that take the read permission away from the owner
    lay = {}
    lay["hard links"] = (
        [_d(u"pool", [_f(u"0001.bin", 65537, 1), _f(u"z", 0, 2)]), _d(u"by-name", []), _f(u"single.txt", 6, 4),
         _d(u"deep", [_d(u"a", [_d(u"b", [_f(u"x", 17, 5)])])])],
        [dict(k="hard", p=u"/by-name/payload.bin", to=u"/pool/0001.bin"),
         dict(k="hard", p=u"/pool/0001.copy", to=u"/pool/0001.bin"),
         dict(k="hard", p=u"/zlink", to=u"/pool/z"),
         dict(k="hard", p=u"/deep/a/up", to=u"/single.txt"),
         dict(k="hard", p=u"/by-name/é 日", to=u"/deep/a/b/x"),
         dict(k="hard", p=u"/0", to=u"/deep/a/b/x")])
    lay["symbolic links to files"] = (
        [_d(u"d", [_d(u"sub", [_f(u"t.txt", 6, 7)]), _f(u"other", 255, 8)]), _f(u"top.bin", 4096, 9)],
        [dict(k="sym", p=u"/rel", to=u"/d/sub/t.txt", how="rel"),
         dict(k="sym", p=u"/abs", to=u"/d/sub/t.txt", how="abs"),
         dict(k="sym", p=u"/d/up", to=u"/top.bin", how="rel"),
         dict(k="sym", p=u"/d/sub/up2", to=u"/top.bin", how="rel"),
         dict(k="sym", p=u"/chain", to=u"/rel", how="rel"),
         dict(k="hard", p=u"/d/hl", to=u"/top.bin"),
         dict(k="sym", p=u"/to_hl", to=u"/d/hl", how="abs"),
         dict(k="sym", p=u"/ sp ace ", to=u"/d/other", how="rel"),
         dict(k="sym", p=u"/odd", how="raw", raw=u"./d/../d//other"),
         dict(k="sym", p=u"/d/sub/self", how="raw", raw=u"t.txt")])
    lay["symbolic links to directories"] = (
        [_d(u"d", [_d(u"sub", [_f(u"t.txt", 6, 7), _d(u"e", [])]), _f(u"f2", 2, 3)]), _d(u"k", [_f(u"f", 1, 1)])],
        [dict(k="sym", p=u"/dl_rel", to=u"/d/sub", how="rel"),
         dict(k="sym", p=u"/dl_abs", to=u"/d/sub", how="abs"),
         dict(k="sym", p=u"/k/side", to=u"/d", how="rel"),
         dict(k="sym", p=u"/empty_link", to=u"/d/sub/e", how="rel"),
         dict(k="sym", p=u"/dl2", to=u"/dl_rel", how="rel"),
         dict(k="sym", p=u"/dots", how="raw", raw=u"k/../d/sub/.")])
    modes = [_f(u"r--", 5, 1, mode=0o444), _f(u"rw-------", 5, 2, mode=0o600), _f(u"rwxr-xr-x", 5, 3, mode=0o755),
             _f(u"setuid", 5, 4, mode=0o4755), _f(u"setgid", 0, 5, mode=0o2644), _f(u"sticky", 5, 6, mode=0o1644),
             _f(u"rwxrwxrwx", 300, 7, mode=0o777), _f(u"r-only-group", 5, 8, mode=0o440),
             _d(u"dir555", [_f(u"in", 3, 9, mode=0o400)], mode=0o555), _d(u"dir700", [], mode=0o700),
             _d(u"dir1777", [_f(u"t", 1, 1)], mode=0o1777)]
    if root_only:
        modes += [_f(u"none", 6, 10, mode=0o000), _f(u"write-only", 6, 11, mode=0o200), _f(u"exec-only", 6, 12, mode=0o111),
                  _d(u"dir000", [_f(u"hidden", 4, 13)], mode=0o000)]
    lay["permission bits"] = (modes, [dict(k="hard", p=u"/setuid.again", to=u"/setuid"),
                                      dict(k="sym", p=u"/to444", to=u"/r--", how="rel")])
    lay["links leaving the tree"] = (
        [_d(u"d", [_f(u"in", 3, 1)]), _f(u"plain", 9, 2)],
        [dict(k="sym", p=u"/out_file", how="raw", raw=u"{outside}/outside.txt"),
         dict(k="sym", p=u"/d/out_dir", how="raw", raw=u"{outside}/outside_dir"),
         dict(k="sym", p=u"/via_root", how="raw", raw=u"{root}/d/in")])
    lay["dangling links"] = (
        [_d(u"d", [_f(u"in", 3, 1)]), _f(u"plain", 9, 2)],
        [dict(k="sym", p=u"/d/dangling", how="raw", raw=u"nowhere"),
         dict(k="sym", p=u"/dangling_abs", how="raw", raw=u"{outside}/missing")])
    lay["fifo"] = (
        [_d(u"d", [_f(u"in", 3, 1)]), _f(u"plain", 9, 2)],
        [dict(k="fifo", p=u"/pipe"), dict(k="fifo", p=u"/d/pipe2")])
    everything = ([], [])
    for key in ("hard links", "symbolic links to files", "permission bits"):
        sub = u"m%d" % len(everything[0])
        everything[0].append(_d(sub, lay[key][0]))
        for ln in lay[key][1]:
            ln = dict(ln, p=u"/" + sub + ln["p"])
            if "to" in ln:
                ln["to"] = u"/" + sub + ln["to"]
            if ln.get("how") == "raw":
                continue
            everything[1].append(ln)
    lay["mixed"] = everything
    return lay


def decorate(rnd, tree):
    """Random extra names for a generated tree: hard links and symbolic links to its files, symbolic links to its
    directories (never to an ancestor of the link: no cycles), in random directories."""
    import posixpath
    files, dirs = [], [u"/"]

    def go(nodes, base):
        for nd in nodes:
            p = base.rstrip(u"/") + u"/" + nd["n"]
            if "d" in nd:
                dirs.append(p)
                go(nd["d"], p)
            else:
                files.append(p)
    go(tree, u"/")
    links = []
    taken = set(files) | set(dirs)
    edges = dict((d, set(x for x in dirs if x != d and (x.rsplit(u"/", 1)[0] or u"/") == d)) for d in dirs)

    def reaches(a, b):
        seen, todo = set(), [a]
        while todo:
            x = todo.pop()
            if x == b:
                return True
            if x not in seen:
                seen.add(x)
                todo += list(edges[x])
        return False
    dir_links = 0
    for i in range(rnd.randint(2, 6)):
        where = rnd.choice(dirs)
        name = rnd.choice([u"ln%d" % i, u"ü%d" % i, u" l %d" % i, u"-l%d" % i])
        p = where.rstrip(u"/") + u"/" + name
        if p in taken:
            continue
        r = rnd.random()
        if files and r < 0.45:
            links.append(dict(k="hard", p=p, to=rnd.choice(files)))
        elif files and r < 0.8:
            links.append(dict(k="sym", p=p, to=rnd.choice(files), how=rnd.choice(["rel", "abs"])))
        else:
            # a link to a directory from which the link's own directory can be reached (through the tree or
            # through earlier links) would make a cycle: the walk of such a tree does not end
            cands = [d for d in dirs[1:] if not reaches(d, where)]
            if not cands or dir_links >= 2:
                continue
            to = rnd.choice(cands)
            edges[where].add(to)
            dir_links += 1
            links.append(dict(k="sym", p=p, to=to, how=rnd.choice(["rel", "abs"])))
        taken.add(p)
    return links


def build_host(root, tree, links, outside):
    """Create tree + links below the directory `root` with os.* calls; returns the FIFOs created."""
    import posixpath

    def sysp(tp):
        return root if tp in (u"", u"/") else os.path.join(root, *tp.strip(u"/").split(u"/"))

    def mk(nodes, base):
        for nd in nodes:
            p = base.rstrip(u"/") + u"/" + nd["n"]
            if "d" in nd:
                os.mkdir(sysp(p))
                mk(nd["d"], p)
            else:
                with open(sysp(p), "wb") as fh:
                    fh.write(content(nd["size"], nd["seed"]))
    mk(tree, u"/")
    fifos = []
    for ln in links:
        new = sysp(ln["p"])
        if not os.path.isdir(os.path.dirname(new)) or os.path.lexists(new):
            continue                    # (a shrunk tree may have lost the place of a link)
        if ln["k"] == "hard":
            if os.path.isfile(sysp(ln["to"])):
                os.link(sysp(ln["to"]), new)
                _hs("hard-linked names created (st_nlink = %s)" % ("2" if os.stat(new).st_nlink == 2 else "3+"))
            continue
        if ln["k"] == "fifo":
            os.mkfifo(new)
            fifos.append(new)
            _hs("FIFOs created")
            continue
        if ln["how"] == "raw":
            os.symlink(ln["raw"].replace(u"{outside}", outside).replace(u"{root}", root), new)
        elif not os.path.lexists(sysp(ln["to"])):
            continue
        elif ln["how"] == "abs":
            os.symlink(sysp(ln["to"]), new)
        else:
            os.symlink(posixpath.relpath(ln["to"], posixpath.dirname(ln["p"])), new)
        _hs("symbolic links created: %s, %s" % (
            "absolute" if os.readlink(new).startswith(u"/") else "relative",
            "dangling" if not os.path.exists(new) else "to a directory" if os.path.isdir(new) else "to a file"))

    def finish(nodes, base):
        for nd in nodes:
            p = base.rstrip(u"/") + u"/" + nd["n"]
            if "d" in nd:
                finish(nd["d"], p)
            os.utime(sysp(p), (nd["t"], nd["t"]))
            if "mode" in nd:
                os.chmod(sysp(p), nd["mode"])
                _hs("entries with explicit permission bits")
    finish(tree, u"/")
    return fifos


class FifoFeeder(object):
    """While active, every open-for-reading of one of the FIFOs meets a writer that closes at once: reading a FIFO
    of the tree gives end of file instead of blocking forever."""

    def __init__(self, paths):
        self.paths = paths
        self.thread = None

    def __enter__(self):
        import threading
        if self.paths:
            self.stop = threading.Event()
            self.thread = threading.Thread(target=self.loop)
            self.thread.daemon = True
            self.thread.start()
        return self

    def loop(self):
        while not self.stop.is_set():
            for p in self.paths:
                try:
                    os.close(os.open(p, os.O_WRONLY | os.O_NONBLOCK))
                except OSError:
                    pass
            self.stop.wait(0.002)

    def __exit__(self, *a):
        if self.thread is not None:
            self.stop.set()
            self.thread.join()


def host_expected(src):
    """path -> what the source filesystem presents (listdir + getinfo + readbytes, top down); also the set of
    names that are listed but cannot be stat'ed (dangling links)."""
    import fs.errors
    from fs.enums import ResourceType
    exp, dangling = {}, set()

    def go(d):
        for name in src.listdir(d):
            p = d.rstrip(u"/") + u"/" + name
            try:
                info = src.getinfo(p, ["details"])
            except fs.errors.ResourceNotFound:
                dangling.add(p)
                continue
            raw = info.raw["details"]
            rtype = raw.get("type")
            special = not info.is_dir and rtype != int(ResourceType.file)
            exp[p] = dict(is_dir=info.is_dir, t=raw["modified"], rtype=rtype, special=special,
                          data=None if info.is_dir or special else src.readbytes(p))
            if len(exp) > 20000:
                raise RuntimeError("the generated tree presents more than 20000 paths (links to directories nest too deep)")
            if info.is_dir:
                go(p)
    go(u"/")
    return exp, dangling


def host_cleanup(path):
    import subprocess
    try:
        shutil.rmtree(path)
    except Exception:  # noqa
        subprocess.call(["chmod", "-R", "u+rwX", "--", path])
        common.rm_rf(path)


def run_host(case, workdir):
    """case: dict(tree, host=dict(source, links, layout), fmt, target, route).  Returns failure dicts."""
    import fs.wrap
    from fs import compress
    from fs.osfs import OSFS
    from fs.tempfs import TempFS
    from fs.zipfs import ZipFS
    from fs.tarfs import TarFS
    host = case["host"]
    fam = family(case["fmt"])
    fmt = case["fmt"]
    if fam == "zip":
        comp, ext = (zipfile.ZIP_STORED if fmt == "zip-stored" else zipfile.ZIP_DEFLATED), ".zip"
    else:
        comp, ext = {"tar": None, "tar.gz": "gz", "tar.bz2": "bz2", "tar.xz": "xz"}[fmt], "." + fmt
    scratch = tempfile.mkdtemp(prefix="host_", dir=workdir)
    outside = os.path.join(scratch, "outside")
    os.makedirs(os.path.join(outside, "outside_dir"))
    with open(os.path.join(outside, "outside.txt"), "wb") as fh:
        fh.write(b"outside the tree")
    with open(os.path.join(outside, "outside_dir", "inner"), "wb") as fh:
        fh.write(b"inner")
    for pth in (os.path.join(outside, "outside.txt"), os.path.join(outside, "outside_dir", "inner"),
                os.path.join(outside, "outside_dir")):
        os.utime(pth, (1000000040, 1000000040))
    tgt = os.path.join(scratch, u"out" + ext) if case["target"] == "path" else io.BytesIO()
    closers = []
    fails = []
    ro = None
    try:
        with watchdog(HOST_TIMEOUT):
            try:
                # ---- the source filesystem and the directory behind it
                if case["route"] == "compress":
                    kind = host["source"]
                    if kind in ("OSFS", "read_only(OSFS)"):
                        os.mkdir(os.path.join(scratch, "root"))
                        src = OSFS(os.path.join(scratch, "root"))
                        closers.append(src)
                        if kind != "OSFS":
                            src = fs.wrap.read_only(src)
                    elif kind == "TempFS":
                        src = TempFS()
                        closers.append(src)
                    else:
                        if kind == "SubFS(OSFS)":
                            os.mkdir(os.path.join(scratch, "parent"))
                            parent = OSFS(os.path.join(scratch, "parent"))
                        else:
                            parent = TempFS()
                        closers.append(parent)
                        parent.makedirs(u"top/sub")
                        parent.makedirs(u"top/sub2/decoy")
                        parent.writebytes(u"top/canary", b"canary")
                        parent.writebytes(u"top/sub2/decoy/f", b"decoy")
                        src = parent.opendir(u"top/sub")
                else:
                    kw = {}
                    if host["source"] == "temp_fs=OSFS instance":
                        os.mkdir(os.path.join(scratch, "root"))
                        kw["temp_fs"] = OSFS(os.path.join(scratch, "root"))
                    elif host["source"] == "temp_fs='temp://'":
                        kw["temp_fs"] = "temp://"
                    if fam == "zip":
                        src = ZipFS(tgt, write=True, compression=comp, **kw)
                    elif case["target"] == "path":
                        src = TarFS(tgt, write=True, **kw)
                    else:
                        src = TarFS(tgt, write=True, compression=comp, **kw)
                    closers.append(src)
                root = src.getsyspath(u"/")
                fifos = build_host(root, case["tree"], host["links"], outside)
                exp, dangling = host_expected(src)
                _hs("paths presented by the sources", len(exp))
                _hs("names listed but not describable (dangling)", len(dangling))
            except Exception as e:  # noqa
                return [dict(kind="exception", path="<source>", detail=common.exc_name(e) + ": " + str(e)[:200])]
            # ---- write
            try:
                with FifoFeeder(fifos):
                    if case["route"] == "compress":
                        if fam == "zip":
                            compress.write_zip(src, tgt, compression=comp)
                        else:
                            compress.write_tar(src, tgt, compression=comp)
                    else:
                        closers.remove(src)
                        src.close()
            except Exception as e:  # noqa
                if dangling:
                    _hs("writes refused for a tree with dangling links")
                    return []           # the source itself cannot describe every name: refusing is an answer
                return [dict(kind="exception", path="<write>", detail=common.exc_name(e) + ": " + str(e)[:200])]
            if case["target"] == "bytesio":
                tgt.seek(0)
            try:
                ro = ZipFS(tgt) if fam == "zip" else TarFS(tgt)
            except Exception as e:  # noqa
                return [dict(kind="exception", path="<open>", detail=common.exc_name(e) + ": " + str(e)[:200])]
            fails = compare(ro, exp, fmt)
            if dangling:
                # names the source lists but cannot describe: may be left out or kept, nothing else may change
                def about_dangling(f):
                    if f["path"] in dangling:
                        return True
                    if f["kind"] == "listdir" and isinstance(f["detail"], dict):
                        odd = set(f["detail"]["got"]) ^ set(f["detail"]["want"])
                        return all((f["path"].rstrip(u"/") + u"/" + n) in dangling for n in odd)
                    return False
                fails = [f for f in fails if not about_dangling(f)]
    except Hang:
        fails = [dict(kind="exception", path="<write>", detail="crash:Hang: no answer within %d s" % HOST_TIMEOUT)]
    finally:
        for c in [ro] + closers[::-1]:
            try:
                if c is not None:
                    c.close()
            except Exception:  # noqa
                pass
        host_cleanup(scratch)
    off = local_offset()
    for f in fails:
        f["utc_offset"] = off
    return fails


def explore_host(rnd, thorough):
    cases = []
    lay = host_layouts()
    routes = [("compress", s) for s in HOST_COMPRESS_SOURCES] + [("fs", s) for s in HOST_FS_TEMPS]
    zips, tars = [f for f in FORMATS if family(f) == "zip"], [f for f in FORMATS if family(f) == "tar"]
    for name in sorted(lay):
        tree, links = lay[name]
        for route, source in routes:
            # quick tier: every layout through every route for both archive families (format of the family and
            # target drawn from the seed; the four side layouts through half of the routes)
            if not thorough and name in ("dangling links", "fifo", "links leaving the tree", "mixed") \
                    and rnd.random() < 0.5:
                continue
            for fmt in (FORMATS if thorough else [rnd.choice(zips), rnd.choice(tars)]):
                for target in (TARGETS if thorough else [rnd.choice(TARGETS)]):
                    cases.append(dict(tree=tree, host=dict(source=source, links=links, layout=name), fmt=fmt,
                                      temp="default", target=target, route=route, tz=None))
    for i in range(60 if thorough else 10):
        tree = gen_tree(rnd, [rnd.randint(3, 30 if thorough else 12)])
        links = decorate(rnd, tree)
        combos = [(f, r) for f in FORMATS for r in routes]
        for fmt, (route, source) in (combos if thorough else
                                     [(f, rnd.choice(routes)) for f in FORMATS] + rnd.sample(combos, 1)):
            cases.append(dict(tree=tree, host=dict(source=source, links=links, layout="random"), fmt=fmt, temp="default",
                              target=rnd.choice(TARGETS), route=route, tz=None))
    return cases


# --------------------------------------------------------------------------- keyword arguments

ENCODINGS = ["utf-8", "latin-1", "cp437", "ascii", "cp1252", "utf-16", "shift_jis"]
ENCODINGS_THOROUGH = ENCODINGS + ["utf8", "UTF-8", "CP437", "iso-8859-15", "koi8-r", "utf-32", "cp932"]
ZIP_COMPRESSIONS = [zipfile.ZIP_STORED, zipfile.ZIP_DEFLATED, zipfile.ZIP_BZIP2, zipfile.ZIP_LZMA]
TAR_COMPRESSIONS = [None, "gz", "bz2", "xz"]
TEMP_SPECS = ["url:temp://", "url:mem://", "url:temp://__archivetemp__", "url:osfs", "inst:TempFS", "inst:MemoryFS"]
MEM_TEMPS = ("url:mem://", "inst:MemoryFS", "mem")
WALKERS = ["none", "walker", "depth", "ignore_errors"]
KW_TARGETS = ["path", "bytesio", "filehandle"]
# file name -> compression TarFS(write=True) must infer from it (TarFS._compression_formats as documented:
# "The compression is set from the new file name")
TAR_EXTS = [(".tar", None), (".tar.gz", "gz"), (".tgz", "gz"), (".tar.bz2", "bz2"), (".tbz", "bz2"),
            (".tar.xz", "xz"), (".txz", "xz")]
TAR_MAGIC = {"gz": b"\x1f\x8b", "bz2": b"BZh", "xz": b"\xfd7zXZ\x00"}

# Values of each keyword parameter, from the documentation of the callables; 'fixed' = decided by the
# role of the call (write / read side), not swept.
KW_VALUES = {
    "compression": {"zip": ZIP_COMPRESSIONS, "tar": TAR_COMPRESSIONS},
    "encoding": ENCODINGS,
    "temp_fs": TEMP_SPECS,
    "walker": WALKERS,
    "file": ["none"] + KW_TARGETS,              # write_zip / write_tar methods: None = the constructor's file
    "writeable": [False, True],
    "cwd": [".", "workdir", "/nonexistent-cwd"],
    "default_protocol": ["osfs", "mem"],
    "write": "fixed",
    "create": "fixed",
}
KW_WRITE_APIS = ["ctor", "cls", "method", "compress", "opener"]
KW_READ_APIS = ["read_ctor", "read_cls", "read_opener"]
KW_STATS = {}

KW_POOL = [
    u"plain", u"b.txt",
    u"café", u"naïve.txt", u"über.bin", u"ß", u"Åñö",      # latin-1, cp437, cp1252
    u"░▒▓", u"αβ", u"€", u"ｶﾅ",                         # cp437 only / cp1252 only / shift_jis
    u"日本語", u"\U0001F600.bin", u"é", u"ملف", u"Ж",      # utf-8 only among the above
    u"x" * 101, u"é" * 120, u"L" * 255,                                                   # > 100 characters / bytes
    u" sp ace ", u"-rf", u"back\\slash", u"new\nline", u"a:b", u"%41%2f", u"?[x]*", u"...",     # odd
]
KW_LONG_COMPONENT = [u"z" * 300, u"ü" * 256]      # > 255: not a legal host file name, memory temp_fs only


def encodable(name, encoding):
    try:
        name.encode(encoding)
        return True
    except (UnicodeError, LookupError):
        return False


def kw_tree(encoding, strict, long_component, small=False):
    """The name tree for a filename encoding: every pool name (strict: every name the encoding can
    express) as a file or as a directory with a child and an empty directory, and a chain of long
    directory names down to a path of more than 255 characters."""
    ok = (lambda n: encodable(n, encoding)) if strict else (lambda n: True)
    pool = KW_POOL[1::3] if small else KW_POOL       # small: one name of each kind
    names = [n for n in pool + (KW_LONG_COMPONENT if long_component else []) if ok(n)]
    nodes = []
    for i, n in enumerate(names):
        t = 1000000000 + 3 * i
        if i % 2:
            nodes.append(dict(n=n, t=t, size=(i * 37) % 300, seed=i))
        else:
            sub = [dict(n=names[(i + 1) % len(names)], t=t + 1, size=i % 4, seed=i)]
            if i % 4 == 0:
                sub.append(dict(n=names[(i + 2) % len(names)], t=t + 2, d=[]))
            nodes.append(dict(n=n, t=t, d=sub))
    mid = u"é" * 90 if ok(u"é") else u"m" * 90
    leaf = u"deep-ü.txt" if ok(u"ü") else u"deep.txt"
    nodes.append(dict(n=u"A" * 90, t=1000000501, d=[dict(n=mid, t=1000000502, d=[dict(n=u"C" * 90, t=1000000503, d=[
        dict(n=leaf, t=1000000504, size=9, seed=9), dict(n=u"hollow", t=1000000505, d=[])])])]))
    return nodes


def kw_surface(fam):
    """api -> the real callable whose signature is enumerated."""
    import fs
    from fs import compress, tarfs, zipfs
    if fam == "zip":
        return dict(ctor=zipfs.ZipFS.__new__, cls=zipfs.WriteZipFS.__init__, method=zipfs.WriteZipFS.write_zip,
                    compress=compress.write_zip, opener=fs.open_fs,
                    read_ctor=zipfs.ZipFS.__new__, read_cls=zipfs.ReadZipFS.__init__, read_opener=fs.open_fs)
    return dict(ctor=tarfs.TarFS.__new__, cls=tarfs.WriteTarFS.__init__, method=tarfs.WriteTarFS.write_tar,
                compress=compress.write_tar, opener=fs.open_fs,
                read_ctor=tarfs.TarFS.__new__, read_cls=tarfs.ReadTarFS.__init__, read_opener=fs.open_fs)


def kw_params(func):
    """Names and defaults of the parameters that can be left out (the keyword arguments)."""
    import inspect
    return [(p.name, p.default) for p in inspect.signature(func).parameters.values()
            if p.default is not p.empty and p.kind in (p.POSITIONAL_OR_KEYWORD, p.KEYWORD_ONLY)]


def kw_values(fam, param, thorough=False):
    v = KW_VALUES.get(param)
    if param == "encoding" and thorough:
        return ENCODINGS_THOROUGH
    if isinstance(v, dict):
        v = v[fam]
    return v


def kw_default(fam, api, param):
    return dict(kw_params(kw_surface(fam)[api]))[param]


def kw_case(rnd, fam, api, args, read="ctor", read_args=None, lenient=False, target=None, ext=None, base_temp=None,
            small=False):
    """A keyword case.  args: the keyword arguments of the write-side call (JSON-able specs);
    read / read_args: how the archive is reopened."""
    args = dict(args)
    target = target or rnd.choice(KW_TARGETS)
    if api == "opener" or read == "opener":
        target = "path"
    if ext is None:
        ext = ".zip" if fam == "zip" else rnd.choice(TAR_EXTS)[0]
    if base_temp is None:
        base_temp = rnd.choice(["default", "mem"])      # the temp_fs / source when it is not the swept parameter
    if api == "opener":
        base_temp = "default"                           # the openers offer no way to choose it
    temp = args.get("temp_fs", base_temp)
    enc = args.get("encoding", (read_args or {}).get("encoding", "utf-8"))
    rargs = dict(read_args or {})
    if "encoding" in args and read != "opener":
        rargs.setdefault("encoding", args["encoding"])
    kw = dict(fam=fam, api=api, args=args, read=read, read_args=rargs, target=target, ext=ext, base_temp=base_temp,
              lenient=bool(lenient))
    return dict(kw=kw, fmt=fam, tz=None, tree=kw_tree(enc, not lenient, temp in MEM_TEMPS, small))


def explore_kw(rnd, thorough):
    """One case per (callable, keyword parameter, documented value) -- others at their defaults --
    plus the all-defaults call; thorough: the full product for the constructors and fs.compress."""
    cases = []
    unmodelled = []
    swept = {}
    for fam in ("zip", "tar"):
        surf = kw_surface(fam)

        def add(api, args, **more):
            encs = [v for k, v in list(args.items()) + list(more.get("read_args", {}).items()) if k == "encoding"]
            # quick: the whole name pool where the filename encoding is the swept parameter, one name of each
            # kind (non-ASCII, > 100 characters, odd, path > 255) elsewhere
            more.setdefault("small", not thorough and not encs)
            cases.append(kw_case(rnd, fam, api, args, **more))
            # the whole pool, names the encoding cannot express included (quick: on the two main write routes)
            if encs and any(not encodable(n, encs[0]) for n in KW_POOL) and \
                    (thorough or ("encoding" in args and api in ("ctor", "compress"))):
                cases.append(kw_case(rnd, fam, api, args, lenient=True, **more))
        for api in KW_WRITE_APIS:
            add(api, {}, read=rnd.choice(["ctor", "cls"]))
            for param, _default in kw_params(surf[api]):
                vals = kw_values(fam, param, thorough)
                if vals is None:
                    unmodelled.append("%s %s(%s)" % (fam, api, param))
                    continue
                if vals == "fixed":
                    continue
                swept.setdefault("%s(%s)" % (api, param), len(vals))
                for v in vals:
                    add(api, {param: v}, read=rnd.choice(["ctor", "cls"] if api != "opener" else ["ctor", "cls", "opener"]))
        for api in KW_READ_APIS:
            rd = api[5:]
            for param, _default in kw_params(surf[api]):
                vals = kw_values(fam, param, thorough)
                if vals is None:
                    unmodelled.append("%s %s(%s)" % (fam, api, param))
                    continue
                if vals == "fixed":
                    continue
                swept.setdefault("%s(%s)" % (api, param), len(vals))
                for v in vals:
                    add(rnd.choice(["ctor", "compress"]) if rd != "opener" else "ctor", {}, read=rd, read_args={param: v})
        # compression implied by the file name (every documented extension), path and named file object
        if fam == "tar":
            for ext, _comp in TAR_EXTS:
                for target in ("path", "filehandle"):
                    for api in ("ctor", "opener"):
                        if api == "ctor" or target == "path":
                            cases.append(kw_case(rnd, fam, api, {}, read=rnd.choice(["ctor", "cls"]), target=target, ext=ext,
                                                 small=not thorough))
        if thorough:
            for api in ("ctor", "cls", "compress"):
                names = [p for p, _d in kw_params(surf[api]) if kw_values(fam, p) not in (None, "fixed")]

                def product(i, acc):
                    if i == len(names):
                        add(api, dict(acc), read=rnd.choice(["ctor", "cls"]))
                        return
                    for v in kw_values(fam, names[i], False):
                        product(i + 1, acc + [(names[i], v)])
                product(0, [])
    return cases, unmodelled, swept


def kw_decode(kw, args, workdir, made):
    """Turn the JSON-able argument specs into the real objects; `made` collects what has to be closed."""
    from fs.memoryfs import MemoryFS
    from fs.tempfs import TempFS
    from fs.walk import Walker
    out = {}
    for k, v in args.items():
        if k == "temp_fs":
            if v == "url:osfs":
                v = "osfs://" + tempfile.mkdtemp(dir=workdir, prefix="osfs")
            elif v.startswith("url:"):
                v = v[4:]
            else:
                v = TempFS() if v == "inst:TempFS" else MemoryFS()
                made.append(v)
        elif k == "walker":
            v = {"none": None, "walker": Walker(), "depth": Walker(search="depth"),
                 "ignore_errors": Walker(ignore_errors=True)}[v]
        elif k == "cwd" and v == "workdir":
            v = workdir
        out[k] = v
    return out


def kw_target(kind, ext, workdir, made, tag="kw"):
    if kind == "bytesio":
        return io.BytesIO()
    path = os.path.join(workdir, tag + ext)
    if os.path.exists(path):
        os.remove(path)
    if kind == "path":
        return path
    fh = open(path, "w+b")
    made.append(fh)
    return fh


def tar_name_compression(ext):
    return dict(TAR_EXTS)[ext]


def write_archive_kw(case, ref, workdir, made):
    """Returns [(label, target, expected compression)]; expected compression 'any' = not promised."""
    import fs
    from fs import compress, tarfs, zipfs
    from fs.tempfs import TempFS
    kw = case["kw"]
    fam, api, tree = kw["fam"], kw["api"], case["tree"]
    args = kw_decode(kw, kw["args"], workdir, made)
    zipf = fam == "zip"
    Ctor = zipfs.ZipFS if zipf else tarfs.TarFS
    Cls = zipfs.WriteZipFS if zipf else tarfs.WriteTarFS
    named = kw["target"] in ("path", "filehandle")
    implied = None if zipf or not named else tar_name_compression(kw["ext"])
    base = {} if kw["base_temp"] == "default" or "temp_fs" in args else {"temp_fs": "mem://"}

    def fill(w):
        build_tree(w, tree)
        set_times(w, tree)
    outs = []
    if api in ("ctor", "cls"):
        tgt = kw_target(kw["target"], kw["ext"], workdir, made)
        call = dict(base, **args)
        w = Ctor(tgt, write=True, **call) if api == "ctor" else Cls(tgt, **call)
        try:
            fill(w)
        finally:
            w.close()
        want = args.get("compression", kw_default(fam, api, "compression"))
        if not zipf and want is None:
            want = implied if api == "ctor" else None
        outs.append((api, tgt, want))
    elif api == "method":
        # the constructor's own file is a path when the method call writes to it too (file left out or None:
        # the archive is then simply written twice), otherwise a BytesIO next to the method's target
        margs = dict(args)
        fspec = margs.pop("file", None)
        explicit = fspec in KW_TARGETS or (fspec is None and bool(margs))
        tgt0 = kw_target("bytesio" if explicit else "path", kw["ext"], workdir, made, tag="kw0")
        w = Ctor(tgt0, write=True, **base)
        want0 = kw_default(fam, "ctor", "compression")
        if not zipf:
            want0 = None if explicit else tar_name_compression(kw["ext"])
        try:
            fill(w)
            tgt = None
            if explicit:
                tgt = margs["file"] = kw_target(fspec or kw["target"], kw["ext"], workdir, made)
            elif fspec == "none":
                margs["file"] = None
            (w.write_zip if zipf else w.write_tar)(**margs)
            if tgt is not None:
                want = margs.get("compression")
                outs.append(("method", tgt, want0 if want is None else want))
        finally:
            w.close()
        outs.append(("method-close", tgt0, want0))
    elif api == "compress":
        tgt = kw_target(kw["target"], kw["ext"], workdir, made)
        if kw["base_temp"] == "mem":
            src, own = ref, False
        else:
            src, own = TempFS(), True
            fill(src)
        try:
            (compress.write_zip if zipf else compress.write_tar)(src, tgt, **args)
        finally:
            if own:
                src.close()
        outs.append((api, tgt, args.get("compression", kw_default(fam, api, "compression"))))
    else:
        tgt = kw_target("path", kw["ext"], workdir, made)
        w = fs.open_fs(fam + "://" + tgt, create=True, **args)
        try:
            fill(w)
        finally:
            w.close()
        outs.append((api, tgt, kw_default(fam, "ctor", "compression") if zipf else implied))
    for _l, t, _w in outs:
        if hasattr(t, "seek"):
            t.seek(0)
    return outs


def open_readonly(case, tgt, workdir, made):
    import fs
    from fs import tarfs, zipfs
    zipf = family(case["fmt"]) == "zip"
    kw = case.get("kw")
    if not kw:
        return zipfs.ZipFS(tgt) if zipf else tarfs.TarFS(tgt)
    rargs = kw_decode(kw, kw["read_args"], workdir, made)
    if kw["read"] == "opener" and not hasattr(tgt, "seek"):
        return fs.open_fs(("zip://" if zipf else "tar://") + tgt, **rargs)
    if kw["read"] == "cls":
        return (zipfs.ReadZipFS if zipf else tarfs.ReadTarFS)(tgt, **rargs)
    return (zipfs.ZipFS if zipf else tarfs.TarFS)(tgt, **rargs)


def check_compression(fam, tgt, want):
    """The compression found in the archive bytes (read with zipfile / by magic number) against `want`."""
    if hasattr(tgt, "seek"):
        tgt.seek(0)
        head = tgt.read(8)
        tgt.seek(0)
    else:
        with open(tgt, "rb") as fh:
            head = fh.read(8)
    if fam == "tar":
        got = None
        for c, magic in TAR_MAGIC.items():
            if head.startswith(magic):
                got = c
        return [] if got == want else [dict(kind="compression", path="<archive>", detail=dict(got=got, want=want))]
    with zipfile.ZipFile(tgt) as z:
        got = sorted(set(zi.compress_type for zi in z.infolist() if zi.file_size > 0))
    if hasattr(tgt, "seek"):
        tgt.seek(0)
    return [] if got in ([], [want]) else [dict(kind="compression", path="<archive>", detail=dict(got=got, want=want))]


def run_kw(case, ref, exp, workdir):
    kw = case["kw"]
    made = []
    key = "%s %s" % (kw["fam"], "lenient" if kw["lenient"] else "strict")
    try:
        try:
            outs = write_archive_kw(case, ref, workdir, made)
        except Exception as e:  # noqa
            if kw["lenient"]:
                # a name the requested encoding cannot express: refusing to write is acceptable
                KW_STATS[key + ": write raised"] = KW_STATS.get(key + ": write raised", 0) + 1
                return []
            return [dict(kind="exception", path="<write>", detail=common.exc_name(e) + ": " + str(e)[:200])]
        KW_STATS[key + ": written"] = KW_STATS.get(key + ": written", 0) + 1
        fails = []
        # opener documentation: an existing archive cannot be opened writeable (NotWriteable)
        refuse = kw["read"] == "opener" and kw["read_args"].get("writeable") and not kw["read_args"].get("create")
        for label, tgt, want in outs:
            try:
                ro = open_readonly(case, tgt, workdir, made)
            except Exception as e:  # noqa
                if refuse and common.exc_name(e) == "err:NotWriteable":
                    continue
                fails.append(dict(kind="exception", path="<open>", detail=common.exc_name(e) + ": " + str(e)[:200],
                                  archive=label))
                continue
            try:
                sub = compare(ro, exp, case["fmt"])
                if refuse:
                    sub.append(dict(kind="exception", path="<open>", detail="no-error: writeable=True opened an "
                                                                            "existing archive"))
            finally:
                ro.close()
            if want != "any":
                sub += check_compression(kw["fam"], tgt, want)
            for f in sub:
                f["archive"] = label
            fails += sub
        return fails
    finally:
        for obj in made:
            try:
                obj.close()
            except Exception:  # noqa
                pass
        for name in os.listdir(workdir):
            if name.startswith("osfs"):
                shutil.rmtree(os.path.join(workdir, name), ignore_errors=True)


# --------------------------------------------------------------------------- crafted archives

CRAFT_NAMES = [
    "../x", "..", "a/../../x", "/../x", "a/b/../../../x", "../", "x/../../",     # climb above the root
    "/abs", "/", "//", "//abs2", "/a/b",                                          # absolute
    "a/../b", "a/..", "a/b/..", "a/b/../c", "a/./b", "./a", "a/.", ".", "a//b", "a/b//", "",
    "a", "a/", "a/b", "a/b/", "a/b/c", "b", "b/",
    "..a", "a..", "...", "a/.../b", "..\\x", "C:\\x", "\\abs", "~/x", "a/..b/c",
]
OK_NAME = "ok.txt"
OK_DATA = b"this member is fine"


def name_class(name):
    """Coarse class of a raw member name: climbs-above-root | non-normalised | plain."""
    depth = 0
    for c in name.split("/"):
        if c == "..":
            depth -= 1
            if depth < 0:
                return "climbs-above-root"
        elif c not in ("", "."):
            depth += 1
    if norm_name(name) != name:
        return "non-normalised"         # absolute, '.', '..', empty components, trailing slash
    return "plain"


def norm_name(name):
    out = []
    for c in name.split("/"):
        if c == "..":
            if not out:
                return None
            out.pop()
        elif c not in ("", "."):
            out.append(c)
    return "/".join(out)


def visited_dirs(name):
    """Normalised directories a reader passes through when it creates the parents of `name`."""
    comps = name.rstrip("/").split("/")
    out = set()
    for i in range(1, len(comps)):
        nn = norm_name("/".join(comps[:i]))
        if nn:
            out.add(nn)
    return out


def members_classes(members):
    cls = set()
    normed = []
    for name, kind in members:
        c = name_class(name)
        if c != "plain":
            cls.add(c)
        normed.append((norm_name(name), kind, visited_dirs(name)))
    for i, (a, ka, _va) in enumerate(normed):
        for j, (b, kb, vb) in enumerate(normed):
            if i == j or not a:
                continue
            if (a == b and i < j) or (ka == "f" and a in vb):
                cls.add("conflicting-entries")  # same resulting name twice, or a file used as a directory
    if "conflicting-entries" in cls:
        cls.discard("non-normalised")
    return "+".join(sorted(cls)) or "plain"


def make_crafted(fmt, members, path):
    """members: list of (name, kind) kind 'f' | 'd' | 'l' (symlink to /etc/passwd, tar only)."""
    all_members = list(members) + [(OK_NAME, "f")]
    if fmt == "zip":
        with warnings.catch_warnings():
            warnings.simplefilter("ignore")
            with zipfile.ZipFile(path, "w") as z:
                for name, kind in all_members:
                    if kind == "d":
                        zi = zipfile.ZipInfo(name if name.endswith("/") else name + "/")
                        zi.external_attr = 0x10
                        z.writestr(zi, b"")
                    else:
                        z.writestr(zipfile.ZipInfo(name), member_data(name))
    else:
        with tarfile.open(path, "w") as t:
            for name, kind in all_members:
                ti = tarfile.TarInfo(name)
                ti.mtime = 1000000000
                if kind == "d":
                    ti.type = tarfile.DIRTYPE
                    t.addfile(ti)
                elif kind == "l":
                    ti.type = tarfile.SYMTYPE
                    ti.linkname = "/etc/passwd"
                    t.addfile(ti)
                else:
                    data = member_data(name)
                    ti.size = len(data)
                    t.addfile(ti, io.BytesIO(data))


def member_data(name):
    return OK_DATA if name == OK_NAME else b"DATA:" + name.encode("utf8")


_AUDIT = {"on": False, "events": [], "installed": False}


class Hang(BaseException):
    """Raised by the per-query watchdog (not an Exception: nothing in /repo may swallow it)."""


def _fire(signum, frame):
    raise Hang()


class watchdog(object):
    """Per-query time limit (main thread only; the handler is installed once)."""
    installed = False

    def __init__(self, seconds):
        self.seconds = seconds

    def __enter__(self):
        import signal
        if not watchdog.installed:
            signal.signal(signal.SIGALRM, _fire)
            watchdog.installed = True
        signal.setitimer(signal.ITIMER_REAL, self.seconds)

    def __exit__(self, *a):
        import signal
        signal.setitimer(signal.ITIMER_REAL, 0)


def _audit(event, args):
    if _AUDIT["on"] and event == "open":
        try:
            p = args[0]
            if isinstance(p, bytes):
                p = p.decode("utf8", "replace")
            if isinstance(p, str):
                _AUDIT["events"].append((os.path.abspath(p), args[1], args[2]))
        except Exception:  # noqa
            pass


def snapshot(root):
    out = []
    for d, dirs, files in os.walk(root):
        dirs.sort()
        for n in sorted(files) + dirs:
            p = os.path.join(d, n)
            st = os.lstat(p)
            out.append((os.path.relpath(p, root), st.st_size if n in files else -1, st.st_mtime_ns, st.st_mode))
    return out


def unsafe_component(c):
    return c in ("", ".", "..") or "/" in c


def run_crafted(case, workdir):
    """case: dict(fmt 'zip'|'tar', members [[name, kind]...]). Returns (failkinds set, details)."""
    from fs.zipfs import ReadZipFS
    from fs.tarfs import ReadTarFS
    import fs.errors  # noqa
    if not _AUDIT["installed"]:
        sys.addaudithook(_audit)
        _AUDIT["installed"] = True
    members = [tuple(m) for m in case["members"]]
    outer = os.path.join(workdir, "canary")
    box = os.path.join(outer, "l1", "l2", "box")
    if not os.path.isdir(box):
        # outer/canary.txt, outer/l1/canary.txt, outer/l1/l2/canary.txt, archive in outer/l1/l2/box/
        os.makedirs(box)
        for d in (outer, os.path.join(outer, "l1"), os.path.join(outer, "l1", "l2")):
            with open(os.path.join(d, "canary.txt"), "w") as fh:
                fh.write("canary")
    details = []
    kinds = set()

    def fail(kind, **kw):
        kinds.add(kind)
        if len(details) < 12:
            details.append(dict(kind=kind, **kw))
    arch = os.path.join(box, "crafted." + case["fmt"])
    try:
        make_crafted(case["fmt"], members, arch)
        before = snapshot(outer)
        targets = set()
        for name, _k in members:
            targets.add(os.path.abspath(os.path.join(box, name.lstrip("/") or ".")))
            if name.startswith("/"):
                targets.add(os.path.abspath(name))
            targets.add(os.path.abspath(os.path.join(os.getcwd(), name.lstrip("/") or ".")))
        targets.discard(box)
        targets.discard(os.path.abspath(os.getcwd()))
        targets.discard("/")
        _AUDIT["events"] = []
        _AUDIT["on"] = True
        try:
            try:
                ro = (ReadZipFS if case["fmt"] == "zip" else ReadTarFS)(arch)
            except Exception as e:  # noqa
                fail("open-raises:" + common.exc_name(e))
                ro = None
            if ro is not None:
                try:
                    query_crafted(ro, members, fail)
                finally:
                    try:
                        ro.close()
                    except Exception as e:  # noqa
                        fail("close-raises:" + common.exc_name(e))
        finally:
            _AUDIT["on"] = False
        after = snapshot(outer)
        if after != before:
            fail("outside-touched", before=before, after=after)
        for p, mode, flags in _AUDIT["events"]:
            if p == arch:
                continue
            if p.startswith(outer + os.sep) or p in targets:
                fail("outside-opened", path=p, mode=str(mode))
    finally:
        if kinds & {"outside-touched"}:
            shutil.rmtree(outer, ignore_errors=True)
        elif os.path.exists(arch):
            os.remove(arch)
    return kinds, details


def query_crafted(ro, members, fail):
    from fs.walk import Walker

    def q(op, path, thunk, root_query=False):
        try:
            with watchdog(0.5):
                return True, thunk()
        except Hang:
            fail("hang", op=op, path=path)
            return False, None
        except Exception as e:  # noqa
            nm = common.exc_name(e)
            if nm.startswith("crash:"):
                fail(nm, op=op, path=path, message=str(e)[:120])
            elif root_query:
                fail("root-query-raises:" + nm, op=op, message=str(e)[:120])
            return False, None

    # first use of the root; a second listing must agree with the first
    ok1, first = q("listdir", "/", lambda: ro.listdir("/"), root_query=True)
    ok2, second = q("listdir", "/", lambda: ro.listdir("/"), root_query=True)
    if ok2 and not ok1:
        fail("first-use-raises-then-answers")
    okw, walked = q("walk", "/", lambda: [(p, i.is_dir, i.name) for p, i in Walker().info(ro, "/", namespaces=["details"])],
                    root_query=True)
    paths = []
    if okw:
        for p, is_dir, nm in walked:
            paths.append(p)
            if not p.startswith("/") or any(unsafe_component(c) for c in p[1:].split("/")):
                fail("unsafe-path-reported", source="walk", path=p)
            if unsafe_component(nm):
                fail("unsafe-path-reported", source="info.name", path=p, name=nm)
    listed = second if ok2 else []
    if ok2:
        for n in listed:
            if unsafe_component(n):
                fail("unsafe-path-reported", source="listdir", path="/", name=n)
    # the harmless member must be listed and readable
    if ok2 and OK_NAME not in listed:
        fail("good-member-lost", listed=listed)
    okr, data = q("readbytes", "/" + OK_NAME, lambda: ro.readbytes(OK_NAME))
    if okr and data != OK_DATA:
        fail("good-member-wrong-bytes")
    probes = list(paths)
    for name, _k in members:
        for cand in (name, "/" + name, norm_name(name)):
            if cand is not None and cand not in probes:
                probes.append(cand)
    for extra in ("../x", "/../x", "x", "abs", "a", "b", "a/b", "/etc/passwd", "../canary.txt", "../../canary.txt"):
        if extra not in probes:
            probes.append(extra)
    for p in probes:
        _o, ex = q("exists", p, lambda: ro.exists(p))
        _o, isd = q("isdir", p, lambda: ro.isdir(p))
        q("isfile", p, lambda: ro.isfile(p))
        okg, info = q("getinfo", p, lambda: ro.getinfo(p, ["details", "access"]))
        if okg:
            if info.name in (".", "..") or "/" in info.name:
                fail("unsafe-path-reported", source="getinfo.name", path=p, name=info.name)
            q("getinfo.size", p, lambda: info.raw.get("details", {}).get("size"))
        okl, names = q("listdir", p, lambda: ro.listdir(p))
        if okl:
            for n in names:
                if unsafe_component(n):
                    fail("unsafe-path-reported", source="listdir", path=p, name=n)
        okb, data = q("readbytes", p, lambda: ro.readbytes(p))
        if okb and data.startswith(b"canary") or okb and b"root:" in data:
            fail("outside-content-exposed", path=p)

        def rd():
            with ro.openbin(p) as fh:
                return fh.read()
        oko, data2 = q("openbin", p, rd)
        if oko and okb and data != data2:
            fail("readbytes-openbin-differ", path=p)


def normal_kinds(kinds):
    """Collapse consequences into their cause: a root query that raises on first use explains the
    'second listing answers' / 'harmless member lost' observations."""
    kinds = set(kinds)
    out = set()
    first = sorted(k for k in kinds if k.startswith("root-query-raises:"))
    if first:
        kinds -= {"first-use-raises-then-answers", "good-member-lost"}
        kinds -= set(first)
        for k in first:
            out.add("listing or walking / raises " + k.split(":", 1)[1])
    return out | kinds


def selftest_canary(workdir):
    """The outside-access detectors must fire on a deliberately leaking query."""
    run_crafted(dict(fmt="tar", members=[]), workdir)           # creates the canary tree, installs the hook
    outer = os.path.join(workdir, "canary")
    before = snapshot(outer)
    _AUDIT["events"] = []
    _AUDIT["on"] = True
    try:
        with open(os.path.join(outer, "l1", "canary.txt")) as fh:
            fh.read()
        with open(os.path.join(outer, "l1", "l2", "leak"), "w") as fh:
            fh.write("x")
    finally:
        _AUDIT["on"] = False
    seen_open = any(p.endswith(os.path.join("l1", "canary.txt")) for p, _m, _f in _AUDIT["events"])
    seen_create = snapshot(outer) != before
    os.remove(os.path.join(outer, "l1", "l2", "leak"))
    return seen_open and seen_create


def crafted_signature(case, kind):
    return "crafted %s: %s [%s]" % (case["fmt"], kind, members_classes([tuple(m) for m in case["members"]]))


def shrink_crafted(case, kind, workdir):
    """Smallest member list (dropping members one at a time) that still shows `kind`."""
    members = [list(m) for m in case["members"]]
    changed = True
    while changed:
        changed = False
        for i in range(len(members)):
            cand = members[:i] + members[i + 1:]
            k2, _d = run_crafted(dict(fmt=case["fmt"], members=cand), workdir)
            if kind in normal_kinds(k2):
                members = cand
                changed = True
                break
    # prefer normalised spellings where the failure does not depend on the spelling
    for i in range(len(members)):
        nn = norm_name(members[i][0])
        if nn and nn != members[i][0]:
            cand = members[:i] + [[nn, members[i][1]]] + members[i + 1:]
            k2, _d = run_crafted(dict(fmt=case["fmt"], members=cand), workdir)
            if kind in normal_kinds(k2):
                members = cand
    return dict(fmt=case["fmt"], members=members)


# --------------------------------------------------------------------------- shrinking round trips

def shrink_tree(case, sig, workdir, budget=150):
    """Greedy: drop subtrees, empty files, rename to short names, simplify times."""
    def still(tree):
        c = dict(case)
        c["tree"] = tree
        fails = run_roundtrip(c, workdir)
        return bool(fails) and roundtrip_signature(c, fails) == sig

    def variants(nodes):
        for i, nd in enumerate(nodes):
            yield nodes[:i] + nodes[i + 1:]
            if "d" in nd:
                yield nodes[:i] + nd["d"] + nodes[i + 1:] if not (set(x["n"] for x in nd["d"]) &
                                                                 set(x["n"] for x in nodes[:i] + nodes[i + 1:])) else nodes
                for sub in variants(nd["d"]):
                    yield nodes[:i] + [dict(nd, d=sub)] + nodes[i + 1:]
            else:
                if nd["size"] > 1:
                    yield nodes[:i] + [dict(nd, size=1, seed=1)] + nodes[i + 1:]
            short = "n%d" % i
            if nd["n"] != short and all(x["n"] != short for x in nodes):
                yield nodes[:i] + [dict(nd, n=short)] + nodes[i + 1:]
            if nd["t"] != 1000000001:
                yield nodes[:i] + [dict(nd, t=1000000001)] + nodes[i + 1:]
    tree = case["tree"]
    progress = True
    while progress and budget > 0:
        progress = False
        for cand in variants(tree):
            if cand == tree:
                continue
            budget -= 1
            if budget <= 0:
                break
            if still(cand):
                tree = cand
                progress = True
                break
    out = dict(case)
    out["tree"] = tree
    return out


# --------------------------------------------------------------------------- first use by several threads
# A read-mode archive filesystem builds its index of members on first use.  "Opening the result read-only yields the
# same tree" holds for every thread that uses the object, also for one whose FIRST call arrives while another thread's
# first call is still building that index (every FS is documented thread-safe and carries a lock).  For ReadZipFS and
# ReadTarFS x target {path, BytesIO, open file handle} an archive of several hundred to a few thousand members (explicit
# directories, directories only implied by member names, nesting, non-ASCII components; written with zipfile / tarfile,
# so the expectation comes from the member list of the harness alone) is opened afresh per round; N threads are released
# together, thread k starts k/(N-1) * f * (measured single-thread build time) later (f in 0..1: all together ... spread
# over one build) and runs a DIFFERENT first query; the interpreter's switch interval is 1 microsecond during that
# window.  Afterwards every thread (and the main thread) walks the whole tree.

FU_QUERIES = ["listdir-root", "exists-deep", "getinfo-deep", "walk-files", "isdir-implied", "readbytes-deep",
              "isfile-deep", "listdir-deep-dir", "walk-dirs", "getsize-deep", "scandir-root", "openbin-deep"]
FU_TARGETS = ["path", "bytesio", "filehandle"]
FU_THREADS = 6
FU_RERUNS = 5


def fu_signature(fam):
    return ("first use %s: threads making their first call on a freshly opened Read%sFS together do not all see the "
            "complete tree" % (fam, fam.capitalize()))


def fu_members(rnd, n_members):
    """([(name, 'f'|'d', data)] in archive order, {file path: bytes}, {directory paths}, [directories that are no
    member themselves])."""
    members, files, dirs, implied, explicit = [], {}, set(), set(), set()
    n_dirs = max(4, n_members // rnd.choice([8, 15, 25]))
    di = 0
    while len(members) < n_members:
        depth = rnd.choice([1, 1, 2, 3])
        comps = [u"d%03d" % di] + [rnd.choice([u"sub", u"sü", u"x"]) for _ in range(depth - 1)]
        di += 1
        d = u"/".join(comps)
        is_explicit = rnd.random() < 0.4
        if is_explicit:
            for k in range(1, len(comps) + 1):
                p = u"/".join(comps[:k])
                if p not in explicit:
                    explicit.add(p)
                    members.append((p, "d", None))
        for k in range(1, len(comps) + 1):
            dirs.add(u"/" + u"/".join(comps[:k]))
            if u"/".join(comps[:k]) not in explicit:
                implied.add(u"/" + u"/".join(comps[:k]))
        for i in range(rnd.randint(0 if is_explicit else 1, 2 * n_members // n_dirs)):
            name = d + u"/f%03d.bin" % i
            data = (u"%s#%d" % (d, i)).encode("utf8") * (i % 3)
            members.append((name, "f", data))
            files[u"/" + name] = data
    return members, files, dirs, sorted(implied)


def fu_write(fam, members, workdir):
    buf = io.BytesIO()
    if fam == "zip":
        with zipfile.ZipFile(buf, "w") as z:
            for name, kind, data in members:
                z.writestr(name + ("/" if kind == "d" else ""), data or b"")
    else:
        with tarfile.open(fileobj=buf, mode="w") as t:
            for name, kind, data in members:
                ti = tarfile.TarInfo(name)
                if kind == "d":
                    ti.type = tarfile.DIRTYPE
                    t.addfile(ti)
                else:
                    ti.size = len(data)
                    t.addfile(ti, io.BytesIO(data))
    path = os.path.join(workdir, "firstuse." + fam)
    with open(path, "wb") as fh:
        fh.write(buf.getvalue())
    return path, buf.getvalue()


def fu_open(fam, target, path, data):
    """-> (filesystem, file object to close afterwards or None)"""
    from fs.zipfs import ReadZipFS
    from fs.tarfs import ReadTarFS
    cls = ReadZipFS if fam == "zip" else ReadTarFS
    if target == "path":
        return cls(path), None
    fobj = io.BytesIO(data) if target == "bytesio" else open(path, "rb")
    return cls(fobj), fobj


def fu_query(ro, q, files, dirs, probe):
    """One query; None or (kind, detail) when the answer differs from the member list."""
    pfile, pdir, pimp = probe

    def top(d):
        pre = d.rstrip(u"/") + u"/"
        return sorted(set(p[len(pre):].split(u"/")[0] for p in list(files) + list(dirs) if p.startswith(pre)))
    if q == "listdir-root":
        got, want = sorted(ro.listdir(u"/")), top(u"/")
    elif q == "exists-deep":
        got, want = ro.exists(pfile), True
    elif q == "isfile-deep":
        got, want = ro.isfile(pfile), True
    elif q == "getinfo-deep":
        info = ro.getinfo(pfile, ["details"])
        got, want = (info.is_dir, info.name, info.size), (False, pfile.rsplit(u"/", 1)[1], len(files[pfile]))
    elif q == "getsize-deep":
        got, want = ro.getsize(pfile), len(files[pfile])
    elif q == "walk-files":
        got, want = sorted(ro.walk.files()), sorted(files)
    elif q == "walk-dirs":
        got, want = sorted(ro.walk.dirs()), sorted(dirs)
    elif q == "walk-all":
        got = sorted((p, i.is_dir) for p, i in ro.walk.info())
        want = sorted([(p, False) for p in files] + [(p, True) for p in dirs])
    elif q == "isdir-implied":
        got, want = ro.isdir(pimp), True
    elif q == "listdir-deep-dir":
        got, want = sorted(ro.listdir(pdir)), top(pdir)
    elif q == "scandir-root":
        got, want = sorted((i.name, i.is_dir) for i in ro.scandir(u"/")), [(n, (u"/" + n) in dirs) for n in top(u"/")]
    elif q == "readbytes-deep":
        got, want = ro.readbytes(pfile), files[pfile]
    elif q == "openbin-deep":
        with ro.openbin(pfile) as fh:
            got = fh.read()
        want = files[pfile]
    else:
        raise AssertionError(q)
    if got != want:
        if isinstance(want, list):
            return ("incomplete" if set(got) < set(want) else "wrong",
                    dict(got_len=len(got), want_len=len(want), missing=[repr(x) for x in sorted(set(want) - set(got))[:3]]))
        return "wrong", dict(got=repr(got)[:80], want=repr(want)[:80])
    return None


def fu_round(fam, target, path, data, queries, delays, files, dirs, probes):
    """One fresh object, len(queries) threads; returns the discrepancies."""
    import threading
    ro, fobj = fu_open(fam, target, path, data)
    out = []
    n = len(queries)
    release = threading.Barrier(n + 1)
    firsts = threading.Barrier(n + 1)

    def ask(k, qq):
        try:
            r = fu_query(ro, qq, files, dirs, probes[k])
        except Exception as e:  # noqa
            r = ("exception", dict(error=common.exc_name(e), message=str(e)[:100]))
        if r is not None:
            out.append(dict(thread=k, start_delay=round(delays[k], 5) if k >= 0 else None,
                            first_query=queries[k] if k >= 0 else "(main thread, after the others finished)",
                            query=qq, kind=r[0], detail=r[1]))

    def body(k):
        try:
            release.wait(30)
            t_end = time.time() + delays[k]
            while time.time() < t_end:
                pass
            ask(k, queries[k])
        finally:
            try:
                firsts.wait(30)
            except threading.BrokenBarrierError:
                pass
        ask(k, "walk-all")
    ths = [threading.Thread(target=body, args=(k,)) for k in range(n)]
    old = sys.getswitchinterval()
    for t in ths:
        t.daemon = True
        t.start()
    sys.setswitchinterval(1e-6)
    try:
        try:
            release.wait(30)
            firsts.wait(30)
        except threading.BrokenBarrierError:
            pass
    finally:
        sys.setswitchinterval(old)
    for t in ths:
        t.join(30)
    if any(t.is_alive() for t in ths):
        out.append(dict(thread=-1, first_query="*", query="*", kind="hang", detail=None))
    else:
        ask(-1, "walk-all")
    for c in (ro, fobj):
        try:
            if c is not None:
                c.close()
        except Exception:  # noqa
            pass
    return out


def fu_prepare(case, workdir):
    """Regenerates the archive of a case; returns everything fu_round needs + the single-thread baseline."""
    rnd = random.Random(case["gen_seed"])
    members, files, dirs, implied = fu_members(rnd, case["members"])
    path, data = fu_write(case["fam"], members, workdir)
    fnames = [u"/" + m[0] for m in members if m[1] == "f"]
    # probes: the last member (its directory, the last implied directory), the first one, a random one
    spots = [fnames[-1], fnames[0], fnames[len(fnames) // 2]] + [rnd.choice(fnames) for _ in range(3)]
    probes = []
    for i in range(max(case["threads"], len(FU_QUERIES))):
        pf = spots[0] if i % 2 == 0 else spots[(i // 2) % len(spots)]
        probes.append((pf, pf.rsplit(u"/", 1)[0], implied[-1] if i % 3 else implied[len(implied) // 2]))
    # single-thread baseline: the oracle and the library agree on a quiet object; measures the build time
    ro, fobj = fu_open(case["fam"], case["target"], path, data)
    base = []
    try:
        t0 = time.time()
        ro.listdir(u"/")
        build = time.time() - t0
        for i, q in enumerate(FU_QUERIES + ["walk-all"]):
            try:
                r = fu_query(ro, q, files, dirs, probes[i % len(probes)])
            except Exception as e:  # noqa
                r = ("exception", dict(error=common.exc_name(e), message=str(e)[:100]))
            if r is not None:
                base.append(dict(query=q, kind=r[0], detail=r[1]))
    finally:
        ro.close()
        if fobj is not None:
            fobj.close()
    return dict(path=path, data=data, files=files, dirs=dirs, probes=probes, build=build, baseline=base,
                n_members=len(members), n_implied=len(implied))


def fu_run_case(case, workdir, prep=None):
    """case: dict(fam, target, gen_seed, members, threads, queries, fraction).  -> (discrepancies, prep)"""
    prep = prep or fu_prepare(case, workdir)
    if prep["baseline"]:
        return [dict(dict(b), thread="single", first_query=b["query"]) for b in prep["baseline"]], prep
    n = case["threads"]
    delays = [case["fraction"] * prep["build"] * k / max(1, n - 1) for k in range(n)]
    out = fu_round(case["fam"], case["target"], prep["path"], prep["data"], case["queries"], delays, prep["files"],
                   prep["dirs"], prep["probes"])
    return out, prep


def explore_first_use(rnd, thorough):
    cases = []
    for fam in ("zip", "tar"):
        for target in FU_TARGETS:
            for size in ([600, 1500, 3000] if thorough else [rnd.choice([500, 700, 900])]):
                gen_seed = rnd.randint(0, 10 ** 6)
                fracs = [0.0, 0.05, 0.1, 0.25, 0.5, 0.75, 1.0] if thorough else \
                    [0.0, rnd.choice([0.05, 0.1, 0.25]), rnd.choice([0.4, 0.5, 0.75]), 1.0]
                for fr in fracs:
                    for rep in range(2 if thorough and size <= 600 else 1):
                        qs = rnd.sample(FU_QUERIES, FU_THREADS)
                        cases.append(dict(fam=fam, target=target, gen_seed=gen_seed, members=size, threads=FU_THREADS,
                                          queries=qs, fraction=fr))
    return cases


def run_first_use(report, rnd, workdir, pending):
    """Drives the cases; one violation per signature (the case with the fewest threads / smallest archive that still
    shows it is looked for among the reruns)."""
    thorough = report.tier == "thorough"
    cases = explore_first_use(rnd, thorough)
    preps = {}
    hist = {}
    failing = {}
    t0 = time.time()
    builds = []
    for case in cases:
        key = (case["fam"], case["target"], case["gen_seed"], case["members"])
        out, prep = fu_run_case(case, workdir, preps.get(key))
        preps = {key: prep}                 # keep only the current archive's data
        builds.append(prep["build"])
        for name, val in (("family", case["fam"]), ("target", case["target"]), ("start_spread", "%.2f build time" % case["fraction"]),
                          ("members", str(prep["n_members"] // 250 * 250) + "+")):
            hist.setdefault(name, {})
            hist[name][val] = hist[name].get(val, 0) + 1
        for q in case["queries"]:
            hist.setdefault("first_query", {})
            hist["first_query"][q] = hist["first_query"].get(q, 0) + 1
        if out:
            single = any(o["thread"] == "single" for o in out)
            sig = fu_signature(case["fam"]) if not single else \
                "first use %s: a single thread does not see the member list the archive was written with" % case["fam"]
            failing.setdefault(sig, []).append((case, out))
    sig_count = {}
    for sig in sorted(failing):
        sig_count[sig] = len(failing[sig])
        entry = report.known_match(sig)
        if entry is not None:
            report.known_finding(entry)
            continue
        if sig in PENDING_FINDINGS:
            pending[sig] = pending.get(sig, 0) + len(failing[sig])
            continue
        case, out = failing[sig][0]
        # fewer threads still enough?
        small, small_out = case, out
        for n in (2, 3):
            cand = dict(case, threads=n, queries=case["queries"][:n])
            for _ in range(FU_RERUNS):
                o2, _p = fu_run_case(cand, workdir)
                if o2:
                    small, small_out = cand, o2
                    break
            if small is cand:
                break
        kinds = {}
        for c, o in failing[sig]:
            for x in o:
                kinds[x["kind"]] = kinds.get(x["kind"], 0) + 1
        report.violation(dict(kind="concurrent-first-use", signature=sig, case=small, failures=small_out[:8],
                              rounds_failing=len(failing[sig]), rounds_of_family=len([c for c in cases if c["fam"] == case["fam"]]),
                              discrepancy_kinds=kinds,
                              theorem="Props/C15.v (names_roundtrip: the tree read back is the tree written, for every reader)"))
    return dict(first_use_rounds=len(cases), first_use_threads_per_round=FU_THREADS,
                first_use_histograms=hist, first_use_failing_signatures=sig_count,
                first_use_single_thread_build_s=dict(min=round(min(builds), 4), max=round(max(builds), 4)) if builds else {},
                first_use_wall_s=round(time.time() - t0, 2),
                first_use_rule="ReadZipFS / ReadTarFS x target {path, BytesIO, open file handle} x generated archive "
                               "(quick 500-900 members, thorough 600/1500/3000; explicit and implied directories, depth "
                               "<= 4, written with zipfile / tarfile) x start spread f in 0..1 of the measured "
                               "single-thread index build time: a fresh object per round, %d threads released together, "
                               "thread k delayed by k/(N-1)*f*build, each running a different first query drawn from %s "
                               "with sys.setswitchinterval(1e-6) during the window, then walk-all by every thread and by "
                               "the main thread; oracle = the member list the harness wrote (single-thread baseline on "
                               "the same archive checked first)" % (FU_THREADS, FU_QUERIES))


# --------------------------------------------------------------------------- exploration

def explore(tier, seed):
    """Returns dict(roundtrips=[case...], crafted=[case...])."""
    rnd = random.Random(seed * 7919 + 15)
    thorough = tier == "thorough"
    trees = [[],                                                     # empty filesystem
             [dict(n=u"empty", t=1000000001, d=[])],                # one empty directory
             [dict(n=u"zero", t=1000000001, size=0, seed=0)],       # one empty file
             [dict(n=u"odd", t=T1980 + 1, size=5, seed=1), dict(n=u"first", t=T1980, size=5, seed=2),
              dict(n=u"frac", t=1000000000.5, size=1, seed=4), dict(n=u"y2038", t=2 ** 31 + 1, d=[])],
             [dict(n=nm, t=1000000000 + i, size=i % 3, seed=i) for i, nm in enumerate(NAMES)],   # every name as a file
             [dict(n=nm, t=1000000000 + 2 * i + 1, d=[dict(n=nm, t=1000000002, size=1, seed=i)])  # ... as a directory
              for i, nm in enumerate(NAMES)],
             chain_tree(rnd, 6)]
    n_rand = 220 if thorough else 40
    for _ in range(n_rand):
        trees.append(gen_tree(rnd, [rnd.randint(1, 40 if thorough else 14)]))
    if thorough:
        for _ in range(3):
            trees.append(gen_tree(rnd, [8], big=1024 * 1024))
        trees.append([dict(n=u"big", t=1000000003, size=1024 * 1024, seed=1),
                      dict(n=u"big0", t=1000000005, size=1024 * 1024 + 1, seed=3)])
    else:
        trees.append([dict(n=u"large", t=1000000003, size=200001, seed=1)])
    roundtrips = []
    for ti, tree in enumerate(trees):
        combos = [(f, t, g, r) for f in FORMATS for t in TEMPS for g in TARGETS for r in ROUTES]
        if not thorough and ti >= 7:
            # quick tier: every random tree sees every format and each of temp/target/route both ways
            combos = [(f, rnd.choice(TEMPS), rnd.choice(TARGETS), rnd.choice(ROUTES)) for f in FORMATS] + \
                     rnd.sample(combos, 6)
        if max([x.get("size", 0) for x in flatten(tree)] + [0]) >= 1024 * 1024:
            combos = [c for c in combos if c[0] in ("zip-stored", "zip-deflated", "tar", "tar.gz")] + \
                     [("tar.bz2", "mem", "bytesio", "compress"), ("tar.xz", "default", "path", "fs")]
        for f, t, g, r in combos:
            roundtrips.append(dict(tree=tree, fmt=f, temp=t, target=g, route=r, tz=None))
    # boundary modification times of each family, through every configuration of that family
    timecases = []
    tar_tree, tar_mem_tree, zip_tree = time_tree(TAR_TIMES), time_tree(TAR_TIMES + TAR_TIMES_MEM), time_tree(ZIP_TIMES)
    for f in FORMATS:
        for t in TEMPS:
            for g in TARGETS:
                for r in ROUTES:
                    tree = zip_tree if family(f) == "zip" else tar_mem_tree if t == "mem" else tar_tree
                    timecases.append(dict(tree=tree, fmt=f, temp=t, target=g, route=r, tz=None))
    for _ in range(60 if thorough else 8):
        tree = gen_tree(rnd, [rnd.randint(1, 14)], gen_mtime=gen_mtime_tar)
        for f in FORMATS:
            if family(f) == "tar":
                timecases.append(dict(tree=tree, fmt=f, temp=rnd.choice(TEMPS), target=rnd.choice(TARGETS),
                                      route=rnd.choice(ROUTES), tz=None))
    for t in TEMPS:
        for r in ROUTES:
            timecases.append(dict(tree=tar_tree, fmt="tar", temp=t, target="bytesio", route=r, tz=ALT_TZ))
            # (the last day of 2107 left out: the known local-time defect of the stat route would push it to 2108)
            timecases.append(dict(tree=time_tree([x for x in ZIP_TIMES if x < T2107_LAST - 86400]), fmt="zip-stored",
                                  temp=t, target="bytesio", route=r, tz=ALT_TZ))
    roundtrips += timecases
    # a non-UTC zone: same expectations (true epoch at the format's resolution)
    for tree in trees[3:4] + trees[7:7 + (12 if thorough else 3)]:
        for f in ("zip-deflated", "tar"):
            for t in TEMPS:
                for r in ROUTES:
                    roundtrips.append(dict(tree=tree, fmt=f, temp=t, target="bytesio", route=r, tz=ALT_TZ))
    crafted = []
    kinds = ("f", "d")
    singles = [(n, k) for n in CRAFT_NAMES for k in kinds]
    for fmt in ("zip", "tar"):
        for m in singles:
            crafted.append(dict(fmt=fmt, members=[list(m)]))
        crafted.append(dict(fmt=fmt, members=[]))
    crafted.append(dict(fmt="tar", members=[["link", "l"]]))
    crafted.append(dict(fmt="tar", members=[["../link", "l"], ["a/../l2", "l"]]))
    pairs = [(a, b) for a in singles for b in singles]
    if not thorough:
        pairs = rnd.sample(pairs, 400)
        # the interesting structural pairs are always present
        pairs += [(("a", "f"), ("a/b", "f")), (("a/b", "f"), ("a", "f")), (("a", "f"), ("a", "d")),
                  (("a", "d"), ("a", "f")), (("a", "f"), ("a", "f")), (("a/b/c", "f"), ("a/b", "d")),
                  (("a/b/c", "f"), ("a", "f")), (("a/../b", "f"), ("b", "f")), (("/a/b", "f"), ("a/b", "f"))]
    for a, b in pairs:
        for fmt in ("zip", "tar"):
            crafted.append(dict(fmt=fmt, members=[list(a), list(b)]))
    for _ in range(1500 if thorough else 60):
        crafted.append(dict(fmt=rnd.choice(["zip", "tar"]),
                            members=[list(rnd.choice(singles)) for _i in range(rnd.randint(3, 4))]))
    kwcases, unmodelled, swept = explore_kw(rnd, thorough)
    hostcases = explore_host(random.Random(seed * 7919 + 1515), thorough)
    return dict(roundtrips=roundtrips, crafted=crafted, kwcases=kwcases, kw_unmodelled=unmodelled, kw_swept=swept,
                timecases=len(timecases), hostcases=hostcases)


def flatten(nodes):
    out = []
    for nd in nodes:
        out.append(nd)
        if "d" in nd:
            out += flatten(nd["d"])
    return out


def evaluate(plan, workdir, progress=False):
    """Runs every case; returns a list of (family, case, signature, details, small) -- one entry per
    (case, failure kind); `small` is the minimal crafted case carrying the signature (None for round trips)."""
    failures = []
    canon = {}
    t0 = time.time()
    KW_STATS.clear()
    HOST_STATS.clear()
    allrt = plan["roundtrips"] + plan.get("kwcases", []) + plan.get("hostcases", [])
    for i, case in enumerate(allrt):
        fails = run_roundtrip(case, workdir)
        if fails:
            failures.append(("roundtrip", case, roundtrip_signature(case, fails), fails[:6], None))
        if progress and i % 500 == 0:
            print("  roundtrip %d/%d %.1fs" % (i, len(allrt), time.time() - t0))
            sys.stdout.flush()
    for i, case in enumerate(plan["crafted"]):
        kinds, details = run_crafted(case, workdir)
        for kind in sorted(normal_kinds(kinds)):
            key = (case["fmt"], kind, members_classes([tuple(m) for m in case["members"]]))
            if key not in canon:
                small = shrink_crafted(case, kind, workdir)
                canon[key] = (crafted_signature(small, kind), small)
            sig, small = canon[key]
            failures.append(("crafted", case, sig, [d for d in details if d["kind"] in kind or kind in d["kind"]
                                                    or d["kind"].split(":", 1)[-1] in kind][:4], small))
        if progress and i % 1000 == 0:
            print("  crafted %d/%d %.1fs" % (i, len(plan["crafted"]), time.time() - t0))
            sys.stdout.flush()
    return failures


def local_known():
    if os.path.exists(LOCAL_KNOWN):
        with open(LOCAL_KNOWN) as fh:
            data = json.load(fh)
        if isinstance(data, dict):
            data = data.get("known", [])
        return [k for k in data if k.get("property") == PID]
    return []


def coverage_of(plan, failures, sigs):
    rt = plan["roundtrips"]
    hist = {}

    def h(name, key):
        hist.setdefault(name, {})
        hist[name][key] = hist[name].get(key, 0) + 1
    distinct = set()
    for c in rt:
        h("format", c["fmt"])
        h("temp_fs", c["temp"])
        h("target", c["target"])
        h("route", c["route"])
        h("tz", c["tz"] or "process default")
        n = count_nodes(c["tree"])
        h("tree_nodes", "0" if n == 0 else "1-5" if n <= 5 else "6-15" if n <= 15 else "16+")
        h("tree_depth", str(tree_depth(c["tree"])))
        fl = flatten(c["tree"])
        h("largest_file", str(max([x.get("size", 0) for x in fl] + [0]) >= 1024 * 1024 and ">=1MiB" or "<1MiB"))
        if any("d" in x and not x["d"] for x in fl):
            h("features", "has empty directory")
        if any(x.get("size") == 0 for x in fl):
            h("features", "has empty file")
        if any(any(ord(ch) > 127 for ch in x["n"]) for x in fl):
            h("features", "has non-ascii name")
        if any(x["t"] != int(x["t"]) for x in fl):
            h("features", "has fractional mtime")
        if any(int(x["t"]) % 2 for x in fl):
            h("features", "has odd-second mtime")
        if n:
            distinct.add(json.dumps([c["tree"], c["fmt"], c["temp"], c["target"], c["route"], c["tz"]], sort_keys=True))
    for c in plan["crafted"]:
        h("crafted_format", c["fmt"])
        h("crafted_members", str(len(c["members"])))
        h("crafted_class", members_classes([tuple(m) for m in c["members"]]))
        if c["members"]:
            distinct.add(json.dumps([c["fmt"], c["members"]]))
    kwc = plan.get("kwcases", [])
    for c in kwc:
        kw = c["kw"]
        h("kw_family", kw["fam"])
        h("kw_write_callable", kw["api"])
        h("kw_read_callable", kw["read"])
        h("kw_target", kw["target"])
        h("kw_file_name", kw["ext"])
        h("kw_oracle", "names outside the encoding: same tree or write raises" if kw["lenient"] else "same tree")
        if not kw["args"] and not kw["read_args"]:
            h("kw_parameter_value", "(all defaults)")
        for side, a in (("", kw["args"]), ("read:", kw["read_args"])):
            for k in sorted(a):
                if side == "" or k not in kw["args"]:
                    h("kw_parameter_value", "%s%s=%r" % (side, k, a[k]))
        fl = flatten(c["tree"])
        if any(len(x["n"]) > 255 for x in fl):
            h("kw_features", "has a component of more than 255 characters")
        distinct.add(json.dumps([c["tree"], kw], sort_keys=True))
    hostc = plan.get("hostcases", [])
    for c in hostc:
        h("host_layout", c["host"]["layout"])
        h("host_route_and_source", "%s: %s" % ("fs.compress.write_*" if c["route"] == "compress" else
                                               "write-mode ZipFS/TarFS filled through getsyspath", c["host"]["source"]))
        h("host_format", c["fmt"])
        h("host_target", c["target"])
        for ln in c["host"]["links"]:
            h("host_link_kind", ln["k"] + ("" if ln["k"] != "sym" else ":" + ln["how"]))
        distinct.add(json.dumps([c["tree"], c["host"], c["fmt"], c["target"], c["route"]], sort_keys=True))
    for s in sigs:
        hist.setdefault("failure_signatures", {})[s] = sigs[s]
    samples = []
    for c in (rt[3 * 48] if len(rt) > 3 * 48 else rt[0], rt[len(rt) // 2], rt[-1]):
        samples.append(dict(kind="roundtrip", format=c["fmt"], temp_fs=c["temp"], target=c["target"], route=c["route"],
                            tz=c["tz"], nodes=count_nodes(c["tree"]),
                            tree=c["tree"] if count_nodes(c["tree"]) <= 6 else c["tree"][:2]))
    for c in (plan["crafted"][0], plan["crafted"][len(plan["crafted"]) // 2], plan["crafted"][-1]):
        samples.append(dict(kind="crafted", format=c["fmt"], members=c["members"]))
    tb = [c for c in rt if any(x["t"] < T1980 or x["t"] > 4102444799 for x in flatten(c["tree"]))]
    return dict(
        evaluations=len(rt) + len(plan["crafted"]) + len(kwc) + len(hostc), distinct_nontrivial=len(distinct),
        host_tree_cases=len(hostc), host_tree_built=dict(HOST_STATS),
        host_tree_rule="trees built with os.* below the directory of the source filesystem: hard-linked names (2 and 3 "
                       "names of one file, same / other directory, empty and 64 KiB files), symbolic links to files "
                       "and directories (relative, absolute, chained, non-normalised, leaving the tree, dangling), "
                       "permission bits 0444..04755 / 0000 (when root) on files and directories, FIFOs (fed by a "
                       "writer thread), random trees decorated with random links; x route {fs.compress.write_zip / "
                       "write_tar over OSFS, TempFS, SubFS(OSFS), SubFS(TempFS), read_only(OSFS); write-mode ZipFS / "
                       "TarFS with the default temp_fs, temp_fs=OSFS(...), temp_fs='temp://' filled through "
                       "getsyspath} x both families (quick: one format of each family per layout x route; thorough: "
                       "all six formats x both targets); expectation = what the source filesystem presents "
                       "(listdir + getinfo(details) + readbytes), compared like every other round trip; a tree with "
                       "dangling links may be refused",
        time_boundary_cases=plan.get("timecases", 0),
        time_boundaries=dict(tar=TAR_TIMES, tar_memory_temp_only=TAR_TIMES_MEM, zip=ZIP_TIMES,
                             cases_with_times_outside_1980_2099=len(tb),
                             cases_with_mtime_zero=len([c for c in rt if any(x["t"] == 0 for x in flatten(c["tree"]))])),
        kw_cases=len(kwc), kw_swept_parameters=plan.get("kw_swept", {}),
        kw_unmodelled_parameters=plan.get("kw_unmodelled", []),
        kw_outcomes=dict(KW_STATS), kw_encodings=ENCODINGS, kw_name_pool=len(KW_POOL) + len(KW_LONG_COMPONENT),
        rule="round trips: fixed trees (empty, single empty dir/file, time boundaries, every pool name as file and "
             "as directory, a depth-6 chain) + random trees (<= 14 nodes quick / <= 40 thorough, depth <= 6, 1 MiB "
             "files in thorough) x {zip stored, zip deflated, tar, tar.gz, tar.bz2, tar.xz} x temp_fs/source "
             "{TempFS, mem://} x target {path, BytesIO} x route {ZipFS/TarFS(write=True), fs.compress.write_*} "
             "(all 48 combinations for the fixed trees, and for every tree in thorough; 12 per random tree in quick) "
             "+ non-UTC zone runs; compared in both directions via walk, getinfo(details), readbytes, openbin, "
             "listdir, exists/isdir/isfile; mtime expected = floor(t) for tar, floor(t) rounded down to an even "
             "second for zip. time bounds: a tree carrying every boundary time of the family (tar 0, +-1, -2**31, "
             "2**31-1.., 2**33.., fractions; zip 1980..2107, even/odd/fractional seconds) on files and directories "
             "x every configuration of the family + random trees over the tar time range. keywords: every keyword "
             "parameter found by inspect.signature on ZipFS/TarFS (write and read mode), Write*/Read* classes, "
             "write_zip/write_tar methods, fs.compress.write_*, open_fs('zip://'/'tar://') x each documented value "
             "(one at a time in quick, full product for constructors and fs.compress in thorough) on a tree of "
             "non-ASCII / long / odd names restricted to the names the requested encoding can express (strict) or not "
             "restricted (then a write error is acceptable); the compression found in the archive must be the one "
             "requested or implied by the file name. crafted: every single hostile/odd member name as file and as directory, pairs "
             "(sampled in quick, all in thorough), random 3-4 member archives, symlink members; each followed by a "
             "harmless member; opened by path inside a canary directory tree; non-trivial = distinct non-empty "
             "(tree, configuration) and distinct non-empty member lists",
        samples=samples, histograms=hist, failing_cases=len(failures))


def run(report):
    proof = common.preflight(report)
    workdir = tempfile.mkdtemp(prefix="pyfs2verif_c15_")
    try:
        if not selftest_canary(workdir):
            report.violation(dict(kind="harness-selftest", what="canary detectors did not fire",
                                  theorem="Props/C15.v"), no_input=True)
        plan = explore(report.tier, report.seed)
        failures = evaluate(plan, workdir)
        known_local = local_known()
        sig_count = {}
        pending = {}
        reported = set()
        for famly, case, sig, details, small in failures:
            sig_count[sig] = sig_count.get(sig, 0) + 1
            entry = report.known_match(sig)
            if entry is None:
                for k in known_local:
                    if k.get("signature") == sig:
                        entry = k
            if entry is not None:
                report.known_finding(entry)
                continue
            if sig in PENDING_FINDINGS:
                pending[sig] = pending.get(sig, 0) + 1
                continue
            if sig in reported or len(reported) >= 12:
                continue
            reported.add(sig)
            if famly == "crafted":
                kinds, det = run_crafted(small, workdir)
                report.violation(dict(kind="crafted-archive", signature=sig, case=small,
                                      failure_kinds=sorted(normal_kinds(kinds)), details=det,
                                      theorem="Props/C15.v (tar_names_safe / tar_drops_climbers)"))
            else:
                small = shrink_tree(case, sig, workdir)
                fails = run_roundtrip(small, workdir)
                report.violation(dict(kind="roundtrip", signature=sig, case=small, failures=fails[:6],
                                      theorem="Props/C15.v (names_roundtrip)"))
        cov = coverage_of(plan, failures, sig_count)
        cov.update(run_first_use(report, random.Random(report.seed * 7919 + 1516), workdir, pending))
        cov["pending_findings_seen"] = pending
        for u in plan.get("kw_unmodelled", []):
            print("NOTE: C15 keyword parameter without a value table (not swept): %s" % u)
    finally:
        shutil.rmtree(workdir, ignore_errors=True)
    # tree-level model (Archive/TreeArch*.v): writers' member lists and readers' presented trees vs the model
    import h_treearch
    cov.update(h_treearch.run_tree_checks(report, random.Random(report.seed + 1500), report.tier))
    return report.finish(proof, cov, assumptions=[
        "zipfile / tarfile / zlib / bz2 / lzma of the running Python are trusted as the archive codecs",
        "modification times are compared at the format's resolution: tar floor(t); zip floor(t) rounded down to an "
        "even second; the expectation is the true epoch value in every time zone",
        "the Coq model covers the member-name handling (ReadTarFS._directory_entries, writer name generation), "
        "not the byte-level archive formats",
        "process time zone at run time: UTC offset %d s" % local_offset()])


def replay(report, path):
    with open(path) as fh:
        d = json.load(fh)
    if d.get("kind") == "archive-tree-differs-from-model":
        import h_treearch
        r = h_treearch.replay_tree(d)
        print(r)
        return 0 if r["same"] else 1
    workdir = tempfile.mkdtemp(prefix="pyfs2verif_c15_")
    try:
        case = d.get("case")
        if case is None:
            print("nothing to replay:", d.get("what"))
            return 1
        if d.get("kind") == "concurrent-first-use":
            print("case:", case)
            bad = 0
            for i in range(FU_RERUNS):
                out, prep = fu_run_case(case, workdir)
                print("run %d (single-thread build %.4f s, %d members): %d discrepancies" % (
                    i, prep["build"], prep["n_members"], len(out)))
                for x in out[:6]:
                    print("  ", x)
                bad += bool(out)
            return 1 if bad else 0
        if d.get("kind") == "crafted-archive":
            kinds, det = run_crafted(case, workdir)
            print("members:", case["members"], "format:", case["fmt"])
            print("failure kinds:", sorted(normal_kinds(kinds)))
            for x in det:
                print("  ", x)
            return 1 if kinds else 0
        fails = run_roundtrip(case, workdir)
        print("configuration:", dict((k, case.get(k)) for k in ("fmt", "temp", "target", "route", "tz", "kw")))
        for f in fails[:10]:
            print("  ", f)
        return 1 if fails else 0
    finally:
        shutil.rmtree(workdir, ignore_errors=True)


if __name__ == "__main__":
    # stand-alone exploration (no Coq preflight): python h_archive.py [quick|thorough] [seed]
    tier = sys.argv[1] if len(sys.argv) > 1 else "quick"
    seed = int(sys.argv[2]) if len(sys.argv) > 2 else 0
    wd = tempfile.mkdtemp(prefix="pyfs2verif_c15_")
    t0 = time.time()
    plan = explore(tier, seed)
    print("cases: %d round trips, %d keyword, %d crafted" % (len(plan["roundtrips"]), len(plan["kwcases"]), len(plan["crafted"])))
    fl = evaluate(plan, wd, progress=True)
    sigs = {}
    for famly, case, sig, details, small in fl:
        sigs.setdefault(sig, []).append((case, details, small))
    for sg in sorted(sigs):
        c, det, small = sigs[sg][0]
        print("%5d  %s" % (len(sigs[sg]), sg))
        if small is not None:
            print("         e.g.", small["fmt"], small["members"], det[:1])
        else:
            c2 = shrink_tree(c, sg, wd)
            print("         e.g.", dict((k, c2.get(k)) for k in ("fmt", "temp", "target", "route", "tz", "kw")), c2["tree"],
                  run_roundtrip(c2, wd)[:2])
    cov = coverage_of(plan, fl, dict((k, len(v)) for k, v in sigs.items()))
    print("evaluations", cov["evaluations"], "distinct_nontrivial", cov["distinct_nontrivial"])
    print("wall %.1fs" % (time.time() - t0))
    shutil.rmtree(wd, ignore_errors=True)
