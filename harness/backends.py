"""Constructors of the real filesystems under test, with snapshots of their storage."""
from __future__ import print_function

import io
import os
import shutil
import tempfile

import common
import fsops
from common import r_str, r_bytes


def snap_os(root):
    """Snapshot of an OS directory through os.* (the underlying storage of OSFS/TempFS)."""
    def go(p):
        if os.path.isdir(p):
            names = sorted(os.listdir(p))
            return "D@N{" + ";".join(r_str(n) + ":" + go(os.path.join(p, n)) for n in names) + "}"
        with open(p, "rb") as fh:
            data = fh.read()
        return "F" + r_bytes(data) + "@" + fsops.canon_mt(os.stat(p).st_mtime)
    return go(root)


class Backend(object):
    name = "?"
    exact_model = None      # name of the model that must match step by step, if any

    def make(self):
        raise NotImplementedError

    def snapshot(self):
        return fsops.snap_api(self.fs)

    def close(self):
        try:
            self.fs.close()
        except Exception:
            # clean-up only: do not let __del__ retry a failed close() (that failure mode is C18's)
            try:
                self.fs._closed = True
            except Exception:
                pass


class Mem(Backend):
    name = "MemoryFS"
    exact_model = "mem"

    def make(self):
        from fs.memoryfs import MemoryFS
        self.fs = MemoryFS()
        return self.fs

    def snapshot(self):
        return fsops.snap_memoryfs(self.fs)


class OS(Backend):
    name = "OSFS"

    def make(self):
        from fs.osfs import OSFS
        self.dir = tempfile.mkdtemp(prefix="pyfs2verif_")
        self.root = os.path.join(self.dir, "root")
        os.mkdir(self.root)
        self.fs = OSFS(self.root)
        return self.fs

    def snapshot(self):
        return snap_os(self.root)

    def close(self):
        Backend.close(self)
        common.rm_rf(self.dir)


class Temp(Backend):
    name = "TempFS"

    def make(self):
        from fs.tempfs import TempFS
        self.fs = TempFS()
        self.root = self.fs.getsyspath("/")
        return self.fs

    def snapshot(self):
        return snap_os(self.root)


class SubMem(Backend):
    name = "SubFS(MemoryFS)"

    def make(self):
        from fs.memoryfs import MemoryFS
        self.parent = MemoryFS()
        self.parent.makedirs("top/sub")
        self.parent.writebytes("top/canary", b"canary")
        self.fs = self.parent.opendir("top/sub")
        return self.fs

    def snapshot(self):
        e = self.parent.root.get_entry("top").get_entry("sub")

        class _F(object):
            root = e
        return fsops.snap_memoryfs(_F)

    def outside_ok(self):
        return self.parent.readbytes("top/canary") == b"canary" and \
            sorted(self.parent.listdir("top")) == ["canary", "sub"]


class SubOS(OS):
    name = "SubFS(OSFS)"

    def make(self):
        OS.make(self)
        self.parent = self.fs
        self.parent.makedirs("top/sub")
        self.parent.writebytes("top/canary", b"canary")
        self.root = os.path.join(self.root, "top", "sub")
        self.fs = self.parent.opendir("top/sub")
        return self.fs


DECOY_NAMES = ["a", "b", "c", "ab", "a.b"]


def _plant_decoys(parent):
    """Files and directories OUTSIDE the sub-directory whose names equal the names the histories use inside it:
    a wrapper that forgets to translate a path hits these (parent root and the sub-directory's siblings)."""
    for d in ("", "top"):
        for i, n in enumerate(DECOY_NAMES):
            q = (d + "/" + n).lstrip("/")
            if i % 2 == 0:
                parent.writebytes(q, ("decoy:" + q).encode())
            else:
                parent.makedirs(q + "/a")
                parent.writebytes(q + "/a/b", ("decoy:" + q).encode())


def _decoys_state(parent):
    out = []
    for d in ("", "top"):
        for i, n in enumerate(DECOY_NAMES):
            q = (d + "/" + n).lstrip("/")
            try:
                if i % 2 == 0:
                    out.append((q, parent.readbytes(q)))
                else:
                    out.append((q, sorted(parent.listdir(q)), sorted(parent.listdir(q + "/a")), parent.readbytes(q + "/a/b")))
            except Exception as e:  # noqa
                out.append((q, "GONE:" + type(e).__name__))
    out.append(("/", sorted(parent.listdir("/"))))
    out.append(("top", sorted(parent.listdir("top"))))
    return out


class SubMemDecoy(SubMem):
    """SubFS(MemoryFS) whose parent holds same-named decoys outside the sub-directory."""
    name = "SubFS(MemoryFS)+decoys"

    def make(self):
        SubMem.make(self)
        _plant_decoys(self.parent)
        self._outside0 = _decoys_state(self.parent)
        return self.fs

    def outside_changed(self):
        now = _decoys_state(self.parent)
        return None if now == self._outside0 else [x for x in now if x not in self._outside0]


class SubOSDecoy(SubOS):
    name = "SubFS(OSFS)+decoys"

    def make(self):
        SubOS.make(self)
        _plant_decoys(self.parent)
        self._outside0 = _decoys_state(self.parent)
        return self.fs

    def outside_changed(self):
        now = _decoys_state(self.parent)
        return None if now == self._outside0 else [x for x in now if x not in self._outside0]


class SubSub(Backend):
    name = "SubFS(SubFS(MemoryFS))"

    def make(self):
        from fs.memoryfs import MemoryFS
        self.parent = MemoryFS()
        self.parent.makedirs("a/b/c")
        self.fs = self.parent.opendir("a").opendir("b/c")
        return self.fs


class Wrap(Backend):
    name = "WrapFS(MemoryFS)"

    def make(self):
        from fs.memoryfs import MemoryFS
        from fs.wrapfs import WrapFS
        self.inner = MemoryFS()
        self.fs = WrapFS(self.inner)
        return self.fs

    def snapshot(self):
        return fsops.snap_memoryfs(self.inner)


class WrapOS(OS):
    name = "WrapFS(OSFS)"

    def make(self):
        from fs.wrapfs import WrapFS
        OS.make(self)
        self.inner = self.fs
        self.fs = WrapFS(self.inner)
        return self.fs


class MountDefault(Backend):
    name = "MountFS(no mounts)"

    def make(self):
        from fs.mountfs import MountFS
        self.fs = MountFS()
        return self.fs


class MountSub(Backend):
    name = "MountFS/m (MemoryFS mounted)"

    def make(self):
        from fs.mountfs import MountFS
        from fs.memoryfs import MemoryFS
        self.m = MountFS()
        self.inner = MemoryFS()
        self.other = MemoryFS()
        self.other.writebytes("canary", b"canary")
        self.m.mount("m", self.inner)
        self.m.mount("mm", self.other)
        self.fs = self.m.opendir("m")
        return self.fs

    def snapshot(self):
        return fsops.snap_memoryfs(self.inner)

    def outside_ok(self):
        return self.other.readbytes("canary") == b"canary" and self.other.listdir("/") == ["canary"]


class MultiOne(Backend):
    name = "MultiFS(one write member)"

    def make(self):
        from fs.multifs import MultiFS
        from fs.memoryfs import MemoryFS
        self.fs = MultiFS()
        self.inner = MemoryFS()
        self.fs.add_fs("w", self.inner, write=True)
        return self.fs

    def snapshot(self):
        return fsops.snap_memoryfs(self.inner)


class ZipW(Backend):
    name = "WriteZipFS(before close)"

    def make(self):
        from fs.zipfs import ZipFS
        self.target = io.BytesIO()
        self.fs = ZipFS(self.target, write=True)
        return self.fs


class TarW(Backend):
    name = "WriteTarFS(before close)"

    def make(self):
        from fs.tarfs import TarFS
        self.target = io.BytesIO()
        self.fs = TarFS(self.target, write=True)
        return self.fs


ALL = [Mem, OS, Temp, SubMem, SubOS, SubSub, Wrap, WrapOS, MountDefault, MountSub, MultiOne, ZipW, TarW]
BY_NAME = dict((b.name, b) for b in ALL)


# ---------------------------------------------------------------- fs.wrap wrappers (NOT in ALL: used by C10/C11/C13 only)

class CachedDirMem(Backend):
    """fs.wrap.cache_directory(MemoryFS): serves directory information from a per-instance cache."""
    name = "cache_directory(MemoryFS)"

    def make(self):
        from fs.memoryfs import MemoryFS
        from fs.wrap import cache_directory
        self.inner = MemoryFS()
        self.fs = cache_directory(self.inner)
        return self.fs

    def snapshot(self):     # the storage, not the (possibly stale, by design) cached view
        return fsops.snap_memoryfs(self.inner)


class CachedDirOS(OS):
    name = "cache_directory(OSFS)"

    def make(self):
        from fs.wrap import cache_directory
        OS.make(self)
        self.inner = self.fs
        self.fs = cache_directory(self.inner)
        return self.fs


class CachedDirSub(SubMem):
    name = "cache_directory(SubFS(MemoryFS))"

    def make(self):
        from fs.wrap import cache_directory
        SubMem.make(self)
        self.inner = self.fs
        self.fs = cache_directory(self.inner)
        return self.fs


class SubCachedDir(Backend):
    name = "SubFS(cache_directory(MemoryFS))"

    def make(self):
        from fs.memoryfs import MemoryFS
        from fs.wrap import cache_directory
        self.parent = MemoryFS()
        self.parent.makedirs("top/sub")
        self.parent.writebytes("top/canary", b"canary")
        self.cached = cache_directory(self.parent)
        self.fs = self.cached.opendir("top/sub")
        self.inner = self.parent.opendir("top/sub")
        return self.fs

    snapshot = SubMem.snapshot


class ReadOnlyMem(Backend):
    """fs.wrap.read_only(MemoryFS): content is prepared through `inner`, calls go through the wrapper."""
    name = "read_only(MemoryFS)"
    setup_via_inner = True

    def make(self):
        from fs.memoryfs import MemoryFS
        from fs.wrap import read_only
        self.inner = MemoryFS()
        self.fs = read_only(self.inner)
        return self.fs

    def snapshot(self):
        return fsops.snap_memoryfs(self.inner)


class ReadOnlyOS(OS):
    name = "read_only(OSFS)"
    setup_via_inner = True

    def make(self):
        from fs.wrap import read_only
        OS.make(self)
        self.inner = self.fs
        self.fs = read_only(self.inner)
        return self.fs


class ReadOnlyCachedDir(ReadOnlyMem):
    name = "read_only(cache_directory(MemoryFS))"
    setup_via_inner = True

    def make(self):
        from fs.memoryfs import MemoryFS
        from fs.wrap import read_only, cache_directory
        self.inner = MemoryFS()
        self.fs = read_only(cache_directory(self.inner))
        return self.fs


class CachedDirReadOnly(ReadOnlyMem):
    name = "cache_directory(read_only(MemoryFS))"
    setup_via_inner = True

    def make(self):
        from fs.memoryfs import MemoryFS
        from fs.wrap import read_only, cache_directory
        self.inner = MemoryFS()
        self.fs = cache_directory(read_only(self.inner))
        return self.fs


WRAPPERS = [CachedDirMem, CachedDirOS, CachedDirSub, SubCachedDir, ReadOnlyMem, ReadOnlyOS, ReadOnlyCachedDir,
            CachedDirReadOnly]
BY_NAME.update((b.name, b) for b in WRAPPERS)


# ---------------------------------------------------------------- compositions that GROW while they are in use
# (NOT in ALL; C01 adds them to its backend list).  The composition is queried before and between the additions, so
# whatever it caches about its members (sorted member sequence, mount table) is built before the members are complete.
# run_histories() calls tick(k) before call k of a history.

def _use(fs):
    """A few queries, whatever they answer (a MultiFS without members has not even a root)."""
    for call in (lambda: fs.exists("/"), lambda: fs.listdir("/"), lambda: fs.isdir("a"), lambda: fs.getinfo("/"),
                 lambda: list(fs.walk.files())):
        try:
            call()
        except Exception:  # noqa
            pass


class MultiLate(Backend):
    """MultiFS used before it has any member; the write layer (priority 10) comes after the first queries, then -
    between the calls of the history - a read-only VIEW of the write layer's storage with the default priority, and
    empty members with default, lower and higher priorities.  Every member shows the one storage (or nothing), so the
    reference semantics applies as long as the write layer is searched before the read-only view of it."""
    name = "MultiFS(write layer and lower-priority members added after first use)"
    write_priority = 10
    late = {0: ("view", 0), 2: ("empty0", 0), 4: ("emptylow", -3), 6: ("emptyhigh", 50), 8: ("view2", 0)}

    def make(self):
        from fs.multifs import MultiFS
        from fs.memoryfs import MemoryFS
        self.fs = MultiFS()
        _use(self.fs)
        self.inner = MemoryFS()
        self.fs.add_fs("w", self.inner, write=True, priority=self.write_priority)
        _use(self.fs)
        return self.fs

    def tick(self, k):
        from fs.memoryfs import MemoryFS
        from fs.wrap import read_only
        if k in self.late:
            name, prio = self.late[k]
            _use(self.fs)
            member = read_only(self.inner) if name.startswith("view") else MemoryFS()
            if prio == 0:
                self.fs.add_fs(name, member)            # the default priority, not spelled out
            else:
                self.fs.add_fs(name, member, priority=prio)

    def snapshot(self):
        return fsops.snap_memoryfs(self.inner)


class MultiLateDefault(MultiLate):
    """The same with a default-priority write layer above views of negative priority."""
    name = "MultiFS(default-priority write layer added after first use, members below it added later)"
    write_priority = 0
    late = {0: ("view", -1), 1: ("empty0", -1), 3: ("emptylow", -3), 5: ("view2", -2)}

    def make(self):
        from fs.multifs import MultiFS
        from fs.memoryfs import MemoryFS
        self.fs = MultiFS()
        _use(self.fs)
        self.fs.add_fs("first", MemoryFS(), priority=-5)
        _use(self.fs)
        self.inner = MemoryFS()
        self.fs.add_fs("w", self.inner, write=True)
        return self.fs


class MountLate(Backend):
    """MountFS used before anything is mounted; the filesystem under test is mounted after the first queries, further
    filesystems are mounted (beside it, below a deeper path) between the calls of the history."""
    name = "MountFS/m (mounted after first use, more mounts added later)"
    late = {0: "mm", 2: "n/deep", 5: "m2", 7: "n/other"}

    def make(self):
        from fs.mountfs import MountFS
        from fs.memoryfs import MemoryFS
        self.m = MountFS()
        _use(self.m)
        self.inner = MemoryFS()
        self.m.mount("m", self.inner)
        _use(self.m)
        self.fs = self.m.opendir("m")
        self.others = []
        return self.fs

    def tick(self, k):
        from fs.memoryfs import MemoryFS
        if k in self.late:
            _use(self.m)
            o = MemoryFS()
            o.writebytes("canary", b"canary")
            self.others.append(o)
            self.m.mount(self.late[k], o)

    def snapshot(self):
        return fsops.snap_memoryfs(self.inner)

    def outside_changed(self):
        bad = [i for i, o in enumerate(self.others) if o.listdir("/") != ["canary"] or o.readbytes("canary") != b"canary"]
        return bad or None


GROWING = [MultiLate, MultiLateDefault, MountLate]
BY_NAME.update((b.name, b) for b in GROWING)


# ---------------------------------------------------------------- OS trees with symbolic links (NOT in ALL; C10)
# The content comes from a history executed through the filesystem object; then symbolic links are created below the
# root with os.symlink: to a file (relative, absolute, a link to a link), to a directory, from inside a directory to
# a file above it - and, confined to a directory of their own, links whose target does not exist.

LINK_FILES = [("linked_f.txt", b"link target"), ("linked_d/inner.txt", b"inner"), ("linked_d/sub/deep.txt", b"deep"),
              ("dangling_d/plain.txt", b"beside the dangling links")]
DANGLING_DIR = "/dangling_d"


def plant_links(root):
    """Creates the link fixture below the OS directory root; returns the paths of the links (as FS paths)."""
    for rel, data in LINK_FILES:
        p = os.path.join(root, rel)
        if not os.path.isdir(os.path.dirname(p)):
            os.makedirs(os.path.dirname(p))
        with open(p, "wb") as fh:
            fh.write(data)
    links = [("lf", "linked_f.txt"), ("ld", "linked_d"), ("labs", os.path.join(root, "linked_f.txt")), ("lchain", "lf"),
             ("linked_d/up_f", "../linked_f.txt"), ("linked_d/sub/to_inner", "../inner.txt"),
             ("dangling_d/gone", "no/such/target"), ("dangling_d/gone_abs", os.path.join(root, "never-there"))]
    for entry in sorted(os.listdir(root)):       # + links to what the history created (first file, first directory)
        p = os.path.join(root, entry)
        if entry in ("linked_d", "dangling_d", "linked_f.txt") or os.path.islink(p):
            continue
        kind = "hd" if os.path.isdir(p) else "hf"
        if not any(l == "l" + kind for l, _t in links):
            links.append(("l" + kind, entry))
    for l, t in links:
        os.symlink(t, os.path.join(root, l))
    return ["/" + l for l, _t in links]


class _Linked(object):
    """Mix-in for the OS-backed backends: load(history) executes the history, then plants the link fixture."""

    def load(self, h):
        for o in h:
            fsops.execute(self.fs, o)
        self.known_paths = plant_links(self.root)
        return self.fs


class OSLinks(_Linked, OS):
    name = "OSFS(tree with symbolic links)"


class TempLinks(_Linked, Temp):
    name = "TempFS(tree with symbolic links)"


class SubOSLinks(_Linked, SubOS):
    name = "SubFS(OSFS)(tree with symbolic links)"


class WrapOSLinks(_Linked, WrapOS):
    name = "WrapFS(OSFS)(tree with symbolic links)"


class CachedDirOSLinks(_Linked, CachedDirOS):
    name = "cache_directory(OSFS)(tree with symbolic links)"

    def load(self, h):          # the cache wrapper is created over the finished tree
        from fs.wrap import cache_directory
        for o in h:
            fsops.execute(self.inner, o)
        self.known_paths = plant_links(self.root)
        self.fs = cache_directory(self.inner)
        return self.fs


class ReadOnlyOSLinks(_Linked, ReadOnlyOS):
    name = "read_only(OSFS)(tree with symbolic links)"

    def load(self, h):
        for o in h:
            fsops.execute(self.inner, o)
        self.known_paths = plant_links(self.root)
        return self.fs


LINKED = [OSLinks, TempLinks, SubOSLinks, WrapOSLinks, CachedDirOSLinks, ReadOnlyOSLinks]
BY_NAME.update((b.name, b) for b in LINKED)


# ---------------------------------------------------------------- FTPFS on a loop-back server (NOT in ALL)
# harness/ftpserver.py starts an in-process pyftpdlib server on 127.0.0.1 that serves a fresh directory; the snapshot
# is that directory read with os.* (once every transfer has ended), not what the library says about it.  Callers ask
# network_available() first and say so in their evidence when it is False.

class FTP(Backend):
    name = "FTPFS"
    variant = "normal"
    network = True

    def make(self):
        import ftpserver
        self.fs, self.root, self._stop = ftpserver.make(self.variant)
        self.server = self._stop.server
        return self.fs

    def settle(self):
        """Wait until the server has stored whatever the clients sent before they closed their data connections."""
        return self.server.settle()

    def snapshot(self):
        self.settle()
        return snap_os(self.root)

    def close(self):
        try:
            self._stop()
        except Exception:
            pass


class FTPNoMLSD(FTP):
    """The server neither advertises nor implements MLST/MLSD: FTPFS lists with LIST and fs._ftp_parse."""
    name = "FTPFS(server without MLST/MLSD)"
    variant = "nomlsd"


NETWORK = [FTP, FTPNoMLSD]
BY_NAME.update((b.name, b) for b in NETWORK)


def network_available():
    """(True, "") when the loop-back FTP server can be started here, else (False, why)."""
    try:
        import ftpserver
        return ftpserver.available()
    except Exception as e:  # noqa
        return False, "%s: %s" % (type(e).__name__, e)
