"""C14 — glob and wildcard matching follow the documented shell semantics.

fs.wildcard.match/imatch and fs.glob.match/imatch (from /repo) are compared with the
recursive reference matchers of Glob/ShellSpec.v (extracted); fs.glob(pattern) on real
trees is compared with the filter of a complete, unpruned walk by the reference matcher;
count()/remove() must act on exactly that set."""
from __future__ import print_function

import itertools
import json
import random

import common
from common import tok

WTOK = ["a", "B", ".", "*", "?", "[ab]", "[!a]", "[a-c]", "-", "]", "["]
WNAMES = ["", "a", "b", "B", "ab", "a.b", "abc", "a/b", "a\nb", "[", "-", "A", "c", "]", "ba"]
GTOK = ["a", "b", "*", "?", "**", "[ab]", "[!a]", "a*", "*.b"]
GNAMES = ["a", "b", "ab", "a.b", "c"]
# patterns with an unclosed '[' or a '/' between brackets, and the names they can match
BRACKET_PATS = ["a[1/*", "x[y/z]/*", "[/*", "a[1/b/*", "*/[x", "a[1/*/*"]
BRACKET_NAMES = ["a[1", "x[y", "z]", "[", "[x", "b", "f"]


def wild_cases(tier):
    n = 4 if tier == "thorough" else 3
    pats = set()
    for k in range(0, n + 1):
        for combo in itertools.product(WTOK, repeat=k):
            pats.add("".join(combo))
    for p in sorted(pats):
        if "[]" in p or "[!]" in p:
            continue
        for name in WNAMES:
            for cs in (True, False):
                yield (cs, p, name)


def glob_patterns(tier):
    n = 3
    pats = set()
    for k in range(1, n + 1):
        for combo in itertools.product(GTOK, repeat=k):
            body = "/".join(combo)
            pats.add(body)
            pats.add(body + "/")
            if tier == "thorough":
                pats.add("/" + body)
    return sorted(pats)


def glob_paths():
    out = []
    for k in range(1, 4):
        for combo in itertools.product(GNAMES, repeat=k):
            out.append("/" + "/".join(combo))
    out.append("/a\nb")
    out.append("/a/b\nc")
    return out


def classify(pattern, path, is_dir, impl, spec, level):
    """Narrow classes of the recorded findings; anything else is a violation."""
    if level == "globber-pruning":
        return None
    if level == "globber":
        got, want = set(map(tuple, impl)), set(map(tuple, spec))
        extra, missing = got - want, want - got
        if any("\n" in p for p, _d in extra | missing):
            return "glob: '$' under (?ms) lets a pattern match up to a newline in the path"
        # directories: a non-slash pattern is matched against 'dir/' (missing dirs, or dirs one
        # level too shallow as extras); files must agree exactly
        if all(d for _p, d in extra | missing) and not pattern.endswith("/") and "**" not in pattern:
            return "Globber matches directories only with a trailing slash appended"
        if "**" in pattern and not missing - set(x for x in missing if x[1]):
            return "glob: '**' translated to '.*' crosses component boundaries"
        return None
    if "\n" in path and impl is True and level == "glob.match":
        return "glob: '$' under (?ms) lets a pattern match up to a newline in the path"
    if "**" in pattern and impl is True and spec == "SF":
        return "glob: '**' translated to '.*' crosses component boundaries"
    return None


def run(report, forced=None):
    import fs.wildcard as W
    import fs.glob as G
    from fs.memoryfs import MemoryFS
    proof = common.preflight(report)
    rnd = random.Random(report.seed + 14)
    thorough = report.tier == "thorough"
    bad = []
    total = 0
    nontrivial = set()
    # (i) wildcard
    wc = list(wild_cases(report.tier)) if forced is None else []
    lines = ["glob wild %s %s %s" % ("1" if cs else "0", tok(p), tok(n)) for cs, p, n in wc]
    spec = common.run_model_parallel(lines, chunk=20000) if lines else []
    for (cs, p, n), s in zip(wc, spec):
        total += 1
        try:
            impl = (W.match if cs else W.imatch)(p, n)
        except Exception as e:  # re.error on malformed classes: the property is silent there
            continue
        if impl:
            nontrivial.add(("w", p, n, cs))
        if ("T" if impl else "F") != s:
            bad.append(dict(level="wildcard", case_sensitive=cs, pattern=p, path=n, is_dir=False,
                            implementation=impl, reference=s))
    # (ii) glob.match on patterns whose components are '**' or '**'-free
    gp = glob_patterns(report.tier) if forced is None else []
    paths = glob_paths()
    glines, gcases = [], []
    for p in gp:
        for path in (paths if thorough else rnd.sample(paths, 40)):
            for is_dir in (False, True):
                gcases.append((p, path, is_dir))
                glines.append("glob glob 1 %s %s %s" % (tok(p), tok(path), "1" if is_dir else "0"))
    gspec = common.run_model_parallel(glines, chunk=20000) if glines else []
    plain = dict(zip(gp, common.run_model_parallel(["glob plain %s" % tok(p) for p in gp]))) if gp else {}
    for (p, path, is_dir), s in zip(gcases, gspec):
        if plain.get(p) != "T" or not s.startswith("S"):
            continue
        # glob.match has no notion of directories: the trailing-slash convention is Globber's.
        # Here: files against every pattern, directories (slash appended) against slash patterns.
        if is_dir != p.endswith("/"):
            continue
        total += 1
        try:
            impl = G.match(p, path + ("/" if is_dir else ""))
        except Exception:
            continue
        if impl:
            nontrivial.add(("g", p, path, is_dir))
        if ("ST" if impl else "SF") != s:
            bad.append(dict(level="glob.match", case_sensitive=True, pattern=p, path=path, is_dir=is_dir,
                            implementation=impl, reference=s))
    # (iii) Globber on trees: exactly the matching resources of a complete walk
    n_trees = 60 if thorough else 12
    globber_checked = 0
    for _ in range(n_trees if forced is None else 0):
        m = MemoryFS()
        for _k in range(rnd.randint(2, 10)):
            d = "/".join(rnd.choice(GNAMES) for _ in range(rnd.randint(0, 2)))
            try:
                m.makedirs(d, recreate=True)
                if rnd.random() < 0.8:
                    m.writebytes((d + "/" if d else "") + rnd.choice(GNAMES), b"l1\nl2\n")
            except Exception:
                pass
        everything = [(p, i.is_dir) for p, i in m.walk.info()]
        for p in rnd.sample(gp, 40 if thorough else 25):
            if plain.get(p) != "T":
                continue
            try:
                got = sorted((g.path.rstrip("/") if g.path != "/" else "/", g.info.is_dir) for g in m.glob(p))
                cnt = m.glob(p).count()
            except Exception as e:
                bad.append(dict(level="globber", pattern=p, path="", is_dir=False,
                                implementation=type(e).__name__, reference="no exception"))
                continue
            ls = ["glob glob 1 %s %s %s" % (tok(p), tok(path), "1" if d else "0") for path, d in everything]
            sp = common.run_model(ls) if ls else []
            want = sorted((path, d) for (path, d), s in zip(everything, sp) if s == "ST")
            total += 1
            globber_checked += 1
            if got:
                nontrivial.add(("G", p, tuple(got)))
            if got != want:
                diff = sorted(set(got) ^ set(want))
                bad.append(dict(level="globber", case_sensitive=True, pattern=p, path=diff[0][0], is_dir=diff[0][1],
                                implementation=got, reference=want, tree=everything))
            elif cnt.files + cnt.directories != len(got):
                bad.append(dict(level="globber-count", pattern=p, path="", is_dir=False,
                                implementation=repr(cnt), reference=len(got)))
        m.close()
    # (iv) depth pruning with bracket patterns: fs.glob must return what a complete walk + glob.match selects
    for _ in range((20 if thorough else 6) if forced is None else 0):
        m = MemoryFS()
        for _k in range(rnd.randint(3, 9)):
            d = "/".join(rnd.choice(BRACKET_NAMES) for _ in range(rnd.randint(1, 3)))
            try:
                m.makedirs(d, recreate=True)
                m.writebytes(d + "/" + rnd.choice(BRACKET_NAMES), b"1\n")
            except Exception:
                pass
        everything = [(p, i.is_dir) for p, i in m.walk.info()]
        for p in BRACKET_PATS:
            try:
                got = sorted(g.path.rstrip("/") for g in m.glob(p))
                want = sorted(path for path, d in everything if G.match(p, path + ("/" if d else "")))
            except Exception as e:
                continue
            total += 1
            globber_checked += 1
            if want:
                nontrivial.add(("Gb", p, tuple(want)))
            if got != want:
                bad.append(dict(level="globber-pruning", case_sensitive=True, pattern=p,
                                path=(sorted(set(want) ^ set(got)) or [""])[0], is_dir=False,
                                implementation=got, reference=want, tree=everything))
        m.close()
    # classification
    seen = set()
    for b in bad:
        kc = classify(b["pattern"], b["path"], b.get("is_dir"), b["implementation"], b["reference"], b["level"])
        known = report.known_match(kc) if kc else None
        if known:
            report.known_finding(known, example=b)
            continue
        sig = (b["level"], b["pattern"][:3])
        if sig in seen or len(seen) >= 10:
            continue
        seen.add(sig)
        report.violation(dict(kind="does-not-follow-shell-semantics", theorem="Props/C14.v (reference = Glob/ShellSpec.v)", **b))
    cov = dict(evaluations=total, distinct_nontrivial=len(nontrivial),
               rule="wildcard: every pattern of <= 3 (quick) / 4 tokens over {a,B,.,*,?,[ab],[!a],[a-c],-,],[} x 15 names "
                    "x both case modes; glob: every pattern of <= 3 components over {a,b,*,?,**,[ab],[!a],a*,*.b} "
                    "(with/without trailing slash) x paths of <= 3 components x file/dir; Globber on random trees "
                    "vs the filter of a complete walk; non-trivial = distinct matching (pattern, path)",
               samples=[dict(pattern="a*", path="/ab", is_dir=False), dict(pattern="**/b/", path="/a/b", is_dir=True)],
               disagreements_checked=len(bad), globber_cases=globber_checked,
               traces_validated_against_impl=total - len(bad), exhaustive=True,
               exhaustive_scope="pattern/path spaces stated in rule; Globber trees sampled")
    if forced is None:
        # the regex translation itself: model text == code text, regex semantics vs CPython re, matchers
        import h_globre
        cov.update(h_globre.run_translate_checks(report, rnd, report.tier))
    return report.finish(proof, cov, assumptions=[
        "the reference matchers (Glob/ShellSpec.v) are the documented semantics; the regex translation of fs/wildcard.py "
        "and fs/glob.py is modelled (Glob/Translate.v: text compared character by character on every run) and proved "
        "against them; the atom semantics of Glob/Regex.v, parse_items and re_compiles stand for CPython's re engine: "
        "trusted, validated against re on every run; IGNORECASE and .lower() ASCII only",
        "case-insensitive comparison restricted to ASCII"])


def replay(report, path):
    import fs.glob as G
    with open(path) as fh:
        d = json.load(fh)
    if "part" in d:
        import h_globre
        return h_globre.replay_translate(d)
    p, path_, is_dir = d["pattern"], d["path"], d.get("is_dir", False)
    impl = G.match(p, path_ + ("/" if is_dir else ""))
    spec = common.run_model(["glob glob 1 %s %s %s" % (tok(p), tok(path_), "1" if is_dir else "0")])[0]
    print("glob.match(%r, %r) =" % (p, path_), impl, "reference:", spec)
    return 0 if ("ST" if impl else "SF") == spec else 1
