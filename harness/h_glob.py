"""C14 — glob and wildcard matching follow the documented shell semantics.

fs.wildcard.match/imatch and fs.glob.match/imatch (from /repo) are compared with the
recursive reference matchers of Glob/ShellSpec.v (extracted); fs.glob(pattern) on real
trees is compared with the filter of a complete, unpruned walk by the reference matcher;
count()/remove() must act on exactly that set.
(vii) count_lines() and count().data on files of every content class (line-end conventions, Unicode-space-only lines,
invalid UTF-8, NUL bytes, very long lines, ...) against the expectation computed from the BYTES of the matched files.

(v) every entry point that compiles or looks up a pattern (fs.glob.match/imatch/match_any/imatch_any/get_matcher,
FS.match_glob, fs.glob(...) iterate/count/count_lines/remove, Walker filter_glob/exclude_glob; fs.wildcard.match/imatch/
match_any/imatch_any/get_matcher, FS.match, FS.filterdir, Walker filter/exclude/filter_dirs/exclude_dirs,
fs.glob(exclude_dirs=)) x both case modes is run in HISTORIES of one process - all ordered pairs on the same pattern
string from empty pattern caches, inside long never-cleared histories, and around a fill of the caches beyond capacity -
and every call is compared with the reference for its own mode. (vi) the list-level entry points and filesystems that
declare case_insensitive (TarFS, a MemoryFS subclass, SubFS / read_only over it) are compared with wild_any / the walker
model exhaustively over lists of 0..2 patterns and mixed-case names (ASCII)."""
from __future__ import print_function

import itertools
import json
import random

import common
from common import tok, r_str, r_bool, r_pair

# TODO(PENDING_FINDINGS): signatures of misbehaviours of the UNCHANGED library that the coverage below exposes and that
# are not yet in known_findings.json; they are routed through report.known_match(signature) (KNOWN-FINDING once the
# signature is registered) and, while listed here, do not fail the check.
PENDING_FINDINGS = []    # (count_lines on a TarFS raising 'readline of closed file' was a genuine defect of
#                          RawWrapper.__iter__, repaired in /repo 68d28fe: a violation again if it returns)

WTOK = ["a", "B", ".", "*", "?", "[ab]", "[!a]", "[a-c]", "-", "]", "["]
WNAMES = ["", "a", "b", "B", "ab", "a.b", "abc", "a/b", "a\nb", "[", "-", "A", "c", "]", "ba"]
GTOK = ["a", "b", "*", "?", "**", "[ab]", "[!a]", "a*", "*.b"]
GNAMES = ["a", "b", "ab", "a.b", "c"]
# patterns with an unclosed '[' or a '/' between brackets, and the names they can match
BRACKET_PATS = ["a[1/*", "x[y/z]/*", "[/*", "a[1/b/*", "*/[x", "a[1/*/*"]
BRACKET_NAMES = ["a[1", "x[y", "z]", "[", "[x", "b", "f"]


def wild_cases(tier):
    n = 4 if tier == "thorough" else 3
    pats = set()
    for k in range(0, n + 1):
        for combo in itertools.product(WTOK, repeat=k):
            pats.add("".join(combo))
    for p in sorted(pats):
        if "[]" in p or "[!]" in p:
            continue
        for name in WNAMES:
            for cs in (True, False):
                yield (cs, p, name)


def glob_patterns(tier):
    n = 3
    pats = set()
    for k in range(1, n + 1):
        for combo in itertools.product(GTOK, repeat=k):
            body = "/".join(combo)
            pats.add(body)
            pats.add(body + "/")
            if tier == "thorough":
                pats.add("/" + body)
    return sorted(pats)


def glob_paths():
    out = []
    for k in range(1, 4):
        for combo in itertools.product(GNAMES, repeat=k):
            out.append("/" + "/".join(combo))
    out.append("/a\nb")
    out.append("/a/b\nc")
    return out


def classify(pattern, path, is_dir, impl, spec, level):
    """Narrow classes of the recorded findings; anything else is a violation."""
    if level == "globber-pruning":
        return None
    if level == "globber":
        got, want = set(map(tuple, impl)), set(map(tuple, spec))
        extra, missing = got - want, want - got
        if any("\n" in p for p, _d in extra | missing):
            return "glob: '$' under (?ms) lets a pattern match up to a newline in the path"
        # directories: a non-slash pattern is matched against 'dir/' (missing dirs, or dirs one
        # level too shallow as extras); files must agree exactly
        if all(d for _p, d in extra | missing) and not pattern.endswith("/") and "**" not in pattern:
            return "Globber matches directories only with a trailing slash appended"
        if "**" in pattern and not missing - set(x for x in missing if x[1]):
            return "glob: '**' translated to '.*' crosses component boundaries"
        return None
    if "\n" in path and impl is True and level == "glob.match":
        return "glob: '$' under (?ms) lets a pattern match up to a newline in the path"
    if "**" in pattern and impl is True and spec == "SF":
        return "glob: '**' translated to '.*' crosses component boundaries"
    return None


# ================================================================================================
# (v)  histories of the process-wide pattern caches (fs.glob._PATTERN_CACHE, fs.wildcard._PATTERN_CACHE)
# (vi) list-level entry points and filesystems that declare case_insensitive
#
# "case is respected or ignored as requested" must hold for every call in every history of the process: every entry
# point that compiles or looks up a pattern is run in mode m1 and then another (or the same) entry point in mode m2
# on the SAME pattern string - all ordered pairs, from a cold cache, inside one long warm history, and around a
# fill of the caches beyond their capacity - and EVERY answer of the history is compared with the reference matcher
# (Glob/ShellSpec.v via the extracted model: `glob glob`, `glob wild`, and the walker model of Walk/WalkOpts.v, whose
# name filters are wild_any) for the mode of that call.
# ================================================================================================
CH_TREE = [("notes.txt", None), ("README.TXT", None), ("Setup.Py", None), ("ab", None), ("AB", None),
           ("Docs", [("a.txt", None), ("B.TXT", None), ("Sub", [("d.TXT", None)])]),
           ("docs2", [("c.Txt", None)])]
# every pattern is a legal wildcard AND a legal glob pattern; literal parts differ in case from names of CH_TREE
CH_POOL = ["*.txt", "*.TXT", "ab", "A?", "[nr]*.txt", "README.*", "d*", "docs2", "sub", "*/*.txt", "**/*.txt",
           "Docs/*.TXT", "docs/*", "d*/", "*/sub/", "docs/sub/*.txt"]
CH_NAMES_EXTRA = ["readme.txt", "NOTES.TXT", "Ab", "docs", "DOCS2", "sub", "x.py", "a.TxT"]
CH_CS_KINDS = ["mem", "sub", "ro", "os"]
CH_CI_KINDS = ["cimem", "cisub", "ciro", "tar"]
CH_PROCS = 8


def ch_items(ents, base=""):
    out = []
    for n, sub in ents:
        p = base + "/" + n
        out.append((p, sub is not None))
        if sub is not None:
            out += ch_items(sub, p)
    return out


def ch_lines(ents):
    """file i of the tree holds 2**i lines: a sum of line counts identifies the set of files counted"""
    files = [p for p, d in ch_items(ents) if not d]
    return dict((p, 2 ** i) for i, p in enumerate(files))


def ch_build(fs, ents, lines, base="/", rel=""):
    for n, sub in ents:
        p = base.rstrip("/") + "/" + n
        r = rel + "/" + n
        if sub is None:
            fs.writebytes(p, b"l\n" * lines[r])
        else:
            fs.makedir(p)
            ch_build(fs, sub, lines, p, r)


_CI_CLASS = []


def ci_memory_class():
    """A MemoryFS whose getmeta() declares case_insensitive (what FS.match / FS.match_glob consult)."""
    if not _CI_CLASS:
        from fs.memoryfs import MemoryFS

        class CaseInsensitiveMemoryFS(MemoryFS):
            def getmeta(self, namespace="standard"):
                meta = dict(super(CaseInsensitiveMemoryFS, self).getmeta(namespace))
                if namespace == "standard":
                    meta["case_insensitive"] = True
                return meta
        _CI_CLASS.append(CaseInsensitiveMemoryFS)
    return _CI_CLASS[0]


class ChEnv(object):
    """The filesystems holding one tree: 4 case-sensitive and 4 case-insensitive (by getmeta) flavours."""

    def __init__(self, ents):
        import fs.glob as G
        import fs.wildcard as W
        self.G, self.W = G, W
        self.ents = ents
        self.items = ch_items(ents)
        self.lines = ch_lines(ents)
        self.names = sorted(set(p.rsplit("/", 1)[1] for p, _d in self.items) | set(CH_NAMES_EXTRA))
        self._fs = {}
        self._cleanup = []

    def get(self, kind):
        if kind in self._fs:
            return self._fs[kind]
        import shutil
        import tempfile
        from fs.memoryfs import MemoryFS
        from fs.wrap import read_only
        base = ci_memory_class() if kind.startswith("ci") else MemoryFS
        if kind in ("mem", "cimem"):
            f = base()
            ch_build(f, self.ents, self.lines)
            self._cleanup.append(f.close)
        elif kind in ("sub", "cisub"):
            m = base()
            m.makedirs("x/y")
            ch_build(m, self.ents, self.lines, "/x/y")
            f = m.opendir("x/y")
            self._cleanup.append(m.close)
        elif kind in ("ro", "ciro"):
            m = base()
            ch_build(m, self.ents, self.lines)
            f = read_only(m)
            self._cleanup.append(m.close)
        elif kind == "os":
            from fs.osfs import OSFS
            d = tempfile.mkdtemp(prefix="pyfs2verif_c14_")
            f = OSFS(d)
            ch_build(f, self.ents, self.lines)
            self._cleanup.append(lambda: (f.close(), shutil.rmtree(d, ignore_errors=True)))
        elif kind == "tar":
            from fs.tarfs import TarFS
            d = tempfile.mkdtemp(prefix="pyfs2verif_c14_")
            with TarFS(d + "/t.tar", write=True) as t:
                ch_build(t, self.ents, self.lines)
            f = TarFS(d + "/t.tar")
            self._cleanup.append(lambda: (f.close(), shutil.rmtree(d, ignore_errors=True)))
        else:
            raise ValueError(kind)
        declared = bool(f.getmeta().get("case_insensitive", False))
        if declared != (kind in CH_CI_KINDS):
            # a host whose OS filesystem folds case, or an archive class that stops declaring it: use the plain one
            f = self.get("cimem" if kind in CH_CI_KINDS else "mem")
        self._fs[kind] = f
        return f

    def flavour(self, cs, k):
        kinds = CH_CS_KINDS if cs else CH_CI_KINDS
        return self.get(kinds[k % len(kinds)])

    def any_fs(self, k):
        kinds = CH_CS_KINDS + CH_CI_KINDS
        return self.get(kinds[k % len(kinds)])

    def close(self):
        for c in self._cleanup:
            try:
                c()
            except Exception:
                pass
        self._fs, self._cleanup = {}, []


def _in_dom(P, is_dir):
    # files against every pattern; directories only against slash patterns (for the others the recorded finding
    # "Globber matches directories only with a trailing slash appended" decides, see classify())
    return (not is_dir) or P.endswith("/")


def _g_expect(ref, P, cs):
    return frozenset(x for x in ref["g"][(P, cs)] if _in_dom(P, x[1]))


def _w_expect(ref, P, cs):
    return ref["w"][(P, cs)]


def _g_fun(make):
    def ob(env, P, cs, k):
        f = make(env, P, cs, k)
        return frozenset((p, d) for p, d in env.items if _in_dom(P, d) and f(p + ("/" if d else "")))
    return ob


def _w_fun(make):
    def ob(env, P, cs, k):
        f = make(env, P, cs, k)
        return frozenset(n for n in env.names if f(n))
    return ob


def _globber(env, P, cs, k):
    return env.any_fs(k).glob(P, case_sensitive=cs)


def _ob_glob_iter(env, P, cs, k):
    return frozenset(x for x in ((g.path.rstrip("/") or "/", bool(g.info.is_dir)) for g in _globber(env, P, cs, k))
                     if _in_dom(P, x[1]))


def _ob_glob_count(env, P, cs, k):
    c = _globber(env, P, cs, k).count()
    return (c.files, c.directories if P.endswith("/") else None)


def _ex_glob_count(ref, P, cs):
    w = _g_expect(ref, P, cs)
    return (len([1 for _p, d in w if not d]), len([1 for _p, d in w if d]) if P.endswith("/") else None)


def _ob_glob_lines(env, P, cs, k):
    c = _globber(env, P, cs, k).count_lines()
    return (c.lines, c.non_blank)


def _ex_glob_lines(ref, P, cs):
    n = sum(ref["lines"][p] for p, d in _g_expect(ref, P, cs) if not d)
    return (n, n)


def _ob_glob_remove(env, P, cs, k):
    from fs.memoryfs import MemoryFS
    m = MemoryFS()
    try:
        ch_build(m, env.ents, env.lines)
        m.glob(P, case_sensitive=cs).remove()
        return frozenset((p, bool(i.is_dir)) for p, i in m.walk.info())
    finally:
        m.close()


def _cmp_glob_remove(after, ref, P, cs):
    """remove() acts on exactly the matching set: which resources are gone, judged where their parent survived
    (a directory removed by the recorded trailing-slash finding takes its files with it: not judged again here)"""
    want = _g_expect(ref, P, cs)
    alive = set(after) | set([("/", True)])

    def parent_alive(p):
        return ((p.rsplit("/", 1)[0] or "/"), True) in alive
    missing = [x for x in ref["items"] if x not in after]
    gone_files = frozenset(p for p, d in missing if not d and parent_alive(p))
    if P.endswith("/"):
        wd = set(p for p, d in want if d)
        top = frozenset(p for p in wd if not any(p.startswith(q + "/") for q in wd))
        return ((gone_files, frozenset(p for p, d in missing if d and parent_alive(p))), (frozenset(), top))
    return (gone_files, frozenset(p for p, d in want if not d and parent_alive(p)))


def _walk_render(what, seq):
    if what == "files":
        return frozenset(r_str(p) for p in seq)
    return frozenset(r_pair(r_str, r_bool, (p, bool(i.is_dir))) for p, i in seq)


def _ob_walk(what, key):
    def ob(env, P, cs, k):
        fs = env.flavour(cs, k)
        kw = {key: [P]}
        return _walk_render(what, fs.walk.files(**kw) if what == "files" else fs.walk.info(**kw))
    return ob


def _ex_walk(what, key):
    def ex(ref, P, cs):
        return ref["walk"][(what, key, (P,), cs)]
    return ex


def _ob_glob_exclude_dirs(env, P, cs, k):
    fs = env.flavour(cs, k)
    return frozenset(r_pair(r_str, r_bool, (g.path.rstrip("/") or "/", bool(g.info.is_dir)))
                     for g in fs.glob("**", exclude_dirs=[P]))


FILTERDIR_KEYS = ("files", "dirs", "exclude_files", "exclude_dirs")


def _ob_filterdir(env, P, cs, k):
    fs = env.flavour(cs, k)
    return tuple(frozenset(i.name for i in fs.filterdir(d, **{key: [P]}))
                 for d in ("/", "/Docs") for key in FILTERDIR_KEYS)


def filterdir_expect(listing, key, matches):
    """documented meaning of FS.filterdir's pattern arguments; listing = [(name, is_dir)], matches(name) = reference"""
    if key == "files":
        return frozenset(n for n, d in listing if d or matches(n))
    if key == "dirs":
        return frozenset(n for n, d in listing if (not d) or matches(n))
    if key == "exclude_files":
        return frozenset(n for n, d in listing if d or not matches(n))
    return frozenset(n for n, d in listing if (not d) or not matches(n))


def _listing(items, d):
    pre = d.rstrip("/") + "/"
    return [(p[len(pre):], isd) for p, isd in items if p.startswith(pre) and "/" not in p[len(pre):]]


def _ex_filterdir(ref, P, cs):
    w = ref["w"][(P, cs)]
    return tuple(filterdir_expect(_listing(ref["items"], d), key, lambda n: n in w)
                 for d in ("/", "/Docs") for key in FILTERDIR_KEYS)


def _walker_glob_ok(P):
    # C13 owns the walker's glob filters and records two findings there (slash patterns never match a directory,
    # '**' crosses components); here the walker glob entry points only take part with the other patterns
    return not P.endswith("/") and "**" not in P


class ChEntry(object):
    def __init__(self, name, family, observe, expect=None, compare=None, applicable=None):
        self.name, self.family, self.observe = name, family, observe
        self.expect, self.compare, self.applicable = expect, compare, applicable or (lambda P: True)

    def filesystem(self, cs, k):
        """which flavour the call with rotation index k runs on (mirrors ChEnv.any_fs / ChEnv.flavour)"""
        if self.name in ("fs.glob().__iter__", "fs.glob().count", "fs.glob().count_lines"):
            return (CH_CS_KINDS + CH_CI_KINDS)[k % 8]
        if self.name == "fs.glob().remove":
            return "mem (fresh)"
        if self.name.startswith(("FS.", "Walker.", "fs.glob(")):
            return (CH_CS_KINDS if cs else CH_CI_KINDS)[k % 4]
        return "-"

    def judge(self, obs, ref, P, cs):
        if self.compare is not None:
            return self.compare(obs, ref, P, cs)
        return obs, self.expect(ref, P, cs)


def ch_entries():
    E = ChEntry
    return [
        # ---- fs.glob._PATTERN_CACHE
        E("glob.match|imatch", "glob",
          _g_fun(lambda env, P, cs, k: (lambda x: (env.G.match if cs else env.G.imatch)(P, x))), _g_expect),
        E("glob.match_any|imatch_any", "glob",
          _g_fun(lambda env, P, cs, k: (lambda x: (env.G.match_any if cs else env.G.imatch_any)([P], x))), _g_expect),
        E("glob.get_matcher", "glob", _g_fun(lambda env, P, cs, k: env.G.get_matcher([P], cs)), _g_expect),
        E("FS.match_glob", "glob",
          _g_fun(lambda env, P, cs, k: (lambda x, f=env.flavour(cs, k): f.match_glob([P], x))), _g_expect),
        E("fs.glob().__iter__", "glob", _ob_glob_iter, _g_expect),
        E("fs.glob().count", "glob", _ob_glob_count, _ex_glob_count),
        E("fs.glob().count_lines", "glob", _ob_glob_lines, _ex_glob_lines),
        E("fs.glob().remove", "glob", _ob_glob_remove, compare=_cmp_glob_remove),
        E("Walker.filter_glob", "glob", _ob_walk("files", "filter_glob"), _ex_walk("files", "filter_glob"),
          applicable=_walker_glob_ok),
        E("Walker.exclude_glob", "glob", _ob_walk("info", "exclude_glob"), _ex_walk("info", "exclude_glob"),
          applicable=_walker_glob_ok),
        # ---- fs.wildcard._PATTERN_CACHE
        E("wildcard.match|imatch", "wild",
          _w_fun(lambda env, P, cs, k: (lambda n: (env.W.match if cs else env.W.imatch)(P, n))), _w_expect),
        E("wildcard.match_any|imatch_any", "wild",
          _w_fun(lambda env, P, cs, k: (lambda n: (env.W.match_any if cs else env.W.imatch_any)([P], n))), _w_expect),
        E("wildcard.get_matcher", "wild", _w_fun(lambda env, P, cs, k: env.W.get_matcher([P], cs)), _w_expect),
        E("FS.match", "wild",
          _w_fun(lambda env, P, cs, k: (lambda n, f=env.flavour(cs, k): f.match([P], n))), _w_expect),
        E("FS.filterdir", "wild", _ob_filterdir, _ex_filterdir),
        E("Walker.filter", "wild", _ob_walk("files", "filter"), _ex_walk("files", "filter")),
        E("Walker.exclude", "wild", _ob_walk("files", "exclude"), _ex_walk("files", "exclude")),
        E("Walker.filter_dirs", "wild", _ob_walk("info", "filter_dirs"), _ex_walk("info", "filter_dirs")),
        E("Walker.exclude_dirs", "wild", _ob_walk("info", "exclude_dirs"), _ex_walk("info", "exclude_dirs")),
        E("fs.glob(exclude_dirs=)", "wild", _ob_glob_exclude_dirs, _ex_walk("info", "exclude_dirs")),
    ]


WALK_KEYS = ("filter", "exclude", "filter_dirs", "exclude_dirs", "filter_glob", "exclude_glob")


def walk_model_line(what, ents, cs, opts):
    """`walk` line of the extracted walker model (Run/RunMisc.v run_walk) with the case flag of the filesystem"""
    from h_walk import render_tree
    from h_fs import tree_tokens
    t = [tok("/"), "0", "-", "1" if cs else "0"]
    for key in WALK_KEYS:
        p = opts.get(key)
        t += ["-"] if p is None else [str(len(p))] + [tok(x) for x in p]
    return "walk %s %s" % (what, " ".join(tree_tokens(render_tree(ents)) + t))


def walk_model_set(out):
    if not (out.startswith("[") and out.endswith("]")):
        return out
    return frozenset(x for x in out[1:-1].split(";") if x)


def ch_reference(ents, pool):
    """Everything the reference says about the tree: glob_spec / wild_spec per (pattern, mode), walker model per
    (method, option, patterns, mode)."""
    items = ch_items(ents)
    env_names = sorted(set(p.rsplit("/", 1)[1] for p, _d in items) | set(CH_NAMES_EXTRA))
    ref = dict(items=items, lines=ch_lines(ents), names=env_names, g={}, w={}, walk={})
    plain = common.run_model(["glob plain %s" % tok(P) for P in pool])
    if any(x != "T" for x in plain):
        raise RuntimeError("cache-history pool holds a pattern outside the glob specification: %r" % (list(zip(pool, plain)),))
    lines, keys = [], []
    for P in pool:
        for cs in (True, False):
            for p, d in items:
                keys.append(("g", P, cs, (p, d)))
                lines.append("glob glob %s %s %s %s" % ("1" if cs else "0", tok(P), tok(p), "1" if d else "0"))
            for n in env_names:
                keys.append(("w", P, cs, n))
                lines.append("glob wild %s %s %s" % ("1" if cs else "0", tok(P), tok(n)))
            ref["g"][(P, cs)] = set()
            ref["w"][(P, cs)] = set()
    for (fam, P, cs, x), s in zip(keys, common.run_model_parallel(lines)):
        if fam == "g":
            if not s.startswith("S"):
                raise RuntimeError("glob reference undefined for %r %r: %s" % (P, x, s))
            if s == "ST":
                ref["g"][(P, cs)].add(x)
        elif s == "T":
            ref["w"][(P, cs)].add(x)
    for k in list(ref["g"]):
        ref["g"][k] = frozenset(ref["g"][k])
        ref["w"][k] = frozenset(ref["w"][k])
    wl, wk = [], []
    for P in pool:
        for cs in (True, False):
            for what, key in (("files", "filter"), ("files", "exclude"), ("info", "filter_dirs"), ("info", "exclude_dirs"),
                              ("files", "filter_glob"), ("info", "exclude_glob")):
                if key.endswith("_glob") and not _walker_glob_ok(P):
                    continue
                wk.append((what, key, (P,), cs))
                wl.append(walk_model_line(what, ents, cs, {key: [P]}))
    for k, out in zip(wk, common.run_model_parallel(wl, chunk=500)):
        ref["walk"][k] = walk_model_set(out)
    return ref


# ---- histories: lists of steps ("clear",) | ("fill", n, tag, family) | ("call", entry name, cs, pattern, k)
def ch_clear(env):
    for mod in (env.G, env.W):
        c = getattr(mod, "_PATTERN_CACHE", None)
        if c is not None and hasattr(c, "clear"):
            c.clear()


def ch_capacity(env):
    return max([getattr(getattr(m, "_PATTERN_CACHE", None), "cache_size", 1000) for m in (env.G, env.W)])


def ch_fill(env, n, tag, family):
    """n fresh pattern strings through the public functions, both modes: more than the caches hold"""
    for i in range(n):
        p = "q%s_%d*z" % (tag, i)
        if family in ("glob", "both"):
            env.G.match(p, "/x")
            env.G.imatch(p, "/x")
        if family in ("wild", "both"):
            env.W.match(p, "x")
            env.W.imatch(p, "x")


def ch_run_history(env, entries, ref, hist, stop_at_first=False):
    """Execute one history; returns (number of judged calls, [mismatch dict])."""
    n, bad = 0, []
    for t, st in enumerate(hist):
        if st[0] == "clear":
            ch_clear(env)
            continue
        if st[0] == "fill":
            ch_fill(env, st[1], st[2], st[3])
            continue
        _c, name, cs, P, k = st
        e = entries[name]
        try:
            got, want = e.judge(e.observe(env, P, cs, k), ref, P, cs)
        except Exception as ex:  # noqa
            got, want = "raised %s: %s" % (type(ex).__name__, ex), "no exception"
        n += 1
        if got != want:
            bad.append(dict(step=t, entry=name, case_sensitive=cs, pattern=P, k=k, filesystem=e.filesystem(cs, k),
                            implementation=got, reference=want))
            if stop_at_first:
                break
    return n, bad


def ch_minimise(env, entries, ref, hist, t):
    """Shortest reproducing history: the calls on the same pattern string only, then single predecessors."""
    last = hist[t]
    same = [("clear",)] + [s for s in hist[:t] if s[0] == "fill" or (s[0] == "call" and s[3] == last[3])] + [last]
    cands = [[("clear",), last]]
    cands += [[("clear",), s, last] for s in same[1:-1] if s[0] == "call"]
    cands += [same, [("clear",)] + list(hist[:t + 1])]
    for c in cands:
        _n, b = ch_run_history(env, entries, ref, c, stop_at_first=False)
        b = [x for x in b if x["step"] == len(c) - 1]
        if b:
            return c, b[0]
    return None, None


_CH = {}


def _ch_task(hists):
    """worker: run a chunk of histories in this process (its module-wide caches are the object under test)"""
    ref = _CH["ref"]
    entries = dict((e.name, e) for e in ch_entries())
    env = ChEnv(_CH["ents"])
    n_calls, out = 0, []
    try:
        for hist in hists:
            n, bad = ch_run_history(env, entries, ref, hist)
            n_calls += n
            fresh = 0
            for b in bad:
                if classify_history(dict(b, level="cache-history")) is not None:
                    # a recorded / pending finding: the step itself is the example, the history goes on
                    out.append(dict(b, history=[["clear"], list(hist[b["step"]])]))
                    continue
                fresh += 1
                if fresh > 2:
                    continue
                mh, mb = ch_minimise(env, entries, ref, hist, b["step"])
                if mh is None:  # needs the state this worker was in: keep the whole prefix, flagged
                    mh, mb = list(hist[:b["step"] + 1]), dict(b, not_reproduced_from_a_cleared_cache=True)
                out.append(dict(mb, history=[list(s) for s in mh]))
    finally:
        env.close()
    return n_calls, len(hists), out


def ch_discriminating(ref, entries, pool):
    """per entry point: the patterns whose reference answer depends on the case mode (those expose a mode mix-up)"""
    disc = {}
    for e in entries:
        ps = []
        for P in pool:
            if not e.applicable(P):
                continue
            if e.compare is not None:
                ps.append(P) if _g_expect(ref, P, True) != _g_expect(ref, P, False) else None
            elif e.expect(ref, P, True) != e.expect(ref, P, False):
                ps.append(P)
        disc[e.name] = ps
    return disc


def ch_histories(tier, seed, ref, capacity):
    rnd = random.Random(seed * 7919 + 1414)
    thorough = tier == "thorough"
    entries = ch_entries()
    disc = ch_discriminating(ref, entries, CH_POOL)
    calls = [(e, cs) for e in entries for cs in (True, False)]
    hists = []
    stats = dict(pairs_cold=0, pairs_warm=0, pairs_evicted=0, pairs_full_cache=0)

    def pats_for(a, b, salt):
        ok = [P for P in CH_POOL if a.applicable(P) and b.applicable(P)]
        if thorough:
            return ok
        d = [P for P in disc[b.name] if P in ok] or ok
        o = [P for P in ok if P not in d] or ok
        return [d[(salt + seed) % len(d)], d[(salt // 3 + 2 * seed + 1) % len(d)], o[(salt + seed) % len(o)]]

    pairs = [(a, ma, b, mb) for a, ma in calls for b, mb in calls]
    # (1) every ordered pair from a cold cache
    for i, (a, ma, b, mb) in enumerate(pairs):
        for j, P in enumerate(pats_for(a, b, i)):
            hists.append([("clear",), ("call", a.name, ma, P, i + j), ("call", b.name, mb, P, i + 2 * j + 1)])
            stats["pairs_cold"] += 1
    # (2) every ordered pair inside long histories that never clear the caches (shuffled; all patterns interleaved)
    order = list(range(len(pairs)))
    rnd.shuffle(order)
    nlong = 16
    for c in range(nlong):
        h = [("clear",)]
        for i in order[c::nlong]:
            a, ma, b, mb = pairs[i]
            for j, P in enumerate(pats_for(a, b, i + 1)):
                h += [("call", a.name, ma, P, i + j + 3), ("call", b.name, mb, P, i + j + 5)]
                stats["pairs_warm"] += 1
        hists.append(h)
    # (3) around a fill of the caches beyond their capacity: A, fill, B (entry of A evicted) and fill, A, B (full cache)
    nfill = capacity + 50
    tag = 0
    if thorough:
        for i, (a, ma, b, mb) in enumerate(pairs):
            if a.family != b.family:
                continue
            P = pats_for(a, b, i)[(i + seed) % 3]
            tag += 1
            hists.append([("clear",), ("call", a.name, ma, P, i), ("fill", nfill, "t%d" % tag, a.family),
                          ("call", b.name, mb, P, i + 1)])
            hists.append([("clear",), ("fill", nfill, "u%d" % tag, a.family), ("call", a.name, ma, P, i),
                          ("call", b.name, mb, P, i + 1)])
            stats["pairs_evicted"] += 1
            stats["pairs_full_cache"] += 1
    else:
        for i, (a, ma) in enumerate(calls):
            tag += 1
            rot = calls[(i + seed) % len(calls):] + calls[:(i + seed) % len(calls)]
            h1 = [("clear",)]
            for P in CH_POOL:
                if a.applicable(P):
                    h1.append(("call", a.name, ma, P, i))
            h1.append(("fill", nfill, "t%d" % tag, "both"))
            h2 = [("clear",), ("fill", nfill, "u%d" % tag, "both")]
            for j, (b, mb) in enumerate(rot):
                P = pats_for(a, b, i + j)[0]
                h1.append(("call", b.name, mb, P, i + j))
                h2 += [("call", a.name, ma, P, i + j), ("call", b.name, mb, P, i + j + 1)]
                stats["pairs_evicted"] += 1
                stats["pairs_full_cache"] += 1
            hists += [h1, h2]
    return hists, stats, disc


def history_text(hist):
    out = []
    for s in hist:
        if s[0] == "clear":
            out.append("both pattern caches empty")
        elif s[0] == "fill":
            out.append("%d fresh patterns through match/imatch (%s)" % (s[1], s[3]))
        else:
            out.append("%s(%r) %s" % (s[1], s[3], "case-sensitive" if s[2] else "case-insensitive"))
    return "; then ".join(out)


def cache_history_prepare(tier, seed):
    """(v) before the fork: reference tables, histories, task list"""
    ref = ch_reference(CH_TREE, CH_POOL)
    env = ChEnv(CH_TREE)
    capacity = ch_capacity(env)
    env.close()
    hists, stats, disc = ch_histories(tier, seed, ref, capacity)
    _CH.update(ref=ref, ents=CH_TREE)
    # long histories first (they dominate the wall time), the rest in chunks
    def heavy_p(h):
        return len(h) > 40 or any(s[0] == "fill" for s in h)
    heavy = sorted([h for h in hists if heavy_p(h)], key=lambda h: -sum(1100 if s[0] == "fill" else 1 for s in h))
    light = [h for h in hists if not heavy_p(h)]
    tasks = [[h] for h in heavy] + [light[i:i + 150] for i in range(0, len(light), 150)]
    return tasks, stats, disc, capacity


def cache_history_collect(results, stats, disc, capacity, wall):
    """(v): returns (coverage dict, [violation payload])"""
    n_calls = n_h = 0
    bad = []
    for k, nh, b in results:
        n_calls += k
        n_h += nh
        bad.extend(b)
    payloads = []
    for b in sorted(bad, key=lambda x: (len(x["history"]), x["entry"], x["pattern"])):
        payloads.append(dict(level="cache-history", pattern=b["pattern"], path="", is_dir=False,
                             case_sensitive=b["case_sensitive"], entry=b["entry"], k=b["k"], filesystem=b["filesystem"],
                             implementation=_plain(b["implementation"]), reference=_plain(b["reference"]),
                             history=b["history"], what=history_text(b["history"]),
                             not_reproduced_from_a_cleared_cache=b.get("not_reproduced_from_a_cleared_cache", False)))
    cov = dict(cache_history_entry_points=[e.name for e in ch_entries()],
               cache_history_modes=2, cache_history_patterns=len(CH_POOL),
               cache_history_histories=n_h, cache_history_calls_judged=n_calls,
               cache_history_ordered_pairs_cold=stats["pairs_cold"], cache_history_ordered_pairs_warm=stats["pairs_warm"],
               cache_history_pairs_across_eviction=stats["pairs_evicted"],
               cache_history_pairs_on_full_cache=stats["pairs_full_cache"],
               cache_history_cache_capacity=capacity, cache_history_disagreements=len(bad),
               cache_history_mode_dependent_patterns=dict((k, len(v)) for k, v in disc.items()),
               cache_history_filesystems=CH_CS_KINDS + CH_CI_KINDS,
               cache_history_rule="every ordered pair (entry point A, mode m1) -> (entry point B, mode m2) on the same "
                                  "pattern string: from empty caches, inside 16 long never-cleared histories, with a fill "
                                  "beyond capacity between A and B and before A; every call of every history compared "
                                  "with glob_spec / wild_spec / the walker model for its own mode",
               cache_history_wall_s=round(wall, 2))
    return cov, payloads


def _unrender(x):
    """model rendering -> readable: 's47,97' -> '/a', '(s47,97|T)' -> ['/a', True]"""
    try:
        if x.startswith("(s") and x.endswith(")") and "|" in x:
            a, b = x[1:-1].split("|")
            return [common.untok(a[1:] or "-"), b == "T"]
        if x.startswith("s") and (len(x) == 1 or x[1].isdigit()):
            return common.untok(x[1:] or "-")
    except Exception:
        pass
    return x


def _plain(x):
    if isinstance(x, (set, frozenset)):
        return sorted((_plain(y) for y in x), key=repr)
    if isinstance(x, tuple):
        return [_plain(y) for y in x]
    if isinstance(x, str) and x[:1] in ("s", "("):
        return _unrender(x)
    return x


# ---- (vi) list-level entry points: lists of 0..2 patterns, names in mixed case, both modes, all flavours
LTOK = ["a", "A", "b", ".", "*", "?", "[aB]", "[!a]"]
LNAMES = ["", "a", "A", "b", "B", "ab", "AB", "aB", "Ab", "a.b", "A.B", "ba", "BA", "c", "A.b"]
LE_NAME_PATS = ["*.txt", "*.TXT", "a*", "A?", "[ab]*", "readme.*", "docs", "D*", "sub", "*"]
LE_GLOB_PATS = ["*.txt", "*/*.TXT", "docs/*", "Docs/*/*.txt", "*/sub/*", "AB"]


def le_patterns(tier):
    n = 3 if tier == "thorough" else 2
    pats = [""]
    for k in range(1, n + 1):
        pats += ["".join(c) for c in itertools.product(LTOK, repeat=k)]
    return pats


def le_lists(pats, tier, rnd):
    lists = [()] + [(p,) for p in pats]
    short = [p for p in pats if len(p) <= 6 and p.count("[") <= 2][:73] if tier == "thorough" else pats
    lists += [(p, q) for p in short for q in short]
    if tier == "thorough":
        lists += [tuple(rnd.sample(pats, 2)) for _ in range(6000)] + [tuple(rnd.sample(pats, 3)) for _ in range(2000)]
    return lists


_LE = {}


def _le_task(args):
    """worker: one chunk of pattern lists through every list-level entry point, both modes, vs wild_any / glob any"""
    lo, hi = args
    import fs.wildcard as W
    import fs.glob as G
    wref, gref, lists, names = _LE["w"], _LE["g"], _LE["lists"], _LE["names"]
    env = ChEnv(CH_TREE)
    n, bad = 0, []
    try:
        for idx in range(lo, hi):
            pl = lists[idx]
            lst = list(pl)
            for cs in (True, False):
                fss = [env.flavour(cs, idx), env.flavour(cs, idx + 1)]
                wm = W.get_matcher(lst, cs)
                w_any = W.match_any if cs else W.imatch_any
                gok = all(p != "" for p in pl)
                if gok:
                    gm = G.get_matcher(lst, cs)
                    g_any = G.match_any if cs else G.imatch_any
                for name in names:
                    want = (not pl) or any(wref[(cs, p, name)] for p in pl)     # Glob/ShellSpec.v wild_any
                    got = [("wildcard.match_any|imatch_any", w_any(lst, name)), ("wildcard.get_matcher", wm(name)),
                           ("FS.match", fss[0].match(lst, name)), ("FS.match", fss[1].match(lst, name))]
                    n += 4
                    for fn, g in got:
                        if bool(g) != want:
                            bad.append(dict(entry=fn, case_sensitive=cs, patterns=lst, name=name,
                                            implementation=g, reference=want))
                    if gok and name:
                        path = "/" + name
                        want = (not pl) or any(gref[(cs, p, name)] for p in pl)
                        got = [("glob.match_any|imatch_any", g_any(lst, path)), ("glob.get_matcher", gm(path)),
                               ("FS.match_glob", fss[0].match_glob(lst, path))]
                        n += 3
                        for fn, g in got:
                            if bool(g) != want:
                                bad.append(dict(entry=fn, case_sensitive=cs, patterns=lst, name=path,
                                                implementation=g, reference=want))
            if len(bad) > 200:
                break
    finally:
        env.close()
    return n, bad


def list_entry_prepare(tier, seed):
    """(vi) before the fork: reference answers per (mode, pattern, name), the pattern lists, task list"""
    rnd = random.Random(seed * 31 + 1415)
    pats = le_patterns(tier)
    lists = le_lists(pats, tier, rnd)
    lines, keys = [], []
    gpl = [p for p in pats if p]
    plain = dict(zip(gpl, common.run_model_parallel(["glob plain %s" % tok(p) for p in gpl])))
    for p in pats:
        for cs in (True, False):
            for name in LNAMES:
                keys.append(("w", cs, p, name))
                lines.append("glob wild %s %s %s" % ("1" if cs else "0", tok(p), tok(name)))
                if p and name:
                    keys.append(("g", cs, p, name))
                    lines.append("glob glob %s %s %s 0" % ("1" if cs else "0", tok(p), tok("/" + name)))
    wref, gref = {}, {}
    for (fam, cs, p, name), s in zip(keys, common.run_model_parallel(lines, chunk=20000)):
        if fam == "w":
            wref[(cs, p, name)] = (s == "T")
        else:
            gref[(cs, p, name)] = (s == "ST")
    # glob lists only over patterns inside the glob specification (no '**' here, classes closed)
    lists_ok = [pl for pl in lists if all((not p) or plain.get(p) == "T" for p in pl)]
    _LE.update(w=wref, g=gref, lists=lists_ok, names=LNAMES)
    step = 120
    return [(i, min(i + step, len(lists_ok))) for i in range(0, len(lists_ok), step)]


def list_entry_collect(results, tier, seed, wall0):
    """(vi): returns (coverage dict, [violation payload])"""
    import time
    lists_ok = _LE["lists"]
    n = 0
    bad = []
    for k, b in results:
        n += k
        bad.extend(b)
    payloads = [dict(level="list-entry", pattern=" | ".join(b["patterns"]), path=b["name"], is_dir=False, **b)
                for b in sorted(bad, key=lambda x: (len(x["patterns"]), x["entry"], x["patterns"], x["name"]))]
    t0 = time.time()
    # trees: Walker / filterdir / glob(exclude_dirs=) with pattern lists on every flavour, case-insensitive ones included
    ents = CH_TREE
    items = ch_items(ents)
    name_lists = [[]] + [[p] for p in LE_NAME_PATS] + [[p, q] for p in LE_NAME_PATS for q in LE_NAME_PATS if p != q]
    glob_lists = [[p] for p in LE_GLOB_PATS] + [[p, q] for p in LE_GLOB_PATS for q in LE_GLOB_PATS if p != q]
    cases = []
    for key in WALK_KEYS:
        for pl in (glob_lists if key.endswith("_glob") else name_lists):
            what = "files" if key in ("filter", "exclude", "filter_glob") else "info"
            cases.append((what, key, pl))
    wl = [walk_model_line(what, ents, cs, {key: pl}) for what, key, pl in cases for cs in (True, False)]
    wout = common.run_model_parallel(wl, chunk=500)
    wmodel = {}
    i = 0
    for what, key, pl in cases:
        for cs in (True, False):
            wmodel[(what, key, tuple(pl), cs)] = walk_model_set(wout[i])
            i += 1
    names = sorted(set(p.rsplit("/", 1)[1] for p, _d in items))
    nl = [p for p in LE_NAME_PATS]
    wl2 = common.run_model(["glob wild %s %s %s" % ("1" if cs else "0", tok(p), tok(nm))
                            for p in nl for cs in (True, False) for nm in names])
    w2 = dict(zip([(p, cs, nm) for p in nl for cs in (True, False) for nm in names], [s == "T" for s in wl2]))
    env = ChEnv(ents)
    tree_bad = []
    n_tree = 0
    try:
        kinds = [(k, True) for k in CH_CS_KINDS] + [(k, False) for k in CH_CI_KINDS]
        for ci, (what, key, pl) in enumerate(cases):
            for kind, cs in kinds:
                if tier != "thorough" and cs and kind != CH_CS_KINDS[(ci + seed) % len(CH_CS_KINDS)]:
                    continue
                f = env.get(kind)
                want = wmodel[(what, key, tuple(pl), cs)]
                for via in ("walk", "glob") if key == "exclude_dirs" else ("walk",):
                    try:
                        if via == "glob":
                            got = frozenset(r_pair(r_str, r_bool, (g.path.rstrip("/") or "/", bool(g.info.is_dir)))
                                            for g in f.glob("**", exclude_dirs=list(pl)))
                        else:
                            kw = {key: list(pl)}
                            got = _walk_render(what, f.walk.files(**kw) if what == "files" else f.walk.info(**kw))
                    except Exception as ex:  # noqa
                        got = "raised %s: %s" % (type(ex).__name__, ex)
                    n_tree += 1
                    if got != want:
                        tree_bad.append(dict(entry=("Walker.%s" % key) if via == "walk" else "fs.glob(exclude_dirs=)",
                                             filesystem=kind, case_sensitive=cs, patterns=list(pl),
                                             implementation=_plain(got), reference=_plain(want)))
        for pl in name_lists[1:]:
            for kind, cs in kinds:
                f = env.get(kind)
                for d in ("/", "/Docs"):
                    for key in FILTERDIR_KEYS:
                        want = filterdir_expect(_listing(items, d), key, lambda nm: any(w2[(p, cs, nm)] for p in pl))
                        try:
                            got = frozenset(i.name for i in f.filterdir(d, **{key: list(pl)}))
                        except Exception as ex:  # noqa
                            got = "raised %s: %s" % (type(ex).__name__, ex)
                        n_tree += 1
                        if got != want:
                            tree_bad.append(dict(entry="FS.filterdir(%s=)" % key, filesystem=kind, case_sensitive=cs,
                                                 patterns=list(pl), dir=d, implementation=_plain(got),
                                                 reference=_plain(want)))
    finally:
        env.close()
    for b in tree_bad:
        payloads.append(dict(level="list-tree", pattern=" | ".join(b["patterns"]), path=b.get("dir", "/"), is_dir=True, **b))
    cov = dict(list_entry_pattern_lists=len(lists_ok), list_entry_names=len(LNAMES), list_entry_evaluations=n,
               list_entry_disagreements=len(bad), list_tree_cases=n_tree, list_tree_disagreements=len(tree_bad),
               list_tree_filesystems=CH_CS_KINDS + CH_CI_KINDS,
               list_entry_rule="every list of 0..2 patterns of <= 2 (quick) / 3 tokens over {a,A,b,.,*,?,[aB],[!a]} x 15 mixed-case "
                               "names x both modes through wildcard.match_any/imatch_any, wildcard.get_matcher, FS.match and "
                               "(non-empty patterns) glob.match_any/imatch_any, glob.get_matcher, FS.match_glob on filesystems "
                               "declaring either case mode, vs wild_any / any glob_spec; Walker filter/exclude/filter_dirs/"
                               "exclude_dirs/filter_glob/exclude_glob, fs.glob(exclude_dirs=) and FS.filterdir with lists of "
                               "0..2 patterns on MemoryFS/SubFS/read_only/OSFS and case_insensitive MemoryFS/SubFS/read_only/"
                               "TarFS vs the walker model with the filesystem's case flag (sets, order not judged)",
               list_entry_wall_s=round(wall0 + time.time() - t0, 2))
    return cov, payloads


SIG_TAR_COUNT_LINES = ("Globber.count_lines raises ValueError('readline of closed file') on a TarFS "
                       "(iterates fs.open(path) without keeping the file object)")


def classify_history(b):
    """Narrow classes for disagreements of (v)/(vi) that are pre-existing behaviour; None = violation."""
    if b.get("entry") == "fs.glob().count_lines" and b.get("filesystem") == "tar" and \
            str(b.get("implementation")).startswith("raised ValueError: readline of closed file"):
        return SIG_TAR_COUNT_LINES
    return None


def run_history_checks(report):
    import multiprocessing
    import time
    import fs.wildcard  # noqa (before the fork)
    import fs.glob  # noqa
    import fs.memoryfs  # noqa
    import fs.tarfs  # noqa
    import fs.osfs  # noqa
    import fs.wrap  # noqa
    import h_walk  # noqa
    t0 = time.time()
    tasks, stats, disc, capacity = cache_history_prepare(report.tier, report.seed)
    le_tasks = list_entry_prepare(report.tier, report.seed)
    t1 = time.time()
    ctx = multiprocessing.get_context("fork")
    pool = ctx.Pool(CH_PROCS)       # forked after the reference tables are in place
    try:
        res = list(pool.imap_unordered(_ch_task, tasks))
        t2 = time.time()
        le_res = list(pool.imap_unordered(_le_task, le_tasks))
        t3 = time.time()
    finally:
        pool.close()
        pool.join()
    cov, bad = cache_history_collect(res, stats, disc, capacity, t2 - t0)
    cov2, bad2 = list_entry_collect(le_res, report.tier, report.seed, t3 - t2)
    cov.update(cov2)
    return cov, bad + bad2


# ================================================================================================
# (vii) count_lines() / count().data over CONTENT CLASSES of the matched files
#
# "count(), count_lines() ... act on exactly that set": the lines of a matched file are the lines of its BYTES - the
# pieces ended by b"\n" (a last piece without b"\n" counts) - and a line is non-blank when bytes.strip() leaves something
# (ASCII white space only), whatever the bytes are: no decoding, no universal newlines.  count().data is the number of
# bytes of the matched files.  The expectation is computed here from the bytes written and the reference matcher.
# ================================================================================================
CONTENT_CLASSES = [
    ("plain", b"alpha\nbeta\n\ngamma\n"),
    ("no-trailing-newline", b"alpha\nbeta"),
    ("empty", b""),
    ("newline-only", b"\n"),
    ("newlines-only", b"\n\n\n"),
    ("blank-ascii-lines", b" \n\t\n \t \n\x0b\x0c\n x \n"),
    ("lone-cr", b"alpha\rbeta\rgamma\n"),
    ("lone-cr-no-newline", b"alpha\rbeta\r"),
    ("cr-only", b"\r\r\r"),
    ("crlf", b"alpha\r\nbeta\r\n\r\n"),
    ("cr-cr-lf", b"alpha\r\r\nbeta\n"),
    ("lf-cr", b"alpha\n\rbeta\n\r"),
    ("nbsp-utf8-line", b"x\n\xc2\xa0\n"),
    ("unicode-space-lines", b"\xe2\x80\x83\n\xe3\x80\x80\n\xe2\x80\x89 \n\xe1\x9a\x80\n"),
    ("unicode-line-separators", b"a\xe2\x80\xa8b\xe2\x80\xa9c\xc2\x85d\n"),
    ("separator-controls", b"\x1c\n\x1d\x1e\n\x1f \n"),
    ("vt-ff-inside", b"a\x0bb\x0cc\n\x0c\n"),
    ("latin1-text", b"caf\xe9\n\n"),
    ("latin1-nbsp-line", b"\xa0\n\xa0\xa0\n"),
    ("invalid-utf8", b"\xff\xfe\x00a\n\x80\x81\n\xc3\n"),
    ("truncated-utf8-at-end", b"ok\n\xe2\x82"),
    ("nul-bytes", b"a\x00b\n\x00\n\x00\x00"),
    ("utf8-bom", b"\xef\xbb\xbf\n\xef\xbb\xbfx\n"),
    ("utf16", u"a\nb\n".encode("utf-16")),
    ("long-lines", b"x" * 100000 + b"\n" + b" " * 70000 + b"\n" + b"y" * 9000),
    ("long-line-cr-at-buffer-edge", b"z" * 8191 + b"\r" + b"w" * 8191 + b"\r\n" + b"\r" * 3 + b"\n"),
    ("many-lines", b"l\n" * 5000 + b"\n" * 300),
]
CONTENT_ALPHABET = [b"\n", b"\n", b"\r", b"\r\n", b" ", b"\t", b"a", b"bc", b"\xc2\xa0", b"\xe9", b"\x00", b"\x0c", b"\x1c",
                    b"\xe2\x80\xa8", b"\xa0", b"\xff"]
CONTENT_KINDS = ["mem", "os", "sub", "ro", "tar", "zip", "mount"]
ASCII_SPACE = b" \t\n\r\x0b\x0c"


def byte_line_counts(data):
    """(lines, non_blank) of a file by its bytes: pieces ended by b'\\n' (+ a last unterminated piece)"""
    pieces = data.split(b"\n")
    if pieces[-1] == b"":
        pieces.pop()
    return len(pieces), len([1 for p in pieces if any(c not in ASCII_SPACE for c in bytearray(p))])


def content_files(tier, seed):
    """[(path, class name, bytes)]: one file per content class spread over three levels, random-content files, and
    files the patterns must not select"""
    rnd = random.Random(seed * 104729 + 1417)
    out = []
    dirs = ["", "/logs", "/logs/deep"]
    for i, (name, data) in enumerate(CONTENT_CLASSES):
        out.append(("%s/c%02d.log" % (dirs[i % 3], i), name, data))
    for j in range(60 if tier == "thorough" else 12):
        data = b"".join(rnd.choice(CONTENT_ALPHABET) for _ in range(rnd.randint(0, 40)))
        out.append(("%s/r%02d.log" % (dirs[j % 3], j), "random", data))
    out.append(("/other.txt", "other-extension", b"not\rmatched\n"))
    out.append(("/logs/deep/other.txt", "other-extension", b"\xe9\n"))
    return out


def content_patterns(files):
    pats = ["*.log", "**/*.log", "logs/*.log", "logs/deep/*.log", "*/*/*.log", "c0?.log", "**/c1?.log", "logs/*", "*.txt",
            "**/r*.log", "nothing*"]
    pats += [p.lstrip("/") for p, cls, _d in files if cls != "other-extension"]      # one pattern per file: pins the class
    return pats


def content_build(kind, files):
    """-> (filesystem holding the files, cleanup)"""
    import shutil
    import tempfile
    from fs.memoryfs import MemoryFS

    def fill(f, base=""):
        f.makedirs(base + "/logs/deep", recreate=True)
        for p, _c, data in files:
            f.writebytes(base + p, data)
    if kind in ("mem", "sub", "ro", "mount"):
        m = MemoryFS()
        if kind == "sub":
            fill(m, "/x/y")
            return m.opendir("x/y"), m.close
        fill(m)
        if kind == "ro":
            from fs.wrap import read_only
            return read_only(m), m.close
        if kind == "mount":
            from fs.mountfs import MountFS
            mf = MountFS()
            mf.mount("m", m)
            return mf.opendir("m"), mf.close
        return m, m.close
    d = tempfile.mkdtemp(prefix="pyfs2verif_c14c_")
    if kind == "os":
        from fs.osfs import OSFS
        f = OSFS(d)
        fill(f)
    elif kind == "tar":
        from fs.tarfs import TarFS
        with TarFS(d + "/t.tar", write=True) as t:
            fill(t)
        f = TarFS(d + "/t.tar")
    elif kind == "zip":
        from fs.zipfs import ZipFS
        with ZipFS(d + "/t.zip", write=True) as z:
            fill(z)
        f = ZipFS(d + "/t.zip")
    else:
        raise ValueError(kind)
    return f, lambda: (f.close(), shutil.rmtree(d, ignore_errors=True))


def content_expect(files, pats):
    """per pattern: (matched file paths, (lines, non_blank), data bytes) from the reference matcher and the bytes"""
    lines = ["glob glob 1 %s %s 0" % (tok(P), tok(p)) for P in pats for p, _c, _d in files]
    out = common.run_model_parallel(lines)
    exp = {}
    i = 0
    for P in pats:
        sel = []
        for p, _c, data in files:
            if not out[i].startswith("S"):
                raise RuntimeError("glob reference undefined for %r %r: %s" % (P, p, out[i]))
            if out[i] == "ST":
                sel.append((p, data))
            i += 1
        counts = [byte_line_counts(d) for _p, d in sel]
        exp[P] = (sorted(p for p, _d in sel), (sum(c[0] for c in counts), sum(c[1] for c in counts)), sum(len(d) for _p, d in sel))
    return exp


def content_data_judged(P):
    return P[-1:] not in ("*", "?", "]", "/")


def content_observe(f, P):
    try:
        c = f.glob(P).count_lines()
        got_lines = (c.lines, c.non_blank)
    except Exception as ex:  # noqa
        got_lines = "raised %s: %s" % (type(ex).__name__, ex)
    try:
        c = f.glob(P).count()
        # a pattern ending in a wildcard also matches 'dir/' one level up (the recorded finding "Globber matches directories
        # only with a trailing slash appended"), whose size the backend decides: bytes judged for the other patterns
        got_count = (c.files, c.data if content_data_judged(P) else None)
    except Exception as ex:  # noqa
        got_count = "raised %s: %s" % (type(ex).__name__, ex)
    return got_lines, got_count


def run_content_checks(tier, seed, kinds=None, files=None, pats=None):
    """(vii): returns (coverage dict, [violation payload])"""
    import time
    t0 = time.time()
    files = files if files is not None else content_files(tier, seed)
    pats = pats if pats is not None else content_patterns(files)
    exp = content_expect(files, pats)
    cls_of = dict((p, c) for p, c, _d in files)
    bad, n = [], 0
    for kind in (kinds or CONTENT_KINDS):
        try:
            f, cleanup = content_build(kind, files)
        except Exception as ex:  # noqa
            bad.append(dict(level="count-content", filesystem=kind, pattern="", path="", is_dir=False, classes=[],
                            entry="building the filesystem", implementation="raised %s: %s" % (type(ex).__name__, ex),
                            reference="no exception"))
            continue
        try:
            for P in pats:
                matched, want_lines, want_data = exp[P]
                got_lines, got_count = content_observe(f, P)
                n += 2
                for entry, got, want in (("fs.glob().count_lines", got_lines, want_lines),
                                         ("fs.glob().count (files, data)", got_count,
                                          (len(matched), want_data if content_data_judged(P) else None))):
                    if got != want:
                        bad.append(dict(level="count-content", filesystem=kind, pattern=P, path=(matched or [""])[0],
                                        is_dir=False, classes=sorted(set(cls_of[p] for p in matched)), matched_files=matched,
                                        entry=entry, implementation=got, reference=want))
        finally:
            try:
                cleanup()
            except Exception:  # noqa
                pass
    # smallest disagreements first: a pattern that selects one file names the content class
    bad.sort(key=lambda b: (len(b.get("matched_files", [])), b["filesystem"] != "mem", b["pattern"]))
    cov = dict(count_content_classes=[c for c, _d in CONTENT_CLASSES] + ["random over %d byte tokens" % len(CONTENT_ALPHABET)],
               count_content_files=len(files), count_content_patterns=len(pats), count_content_filesystems=list(kinds or CONTENT_KINDS),
               count_content_evaluations=n, count_content_disagreements=len(bad),
               count_content_rule="files of every content class (line ends \\n, none, lone \\r, \\r\\n, \\r\\r\\n, \\n\\r; empty; "
                                  "ASCII-blank lines; UTF-8 NBSP / Unicode-space-only lines; Unicode line separators; FS/GS/RS/US "
                                  "controls; latin-1; invalid and truncated UTF-8; NUL bytes; BOM; UTF-16; lines longer than "
                                  "the io buffers; 5000 lines; random byte strings) under patterns selecting one file, one "
                                  "directory level, and everything, on MemoryFS/OSFS/SubFS/read_only/TarFS/ZipFS/MountFS: "
                                  "count_lines() == (pieces ended by b'\\n', those with a non-ASCII-space byte) summed over the "
                                  "files the reference matcher selects; count() == (number of those files, their bytes)",
               count_content_wall_s=round(time.time() - t0, 2))
    return cov, bad


def run(report, forced=None):
    import fs.wildcard as W
    import fs.glob as G
    from fs.memoryfs import MemoryFS
    proof = common.preflight(report)
    rnd = random.Random(report.seed + 14)
    thorough = report.tier == "thorough"
    bad = []
    total = 0
    nontrivial = set()
    # (i) wildcard
    wc = list(wild_cases(report.tier)) if forced is None else []
    lines = ["glob wild %s %s %s" % ("1" if cs else "0", tok(p), tok(n)) for cs, p, n in wc]
    spec = common.run_model_parallel(lines, chunk=20000) if lines else []
    for (cs, p, n), s in zip(wc, spec):
        total += 1
        try:
            impl = (W.match if cs else W.imatch)(p, n)
        except Exception as e:  # re.error on malformed classes: the property is silent there
            continue
        if impl:
            nontrivial.add(("w", p, n, cs))
        if ("T" if impl else "F") != s:
            bad.append(dict(level="wildcard", case_sensitive=cs, pattern=p, path=n, is_dir=False,
                            implementation=impl, reference=s))
    # (ii) glob.match on patterns whose components are '**' or '**'-free
    gp = glob_patterns(report.tier) if forced is None else []
    paths = glob_paths()
    glines, gcases = [], []
    for p in gp:
        for path in (paths if thorough else rnd.sample(paths, 40)):
            for is_dir in (False, True):
                gcases.append((p, path, is_dir))
                glines.append("glob glob 1 %s %s %s" % (tok(p), tok(path), "1" if is_dir else "0"))
    gspec = common.run_model_parallel(glines, chunk=20000) if glines else []
    plain = dict(zip(gp, common.run_model_parallel(["glob plain %s" % tok(p) for p in gp]))) if gp else {}
    for (p, path, is_dir), s in zip(gcases, gspec):
        if plain.get(p) != "T" or not s.startswith("S"):
            continue
        # glob.match has no notion of directories: the trailing-slash convention is Globber's.
        # Here: files against every pattern, directories (slash appended) against slash patterns.
        if is_dir != p.endswith("/"):
            continue
        total += 1
        try:
            impl = G.match(p, path + ("/" if is_dir else ""))
        except Exception:
            continue
        if impl:
            nontrivial.add(("g", p, path, is_dir))
        if ("ST" if impl else "SF") != s:
            bad.append(dict(level="glob.match", case_sensitive=True, pattern=p, path=path, is_dir=is_dir,
                            implementation=impl, reference=s))
    # (iii) Globber on trees: exactly the matching resources of a complete walk
    n_trees = 60 if thorough else 12
    globber_checked = 0
    for _ in range(n_trees if forced is None else 0):
        m = MemoryFS()
        for _k in range(rnd.randint(2, 10)):
            d = "/".join(rnd.choice(GNAMES) for _ in range(rnd.randint(0, 2)))
            try:
                m.makedirs(d, recreate=True)
                if rnd.random() < 0.8:
                    m.writebytes((d + "/" if d else "") + rnd.choice(GNAMES), b"l1\nl2\n")
            except Exception:
                pass
        everything = [(p, i.is_dir) for p, i in m.walk.info()]
        for p in rnd.sample(gp, 40 if thorough else 25):
            if plain.get(p) != "T":
                continue
            try:
                got = sorted((g.path.rstrip("/") if g.path != "/" else "/", g.info.is_dir) for g in m.glob(p))
                cnt = m.glob(p).count()
            except Exception as e:
                bad.append(dict(level="globber", pattern=p, path="", is_dir=False,
                                implementation=type(e).__name__, reference="no exception"))
                continue
            ls = ["glob glob 1 %s %s %s" % (tok(p), tok(path), "1" if d else "0") for path, d in everything]
            sp = common.run_model(ls) if ls else []
            want = sorted((path, d) for (path, d), s in zip(everything, sp) if s == "ST")
            total += 1
            globber_checked += 1
            if got:
                nontrivial.add(("G", p, tuple(got)))
            if got != want:
                diff = sorted(set(got) ^ set(want))
                bad.append(dict(level="globber", case_sensitive=True, pattern=p, path=diff[0][0], is_dir=diff[0][1],
                                implementation=got, reference=want, tree=everything))
            elif cnt.files + cnt.directories != len(got):
                bad.append(dict(level="globber-count", pattern=p, path="", is_dir=False,
                                implementation=repr(cnt), reference=len(got)))
        m.close()
    # (iv) depth pruning with bracket patterns: fs.glob must return what a complete walk + glob.match selects
    for _ in range((20 if thorough else 6) if forced is None else 0):
        m = MemoryFS()
        for _k in range(rnd.randint(3, 9)):
            d = "/".join(rnd.choice(BRACKET_NAMES) for _ in range(rnd.randint(1, 3)))
            try:
                m.makedirs(d, recreate=True)
                m.writebytes(d + "/" + rnd.choice(BRACKET_NAMES), b"1\n")
            except Exception:
                pass
        everything = [(p, i.is_dir) for p, i in m.walk.info()]
        for p in BRACKET_PATS:
            try:
                got = sorted(g.path.rstrip("/") for g in m.glob(p))
                want = sorted(path for path, d in everything if G.match(p, path + ("/" if d else "")))
            except Exception as e:
                continue
            total += 1
            globber_checked += 1
            if want:
                nontrivial.add(("Gb", p, tuple(want)))
            if got != want:
                bad.append(dict(level="globber-pruning", case_sensitive=True, pattern=p,
                                path=(sorted(set(want) ^ set(got)) or [""])[0], is_dir=False,
                                implementation=got, reference=want, tree=everything))
        m.close()
    # (v) cache histories, (vi) list-level entry points and case-insensitive filesystems
    hcov, hbad = run_history_checks(report) if forced is None else ({}, [])
    total += hcov.get("cache_history_calls_judged", 0) + hcov.get("list_entry_evaluations", 0) + hcov.get("list_tree_cases", 0)
    hseen = {}
    pending_seen = set()
    for b in hbad:
        kc = classify_history(b)
        if kc:
            known = report.known_match(kc)
            if known:
                report.known_finding(known, example=b)
                continue
            if kc in PENDING_FINDINGS:
                pending_seen.add(kc)
                continue
        sig = (b["level"], b.get("entry"), b.get("case_sensitive"))
        if sig in hseen or len([s for s in hseen if s[0] == b["level"]]) >= 6:
            continue
        hseen[sig] = True
        report.violation(dict(kind="case-mode-or-list-entry-point-differs-from-reference",
                              theorem="Props/C14.v C14_cache_transparent (every cached value is the one computed for its "
                                      "key, in every history) + reference Glob/ShellSpec.v glob_spec / wild_spec / wild_any, "
                                      "Walk/WalkOpts.v", **b))
    # (vii) count_lines() / count().data over content classes of the matched files
    ccov, cbad = run_content_checks(report.tier, report.seed) if forced is None else ({}, [])
    total += ccov.get("count_content_evaluations", 0)
    cseen = set()
    for b in cbad:
        sig = (b["entry"], tuple(b["classes"])[:1] if len(b.get("matched_files", [])) == 1 else "set")
        if sig in cseen or len(cseen) >= 8:
            continue
        cseen.add(sig)
        report.violation(dict(kind="count-differs-from-the-bytes-of-the-matched-files",
                              theorem="Props/C14.v (count()/count_lines() act on exactly the matched set); lines of a file = "
                                      "its b'\\n'-ended byte pieces, non-blank = bytes.strip() non-empty", **b))
    # classification
    seen = set()
    for b in bad:
        kc = classify(b["pattern"], b["path"], b.get("is_dir"), b["implementation"], b["reference"], b["level"])
        known = report.known_match(kc) if kc else None
        if known:
            report.known_finding(known, example=b)
            continue
        sig = (b["level"], b["pattern"][:3])
        if sig in seen or len(seen) >= 10:
            continue
        seen.add(sig)
        report.violation(dict(kind="does-not-follow-shell-semantics", theorem="Props/C14.v (reference = Glob/ShellSpec.v)", **b))
    cov = dict(evaluations=total, distinct_nontrivial=len(nontrivial),
               rule="wildcard: every pattern of <= 3 (quick) / 4 tokens over {a,B,.,*,?,[ab],[!a],[a-c],-,],[} x 15 names "
                    "x both case modes; glob: every pattern of <= 3 components over {a,b,*,?,**,[ab],[!a],a*,*.b} "
                    "(with/without trailing slash) x paths of <= 3 components x file/dir; Globber on random trees "
                    "vs the filter of a complete walk; non-trivial = distinct matching (pattern, path); cache histories and "
                    "list-level entry points: see cache_history_rule, list_entry_rule",
               samples=[dict(pattern="a*", path="/ab", is_dir=False), dict(pattern="**/b/", path="/a/b", is_dir=True)],
               disagreements_checked=len(bad), globber_cases=globber_checked,
               traces_validated_against_impl=total - len(bad) - len(hbad) - len(cbad), exhaustive=True,
               exhaustive_scope="pattern/path spaces stated in rule; Globber trees sampled")
    cov.update(hcov)
    cov.update(ccov)
    cov["pending_findings_seen"] = sorted(pending_seen)
    if forced is None:
        # the regex translation itself: model text == code text, regex semantics vs CPython re, matchers
        import h_globre
        cov.update(h_globre.run_translate_checks(report, rnd, report.tier))
    return report.finish(proof, cov, assumptions=[
        "the reference matchers (Glob/ShellSpec.v) are the documented semantics; the regex translation of fs/wildcard.py "
        "and fs/glob.py is modelled (Glob/Translate.v: text compared character by character on every run) and proved "
        "against them; the atom semantics of Glob/Regex.v, parse_items and re_compiles stand for CPython's re engine: "
        "trusted, validated against re on every run; IGNORECASE and .lower() ASCII only",
        "case-insensitive comparison restricted to ASCII",
        "cache histories: 'empty caches' is obtained with _PATTERN_CACHE.clear() of fs.glob / fs.wildcard when those objects "
        "exist, fills go through the public match/imatch only; list-level reference = wild_any of Glob/ShellSpec.v (true on the "
        "empty list, else any wild_spec), computed by the harness from the model's wild_spec answers for the function-level "
        "checks and by the extracted walker model (Walk/WalkOpts.v name_match = wild_any) for Walker / fs.glob(exclude_dirs=)"])


def replay_history(d):
    """re-run a recorded history of (v) in this process and compare every call with the reference"""
    pats = sorted(set(s[3] for s in d["history"] if s[0] == "call"))
    ref = ch_reference(CH_TREE, pats)
    entries = dict((e.name, e) for e in ch_entries())
    env = ChEnv(CH_TREE)
    try:
        hist = [tuple(s) for s in d["history"]]
        _n, bad = ch_run_history(env, entries, ref, hist)
    finally:
        env.close()
    print(history_text(hist))
    for b in bad:
        print("step %d: %s(%r, case_sensitive=%r) on %s\n  implementation: %r\n  reference:      %r" % (
            b["step"], b["entry"], b["pattern"], b["case_sensitive"], b["filesystem"],
            _plain(b["implementation"]), _plain(b["reference"])))
    if not bad:
        print("every call agrees with the reference")
    return 1 if bad else 0


def replay_list(d):
    """re-run a recorded case of (vi)"""
    import fs.wildcard as W
    import fs.glob as G
    cs, pl = d["case_sensitive"], list(d["patterns"])
    env = ChEnv(CH_TREE)
    try:
        if d["level"] == "list-entry":
            name = d["name"]
            isglob = d["entry"].startswith(("glob.", "FS.match_glob"))
            if isglob:
                out = common.run_model(["glob glob %s %s %s 0" % ("1" if cs else "0", tok(p), tok(name)) for p in pl])
                want = (not pl) or any(s == "ST" for s in out)
            else:
                out = common.run_model(["glob wild %s %s %s" % ("1" if cs else "0", tok(p), tok(name)) for p in pl])
                want = (not pl) or any(s == "T" for s in out)
            got = {}
            mod = G if isglob else W
            got["%s.%s" % (mod.__name__, "match_any" if cs else "imatch_any")] = (mod.match_any if cs else mod.imatch_any)(pl, name)
            got["%s.get_matcher" % mod.__name__] = mod.get_matcher(pl, cs)(name)
            for kind in (CH_CS_KINDS if cs else CH_CI_KINDS):
                f = env.get(kind)
                got["%s.%s" % (kind, "match_glob" if isglob else "match")] = (f.match_glob if isglob else f.match)(pl, name)
            print("patterns %r, name %r, case_sensitive=%r: reference %r" % (pl, name, cs, want))
            for k in sorted(got):
                print("  %-28s %r" % (k, got[k]))
            return 0 if all(bool(v) == want for v in got.values()) else 1
        key = d["entry"].split(".", 1)[1] if d["entry"].startswith("Walker.") else None
        f = env.get(d["filesystem"])
        if d["entry"].startswith("FS.filterdir"):
            fkey = d["entry"][len("FS.filterdir("):-2]
            items = ch_items(CH_TREE)
            names = [n for n, _d in _listing(items, d["dir"])]
            out = common.run_model(["glob wild %s %s %s" % ("1" if cs else "0", tok(p), tok(n)) for p in pl for n in names])
            hit = set(n for (p, n), s in zip([(p, n) for p in pl for n in names], out) if s == "T")
            want = filterdir_expect(_listing(items, d["dir"]), fkey, lambda n: n in hit)
            got = frozenset(i.name for i in f.filterdir(d["dir"], **{fkey: pl}))
        else:
            viaglob = key is None
            key = key or "exclude_dirs"
            what = "files" if key in ("filter", "exclude", "filter_glob") else "info"
            want = walk_model_set(common.run_model([walk_model_line(what, CH_TREE, cs, {key: pl})])[0])
            if viaglob:
                got = frozenset(r_pair(r_str, r_bool, (g.path.rstrip("/") or "/", bool(g.info.is_dir)))
                                for g in f.glob("**", exclude_dirs=pl))
            else:
                kw = {key: pl}
                got = _walk_render(what, f.walk.files(**kw) if what == "files" else f.walk.info(**kw))
        print("%s patterns=%r on %s (case_sensitive=%r)\n  implementation: %r\n  reference:      %r" % (
            d["entry"], pl, d["filesystem"], cs, _plain(got), _plain(want)))
        return 0 if got == want else 1
    finally:
        env.close()


def replay(report, path):
    import fs.glob as G
    with open(path) as fh:
        d = json.load(fh)
    if "part" in d:
        import h_globre
        return h_globre.replay_translate(d)
    if d.get("level") == "cache-history":
        return replay_history(d)
    if d.get("level") in ("list-entry", "list-tree"):
        return replay_list(d)
    if d.get("level") == "count-content":
        files = content_files(d.get("tier", "quick"), d.get("seed", 0))
        _cov, bad = run_content_checks(d.get("tier", "quick"), d.get("seed", 0), kinds=[d["filesystem"]], files=files,
                                       pats=[d["pattern"]])
        for b in bad:
            print("%s on %s, pattern %r (content classes %s)\n  implementation: %r\n  from the bytes:  %r" % (
                b["entry"], b["filesystem"], b["pattern"], b["classes"], b["implementation"], b["reference"]))
        if not bad:
            print("count_lines() and count() agree with the bytes of the matched files")
        return 1 if bad else 0
    p, path_, is_dir = d["pattern"], d["path"], d.get("is_dir", False)
    impl = G.match(p, path_ + ("/" if is_dir else ""))
    spec = common.run_model(["glob glob 1 %s %s %s" % (tok(p), tok(path_), "1" if is_dir else "0")])[0]
    print("glob.match(%r, %r) =" % (p, path_), impl, "reference:", spec)
    return 0 if ("ST" if impl else "SF") == spec else 1
