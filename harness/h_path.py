"""C12 — fs.path functions obey their algebraic laws for every string.

Correspondence: fs.path (from /repo) vs the extracted Gallina model (Path/PathModel.v),
and fs.path vs the component-list reference (Path/PathSpec.v) on the laws' domain.
"""
from __future__ import print_function

import itertools
import json
import random

import common
from common import (r_str, r_bool, r_list, r_pair, outcome, tok)

CLASSES = ["", ".", "..", "a", "b.c", "*{}"]
NAMES2 = ["a", "ab", "b.c", "..", "."]


def impl_table():
    import fs.path as P
    return {
        "normpath": lambda a: outcome(r_str, lambda: P.normpath(a[0])),
        "iteratepath": lambda a: outcome(lambda l: r_list(r_str, l), lambda: P.iteratepath(a[0])),
        "recursepath": lambda a: outcome(lambda l: r_list(r_str, l), lambda: P.recursepath(a[0])),
        "recursepath_rev": lambda a: outcome(lambda l: r_list(r_str, l),
                                             lambda: P.recursepath(a[0], reverse=True)),
        "isabs": lambda a: r_bool(P.isabs(a[0])),
        "abspath": lambda a: r_str(P.abspath(a[0])),
        "relpath": lambda a: r_str(P.relpath(a[0])),
        "forcedir": lambda a: r_str(P.forcedir(a[0])),
        "join": lambda a: outcome(r_str, lambda: P.join(*a)),
        "combine": lambda a: r_str(P.combine(a[0], a[1])),
        "parts": lambda a: outcome(lambda l: r_list(r_str, l), lambda: P.parts(a[0])),
        "split": lambda a: r_pair(r_str, r_str, P.split(a[0])),
        "dirname": lambda a: r_str(P.dirname(a[0])),
        "basename": lambda a: r_str(P.basename(a[0])),
        "issamedir": lambda a: outcome(r_bool, lambda: P.issamedir(a[0], a[1])),
        "isbase": lambda a: r_bool(P.isbase(a[0], a[1])),
        "isparent": lambda a: r_bool(P.isparent(a[0], a[1])),
        "frombase": lambda a: outcome(r_str, lambda: P.frombase(a[0], a[1])),
        "relativefrom": lambda a: outcome(r_str, lambda: P.relativefrom(a[0], a[1])),
        # outside the property statement: informational only
        "splitext": lambda a: outcome(lambda p: r_pair(r_str, r_str, p), lambda: P.splitext(a[0])),
        "isdotfile": lambda a: r_bool(P.isdotfile(a[0])),
        "iswildcard": lambda a: r_bool(P.iswildcard(a[0])),
    }


UNARY = ["normpath", "iteratepath", "recursepath", "recursepath_rev", "isabs", "abspath",
         "relpath", "forcedir", "parts", "split", "dirname", "basename"]
UNARY_INFO = ["splitext", "isdotfile", "iswildcard"]
BINARY = ["join", "combine", "issamedir", "isbase", "isparent", "frombase", "relativefrom"]
INFORMATIONAL = set(UNARY_INFO)

# reference (PathSpec) comparisons: function -> spec entry, domain
SPEC_ALL = {"normpath": "spec_normpath", "iteratepath": "spec_iteratepath",
            "parts": "spec_parts"}            # hold for every string
SPEC_NF1 = {"recursepath": "spec_recursepath", "split": "spec_split",
            "abspath": "spec_abspath", "relpath": "spec_relpath"}   # normalised argument
SPEC_NF2 = {"isbase": "spec_isbase", "isparent": "spec_isparent", "issamedir": "spec_issamedir"}


def component_strings(maxlen):
    for n in range(0, maxlen + 1):
        for combo in itertools.product(CLASSES, repeat=n):
            body = "/".join(combo)
            for lead in ("", "/"):
                for trail in ("", "/"):
                    yield lead + body + trail


def pool_strings(names, maxlen):
    out = []
    for n in range(0, maxlen + 1):
        for combo in itertools.product(names, repeat=n):
            body = "/".join(combo)
            for lead in ("", "/"):
                for trail in ("", "/"):
                    out.append(lead + body + trail)
    return sorted(set(out))


def random_strings(rnd, n):
    alphabet = ["/", "/", "/", ".", ".", "a", "b", "\n", " ", "\t", "\x00", "*", "{", "}", "[",
                "é", "中", "\U0001F600", " ", "\ud800", "%", "\\", "!", "-"]
    for _ in range(n):
        k = rnd.choice([0, 1, 2, 3, 5, 8, 13, 30, 80])
        if rnd.random() < 0.1:
            yield rnd.choice(["/", "."]) * rnd.randint(1, 200)
        else:
            yield "".join(rnd.choice(alphabet) for _ in range(k))


def check_space_table():
    model = [9, 10, 11, 12, 13, 28, 29, 30, 31, 32, 133, 160, 5760, 8192, 8193, 8194, 8195, 8196,
             8197, 8198, 8199, 8200, 8201, 8202, 8232, 8233, 8239, 8287, 12288]
    real = [c for c in range(0x110000) if chr(c).isspace()]
    return model == real


def line(fn, args):
    return "path %s %s" % (fn, " ".join(tok(a) for a in args)) if args else "path %s" % fn


def python_laws(P, strs_unary, pairs):
    """Directed search on the implementation alone: evaluate the laws of the property on
    the implementation (no model involved). Returns a list of failing (law, input)."""
    fails = []

    def ref_resolve(s):
        st = []
        for c in s.split("/"):
            if c in ("", "."):
                continue
            if c == "..":
                if not st:
                    return None
                st.pop()
            else:
                st.append(c)
        return st

    def nf(s):
        try:
            return P.normpath(s) == s
        except Exception:
            return False

    for s in strs_unary:
        r = ref_resolve(s)
        try:
            n = P.normpath(s)
        except Exception as e:
            if r is not None or type(e).__name__ != "IllegalBackReference":
                fails.append(("normpath-raises", [s]))
            continue
        if r is None:
            fails.append(("normpath-should-raise", [s]))
            continue
        if n != ("/" if s.startswith("/") else "") + "/".join(r):
            fails.append(("normpath-resolution", [s]))
            continue
        try:
            if P.normpath(n) != n:
                fails.append(("normpath-idempotent", [s]))
            if any(c in ("", ".", "..") for c in n.strip("/").split("/")) and n not in ("", "/"):
                fails.append(("normpath-clean", [s]))
            h, t = P.split(n)
            if P.join(h, t) != n:
                fails.append(("join-split", [n]))
            if P.dirname(n) != h or P.basename(n) != t:
                fails.append(("dirname-basename", [n]))
            if not t[:1].isspace() and P.combine(h, t) != n:
                fails.append(("combine-split", [n]))
            it = P.iteratepath(n)
            if "/".join(it) != P.relpath(n) or it != r:
                fails.append(("iteratepath", [n]))
            rp = P.recursepath(n)
            if rp[-1] != P.abspath(n) or rp != ["/" + "/".join(r[:i]) for i in range(len(r) + 1)]:
                fails.append(("recursepath", [n]))
            if P.recursepath(n, reverse=True) != rp[::-1]:
                fails.append(("recursepath-reverse", [n]))
            if P.parts(n) != (["/"] if n.startswith("/") else ["./"]) + r:
                fails.append(("parts", [n]))
            if P.abspath(n) != "/" + "/".join(r) or P.relpath(n) != "/".join(r):
                fails.append(("abspath-relpath", [n]))
        except Exception as e:  # a law function raising on a normalised path
            fails.append(("raises-" + type(e).__name__, [n]))
        if len(fails) > 50:
            return fails
    for (p, q) in pairs:
        if not (nf(p) and nf(q)):
            continue
        a, b = ref_resolve(p), ref_resolve(q)
        pre = b[:len(a)] == a
        try:
            if P.isbase(p, q) != pre:
                fails.append(("isbase-components", [p, q]))
            same_abs = p.startswith("/") == q.startswith("/")
            if P.isparent(p, q) != (pre and (not a or same_abs)):
                fails.append(("isparent-components", [p, q]))
            if pre and same_abs:
                if p + P.frombase(p, q) != q:
                    fails.append(("frombase-append", [p, q]))
            if P.issamedir(p, q) != (P.dirname(p) == P.dirname(q)):
                fails.append(("issamedir", [p, q]))
            rel = P.relativefrom(p, q)
            if ref_resolve("/".join(a + [rel])) != b:
                fails.append(("relativefrom", [p, q]))
        except Exception as e:
            fails.append(("raises-" + type(e).__name__, [p, q]))
        if len(fails) > 50:
            break
    return fails


def build_cases(tier, seed):
    rnd = random.Random(seed)
    thorough = tier == "thorough"
    cases = []
    n_unary = 6 if thorough else 5
    n_norm = 7 if thorough else 6
    strs = list(component_strings(n_unary))
    for s in strs:
        for fn in UNARY + UNARY_INFO:
            cases.append((fn, [s]))
    seen = set(strs)
    extra = 0
    for s in component_strings(n_norm):
        if s not in seen:
            cases.append(("normpath", [s]))
            cases.append(("iteratepath", [s]))
            extra += 1
    rs = list(random_strings(rnd, 100000 if thorough else 8000))
    for s in rs:
        for fn in UNARY + UNARY_INFO:
            cases.append((fn, [s]))
    pool = pool_strings(NAMES2, 3 if thorough else 2)
    nfpool = [("/" if ab else "") + "/".join(c) for n in range(0, 4)
              for c in itertools.product(["a", "ab", "b.c"], repeat=n) for ab in (0, 1)]
    pairs = [(p, q) for p in pool for q in pool] + [(p, q) for p in nfpool for q in nfpool]
    rs2 = rs[: (20000 if thorough else 1500)]
    pairs += [(rnd.choice(rs2), rnd.choice(rs2)) for _ in range(len(rs2))]
    pairs += [(rnd.choice(rs2), rnd.choice(pool)) for _ in range(len(rs2) // 2)]
    for (p, q) in pairs:
        for fn in BINARY:
            cases.append((fn, [p, q]))
    # join with 0, 1, 3 arguments
    for _ in range(3000 if thorough else 500):
        k = rnd.choice([0, 1, 3, 4])
        cases.append(("join", [rnd.choice(pool + [""]) for _ in range(k)]))
    dist = dict(unary_component_strings=len(strs), normpath_only_strings=extra,
                random_strings=len(rs), pairs=len(pairs),
                max_components_unary=n_unary, max_components_normpath=n_norm)
    return cases, strs + rs, pairs, dist


def run(report, forced_cases=None):
    proof = common.preflight(report)
    import fs.path as P
    impl = impl_table()
    if forced_cases is None:
        cases, strs, pairs, dist = build_cases(report.tier, report.seed)
    else:
        cases, strs, pairs, dist = forced_cases, [], [], {}
    table_ok = check_space_table()

    # implementation
    impl_out = [impl[fn](args) for fn, args in cases]
    # model
    lines = [line(fn, args) for fn, args in cases]
    model_out = common.run_model_parallel(lines)

    mism = [i for i in range(len(cases)) if impl_out[i] != model_out[i]]
    mism_prop = [i for i in mism if cases[i][0] not in INFORMATIONAL]
    mism_info = [i for i in mism if cases[i][0] in INFORMATIONAL]

    # reference comparisons
    def is_nf(s):
        try:
            return P.normpath(s) == s
        except Exception:
            return False
    spec_lines, spec_idx = [], []
    nf_cache = {}

    def nfc(s):
        if s not in nf_cache:
            nf_cache[s] = is_nf(s)
        return nf_cache[s]
    for i, (fn, args) in enumerate(cases):
        if fn in SPEC_ALL:
            spec_lines.append(line(SPEC_ALL[fn], args)); spec_idx.append(i)
        elif fn in SPEC_NF1 and nfc(args[0]):
            spec_lines.append(line(SPEC_NF1[fn], args)); spec_idx.append(i)
        elif fn in SPEC_NF2 and nfc(args[0]) and nfc(args[1]):
            spec_lines.append(line(SPEC_NF2[fn], args)); spec_idx.append(i)
        elif fn == "relativefrom" and nfc(args[0]) and nfc(args[1]) and impl_out[i].startswith("ok:s"):
            res = impl_out[i][4:]
            spec_lines.append("path spec_relativefrom_ok %s %s %s" % (
                tok(args[0]), tok(args[1]), res if res else "-"))
            spec_idx.append(i)
    spec_out = common.run_model_parallel(spec_lines) if spec_lines else []
    spec_fail = []
    for j, i in enumerate(spec_idx):
        fn = cases[i][0]
        exp = spec_out[j]
        if exp == "undef":
            # reference undefined: resolution climbs above the start -> must raise
            if fn in SPEC_ALL and impl_out[i] != "err:IllegalBackReference":
                spec_fail.append((i, "err:IllegalBackReference"))
            continue
        if fn == "relativefrom":
            if exp != "T":
                spec_fail.append((i, "base ++ result must resolve to path"))
        elif impl_out[i] != exp:
            spec_fail.append((i, exp))

    # vm_compute cross-check of the extraction
    n_vm, vm_mism = common.vm_crosscheck(lines, model_out, "C12")

    # classification
    for (i, exp) in spec_fail[:20]:
        fn, args = cases[i]
        report.violation(dict(kind="law-violated", function=fn, args=args,
                              implementation=impl_out[i], reference=exp,
                              theorem="Props/C12.v (model = reference); reference from Path/PathSpec.v"))
    if (mism_prop or vm_mism or not table_ok or not proof["ok"]) and not spec_fail:
        # correspondence or proof broken without a reference failure on the cases run:
        # directed search on the implementation alone
        fails = python_laws(P, strs, pairs)
        if fails:
            for law, inp in fails[:10]:
                report.violation(dict(kind="law-violated", law=law, args=inp,
                                      found_by="directed search on the implementation"))
        elif mism_prop or vm_mism or not table_ok:
            ex = [dict(function=cases[i][0], args=cases[i][1], implementation=impl_out[i],
                       model=model_out[i]) for i in mism_prop[:10]]
            report.violation(dict(kind="correspondence-broken",
                                  correspondence="fs.path vs Path/PathModel.v (extracted)",
                                  examples=ex, vm_compute_vs_extraction=vm_mism,
                                  isspace_table_matches=table_ok,
                                  theorem="Props/C12.v"), no_input=True)

    distinct = len(set((cases[i][0], impl_out[i]) for i in range(len(cases))))
    rnd = random.Random(1)
    samples = [dict(function=cases[i][0], args=cases[i][1], implementation=impl_out[i],
                    model=model_out[i]) for i in rnd.sample(range(len(cases)), min(8, len(cases)))]
    hist = {}
    for i, (fn, _a) in enumerate(cases):
        kind = impl_out[i].split(":")[0] if ":" in impl_out[i][:6] else "value"
        hist.setdefault(fn, {}).setdefault(kind, 0)
        hist[fn][kind] += 1
    cov = dict(
        evaluations=len(cases), distinct_nontrivial=distinct,
        rule="every sequence of <= %s components over {'', '.', '..', 'a', 'b.c', '*{}'} x leading/"
             "trailing slash for the unary functions, pairs from pools over {a, ab, b.c, .., .} and "
             "normalised paths over 3 names, random unicode strings; a case is distinct by "
             "(function, rendered result)" % dist.get("max_components_unary"),
        samples=samples, traces_validated_against_impl=len(cases) - len(mism),
        disagreements_checked=len(mism), informational_mismatches=len(mism_info),
        reference_comparisons=len(spec_idx), reference_failures=len(spec_fail),
        vm_compute_crosschecked=n_vm, isspace_table_matches=table_ok,
        distribution=dict(generator=dist, outcome_kinds=hist),
        exhaustive=True,
        exhaustive_scope="component sequences up to the stated length (random strings are sampled)")
    return report.finish(proof, cov, assumptions=[
        "Python's re engine: the regex of _requires_normalization is modelled at component "
        "granularity (validated by this run on every generated string)",
        "CPython str.split/join/strip/find/startswith semantics as modelled in Base/PyStr.v"])


def replay(report, path):
    with open(path) as fh:
        data = json.load(fh)
    fn = data.get("function")
    if fn is None and data.get("examples"):
        cases = [(e["function"], e["args"]) for e in data["examples"]]
    elif fn is None:
        cases = []
    else:
        cases = [(fn, data["args"])]
    impl = impl_table()
    for f, a in cases:
        print("replay", f, a, "->", impl[f](a) if f in impl else "?")
        print("  model:", common.run_model([line(f, a)])[0])
    if data.get("law"):
        import fs.path as P
        args = data["args"]
        fails = python_laws(P, args if len(args) == 1 else [], [tuple(args)] if len(args) == 2 else [])
        print("law search:", fails)
        return 1 if fails else 0
    return run(report, forced_cases=cases) if cases else 0
