"""C09 -- parallel bulk copy equals sequential copy and never hides a failure.

The REAL fs._bulk.Copier (reached through fs.copy.copy_fs / copy_dir, fs.mirror.mirror,
fs.move.move_fs of /repo) runs on real threads under a deterministic "baton" scheduler:

 * fs._bulk.Queue is replaced by SQueue whose put/get/task_done/join are yield points
   with guards (room / non-empty / always / unfinished == 0);
 * fs._bulk._Worker is replaced by ShimWorker, a plain class whose ``run`` IS the
   function fs._bulk._Worker.run of /repo, executed in a scheduler controlled thread;
   its join() is a yield point with guard "target finished";
 * both filesystems are wrapped in TrackFS (a WrapFS): every file object handed out by
   openbin is a PFile proxy, every read/write/close (and the openbin itself) is a yield
   point, may raise an injected fault and records whether close() was called.

Exactly one thread runs at a time; at every yield point the next thread is chosen among
the enabled ones from a list of ints (choice modulo number of enabled threads, the
running thread first when it is still enabled, then by thread id), so a run replays
exactly.  No enabled thread while some thread is unfinished = DEADLOCK (reported, never
hangs); a watchdog (lock time-outs + SIGALRM) bounds every run.

The single-threaded fallback: fs.tools.is_thread_safe is documented as "all filesystems are thread
safe", read from the ``thread_safe`` key of getmeta() (a key "may not be present if there is no way to
know the value").  `composite_cases` hands the tracked filesystems to the calls inside every composite /
wrapper kind (WRAP_KINDS: bare, SubFS, WrapFS, read_only, cache_directory, MountFS, MultiFS, SubFS of a
MountFS) with the member declaring thread_safe False, nothing, or True: worker threads may be used exactly
when every filesystem handed to the call reports thread_safe True (and no wrapped member declared
otherwise); in the fallback every file operation happens on the calling thread; the destination tree equals
the workers=0 run of the same configuration.

Model side: coq/Conc/Copier.v (same atomic actions), theorems in coq/Conc/CopierProofs.v,
re-checked through coq/Props/C09.v by common.preflight.
"""
from __future__ import print_function

import collections
import hashlib
import json
import os
import random
import shutil
import signal
import tempfile
import threading
import time

import common  # noqa: F401  (puts /repo on sys.path)

import fs  # noqa: E402
import fs._bulk as _bulk  # noqa: E402
import fs.copy  # noqa: E402
import fs.errors  # noqa: E402
import fs.mirror  # noqa: E402
import fs.move  # noqa: E402
from fs.base import FS  # noqa: E402
from fs.memoryfs import MemoryFS  # noqa: E402
from fs.osfs import OSFS  # noqa: E402
from fs.wrapfs import WrapFS  # noqa: E402

ORIG_QUEUE = _bulk.Queue
ORIG_WORKER = _bulk._Worker
ORIG_RUN = _bulk._Worker.__dict__["run"]      # the function of /repo, run by the shim

WATCHDOG_S = 20.0
THEOREM = "Props/C09.v (copier_exit, copier_progress on Conc/Copier.v)"

# TODO: misbehaviours of the UNCHANGED library exposed by the coverage of this module that are not in
# known_findings.json yet (signature strings).  They are routed through report.known_match first; while a
# signature is listed here and not yet known it is recorded in the evidence (coverage['pending_findings'])
# instead of failing the check.
PENDING_FINDINGS = []


class Abort(BaseException):
    """Unwinds every controlled thread after a deadlock / timeout / end of run."""


class Watchdog(BaseException):
    pass


def _true():
    return True


# --------------------------------------------------------------------------- scheduler

class TCtl(object):
    __slots__ = ("tid", "lock", "guard", "what", "finished", "fresh", "parent", "thread",
                 "crash")

    def __init__(self, tid, parent=None):
        self.tid = tid
        self.lock = threading.Lock()
        self.lock.acquire()
        self.guard = None
        self.what = "start"
        self.finished = False
        self.fresh = parent is not None
        self.parent = parent
        self.thread = None
        self.crash = None


class Sched(object):
    """Baton scheduler.  ``choices`` is consumed at every point where more than one
    thread is enabled; afterwards ``policy`` decides (None: choice 0 = keep running the
    current thread when possible, else lowest thread id)."""

    def __init__(self, choices=(), policy=None, rnd=None, grain="io"):
        self.prefix = list(choices)
        self.pos = 0
        self.policy = policy
        self.rnd = rnd
        self.grain = grain
        self.trace = []          # (choice, n_enabled, stay_possible)
        self.tids = []           # thread id run after every scheduling decision
        self.picks = []          # (thread id, sorted ids of the enabled threads)
        self.queues = []
        self.main = TCtl(0)
        self.main.thread = threading.current_thread()
        self.threads = [self.main]
        self.cur = self.main
        self.aborted = False
        self.deadlock = None
        self.timeout = False
        self.blocked_put = 0     # producer found the queue full
        self.blocked_get = 0     # a worker found the queue empty
        self.max_qlen = 0

    # -- choice
    def _choose(self, n, stay_possible, cands):
        if self.pos < len(self.prefix):
            c = self.prefix[self.pos] % n
        elif self.policy is None:
            c = 0
        else:
            r = self.rnd
            p = self.policy
            if p == "uniform":
                c = r.randrange(n)
            elif p == "sticky":
                c = 0 if (stay_possible and r.random() < 0.8) else r.randrange(n)
            elif p == "producer_first":
                lo = min(range(n), key=lambda i: cands[i].tid)
                c = lo if r.random() < 0.8 else r.randrange(n)
            else:  # workers_first
                hi = [i for i in range(n) if cands[i].tid != 0] or [0]
                c = r.choice(hi) if r.random() < 0.8 else r.randrange(n)
        self.pos += 1
        self.trace.append((c, n, stay_possible))
        return c

    def _pick(self, me):
        others = [t for t in self.threads
                  if t is not me and not t.finished and t.guard is not None and t.guard()]
        stay = me is not None and not me.finished and me.guard is not None and me.guard()
        cands = ([me] if stay else []) + others
        if not cands:
            return None
        if len(cands) == 1:
            nxt = cands[0]
        else:
            nxt = cands[self._choose(len(cands), stay, cands)]
        self.tids.append(nxt.tid)
        self.picks.append((nxt.tid, sorted(t.tid for t in cands)))
        return nxt

    # -- abort / deadlock
    def abort_all(self):
        self.aborted = True
        for t in self.threads:
            if not t.finished:
                try:
                    t.lock.release()
                except RuntimeError:
                    pass

    def _dead(self):
        self.deadlock = [(t.tid, t.what) for t in self.threads if not t.finished]
        self.abort_all()

    def _wait(self, me):
        if not me.lock.acquire(timeout=WATCHDOG_S):
            self.timeout = True
            self.abort_all()
            raise Abort()
        if self.aborted:
            raise Abort()

    # -- yield point
    def yield_(self, guard, what):
        if self.aborted:
            raise Abort()
        me = self.cur
        me.guard = guard
        me.what = what
        if me.fresh:
            # first yield point of a freshly started worker: give the baton back to the
            # thread that started it (Thread.start() is not an action of the model)
            me.fresh = False
            nxt = me.parent
        else:
            nxt = self._pick(me)
            if nxt is None:
                self._dead()
                raise Abort()
        if nxt is not me:
            self.cur = nxt
            nxt.lock.release()
            self._wait(me)
        me.guard = None

    # -- threads
    def spawn(self, fn):
        parent = self.cur
        ctl = TCtl(len(self.threads), parent)
        ctl.thread = PoolThread.submit(self._boot, ctl, fn)
        self.threads.append(ctl)
        self.cur = ctl
        ctl.lock.release()
        self._wait(parent)
        return ctl

    def _boot(self, ctl, fn):
        ctl.lock.acquire()
        try:
            if not self.aborted:
                fn()
        except Abort:
            pass
        except BaseException as e:  # noqa -- a worker thread died with an exception
            ctl.crash = e
        finally:
            ctl.finished = True
            if ctl.fresh:
                ctl.fresh = False
                if not self.aborted:
                    self.cur = ctl.parent
                    ctl.parent.lock.release()
            elif not self.aborted:
                nxt = self._pick(None)
                if nxt is None:
                    self._dead()
                else:
                    self.cur = nxt
                    nxt.lock.release()

    def join_thread(self, ctl):
        self.yield_(lambda: ctl.finished, "join worker %d" % ctl.tid)


class PoolThread(object):
    """Re-usable OS threads for the shim workers (thread creation dominates a run)."""

    idle = []
    pid = None

    def __init__(self):
        self.wake = threading.Lock()
        self.wake.acquire()
        self.done = threading.Lock()
        self.job = None
        th = threading.Thread(target=self._loop)
        th.daemon = True
        th.start()

    def _loop(self):
        while True:
            self.wake.acquire()
            fn, args = self.job
            try:
                fn(*args)
            finally:
                self.job = None
                PoolThread.idle.append(self)
                self.done.release()

    @classmethod
    def submit(cls, fn, *args):
        if cls.pid != os.getpid():      # forked child: the parent's threads do not exist here
            cls.pid = os.getpid()
            cls.idle = []
        pt = cls.idle.pop() if cls.idle else cls()
        pt.done.acquire()
        pt.job = (fn, args)
        pt.wake.release()
        return pt

    def join(self, timeout):
        """Wait until the submitted job is over."""
        if self.done.acquire(timeout=timeout):
            self.done.release()
            return True
        return False


CUR = None      # the scheduler of the run in progress


class SQueue(object):
    """Stand-in for six.moves.queue.Queue inside fs._bulk."""

    def __init__(self, maxsize=0):
        self.maxsize = maxsize
        self.items = collections.deque()
        self.unfinished = 0
        self.n_put = 0
        if CUR is not None:
            CUR.queues.append(self)

    def _room(self):
        return self.maxsize <= 0 or len(self.items) < self.maxsize

    def put(self, item, block=True, timeout=None):
        s = CUR
        if not self._room():
            s.blocked_put += 1
        s.yield_(self._room, "put")
        self.items.append(item)
        self.unfinished += 1
        self.n_put += 1
        if len(self.items) > s.max_qlen:
            s.max_qlen = len(self.items)

    def get(self, block=True, timeout=None):
        s = CUR
        if not self.items:
            s.blocked_get += 1
        s.yield_(lambda: len(self.items) > 0, "get")
        return self.items.popleft()

    def task_done(self):
        CUR.yield_(_true, "task_done")
        if self.unfinished <= 0:
            raise ValueError("task_done() called too many times")
        self.unfinished -= 1

    def join(self):
        CUR.yield_(lambda: self.unfinished == 0, "queue.join")

    def qsize(self):
        return len(self.items)


class ShimWorker(object):
    """Thread shim: same constructor as fs._bulk._Worker, ``run`` is the original."""

    run = ORIG_RUN

    def __init__(self, copier):
        self.copier = copier
        self.daemon = True
        self._ctl = None

    def start(self):
        self._ctl = CUR.spawn(self.run)

    def join(self, timeout=None):
        CUR.join_thread(self._ctl)

    def is_alive(self):
        return self._ctl is not None and not self._ctl.finished


# --------------------------------------------------------------------------- tracked files

class Tracker(object):
    def __init__(self, fault, chunk):
        self.fault = fault        # dict(path, side, op, nth, exc) or None
        self.chunk = chunk        # max bytes returned by one read() (short reads)
        self.files = []
        self.fired = None         # dict(tid=..., exc=...) once the fault was raised
        self.opens = {}
        self.io_by_tid = collections.Counter()

    def hit(self, path, side, op, nth):
        f = self.fault
        if (f is not None and self.fired is None and f["op"] == op and f["side"] == side
                and f["path"] == path and f["nth"] == nth):
            if f.get("exc") == "OperationFailed":
                e = fs.errors.OperationFailed(path, msg="injected %s fault" % op)
            else:
                e = OSError(5, "injected %s fault on %s:%s" % (op, side, path))
            self.fired = dict(tid=CUR.cur.tid if CUR is not None else 0, exc=e)
            raise e


class PFile(object):
    """Tracked proxy of a binary file object."""

    def __init__(self, tracker, inner, path, side, mode):
        self._t = tracker
        self._f = inner
        self.path = path
        self.side = side
        self.pmode = mode
        self.close_called = False
        self.n = {"read": 0, "write": 0, "close": 0}
        self.opened_by = CUR.cur.tid if CUR is not None else 0
        self.closed_by = None

    def _op(self, op):
        s = CUR
        if s is not None:
            if s.grain == "io":
                s.yield_(_true, "%s %s:%s" % (op, self.side, self.path))
            self._t.io_by_tid[s.cur.tid] += 1
        k = self.n[op]
        self.n[op] = k + 1
        self._t.hit(self.path, self.side, op, k)

    def read(self, size=-1):
        self._op("read")
        c = self._t.chunk
        if c is not None and (size is None or size < 0 or size > c):
            size = c
        return self._f.read(size)

    def write(self, data):
        self._op("write")
        return self._f.write(data)

    def close(self):
        if self.close_called:
            return
        s = CUR
        if s is not None and s.grain == "io":
            s.yield_(_true, "close %s:%s" % (self.side, self.path))
        self.close_called = True
        self.closed_by = s.cur.tid if s is not None else 0
        try:
            self._f.close()
        finally:
            k = self.n["close"]
            self.n["close"] = k + 1
            self._t.hit(self.path, self.side, "close", k)

    @property
    def closed(self):
        return self.close_called

    def __enter__(self):
        return self

    def __exit__(self, *a):
        self.close()

    def flush(self):
        return self._f.flush()

    def readable(self):
        return self._f.readable()

    def writable(self):
        return self._f.writable()

    def __getattr__(self, name):
        return getattr(self._f, name)


class TrackFS(WrapFS):
    """WrapFS whose openbin hands out tracked proxies; upload/download are the generic
    FS implementations so that the single threaded path goes through openbin as well."""

    def __init__(self, inner, side, tracker, thread_safe=True):
        super(TrackFS, self).__init__(inner)
        self._side = side
        self._tracker = tracker
        self._thread_safe = thread_safe

    def openbin(self, path, mode="r", buffering=-1, **options):
        self.check()
        t = self._tracker
        s = CUR
        if s is not None and s.grain == "io":
            s.yield_(_true, "open %s:%s" % (self._side, path))
        key = (self._side, path)
        k = t.opens.get(key, 0)
        t.opens[key] = k + 1
        t.hit(path, self._side, "open", k)
        inner = self.delegate_fs().openbin(path, mode=mode, buffering=buffering, **options)
        pf = PFile(t, inner, path, self._side, mode)
        t.files.append(pf)
        return pf

    def getmeta(self, namespace="standard"):
        meta = dict(self.delegate_fs().getmeta(namespace=namespace))
        if namespace == "standard":
            if self._thread_safe is None:
                meta.pop("thread_safe", None)      # a filesystem that declares nothing
            else:
                meta["thread_safe"] = self._thread_safe
        return meta

    def upload(self, path, file, chunk_size=None, **options):
        return FS.upload(self, path, file, chunk_size=chunk_size, **options)

    def download(self, path, file, chunk_size=None, **options):
        return FS.download(self, path, file, chunk_size=chunk_size, **options)


# --------------------------------------------------------------------------- cases

def content(path, size):
    base = sum(bytearray(path.encode("utf8"))) % 251
    return bytes(bytearray((base + 7 * i) % 251 for i in range(size)))


def populate(inner, tree, t0):
    for d in tree.get("dirs", []):
        inner.makedirs(d, recreate=True)
    for i, (p, size) in enumerate(tree.get("files", [])):
        d = fs.path.dirname(p)
        if d not in ("", "/"):
            inner.makedirs(d, recreate=True)
        inner.writebytes(p, content(p + tree.get("salt", ""), size))
    # explicit, distinct modification times (preserve_time / mirror's copy_if_newer)
    for i, (p, size) in enumerate(tree.get("files", [])):
        mt = tree.get("mtimes", {}).get(p, t0 + 1000 * i)
        inner.setinfo(p, {"details": {"modified": mt, "accessed": mt}})


def snapshot(inner, with_time):
    out = []
    stack = ["/"]
    while stack:
        d = stack.pop()
        for info in inner.scandir(d, namespaces=["details"]):
            path = d + info.name if d == "/" else d + "/" + info.name
            if info.is_dir:
                out.append((path, "dir", b"", None))
                stack.append(path)
            else:
                mt = info.raw.get("details", {}).get("modified") if with_time else None
                out.append((path, "file", bytes(inner.readbytes(path)), mt))
    out.sort(key=lambda x: x[0])
    return out


def show_snapshot(snap):
    return [[p, k, len(b), hashlib.sha1(b).hexdigest()[:8] if k == "file" else "", mt]
            for (p, k, b, mt) in snap]


def new_backend(kind, tmpdirs):
    if kind == "osfs":
        d = tempfile.mkdtemp(prefix="c09_")
        tmpdirs.append(d)
        return OSFS(d)
    return MemoryFS()


def norm_case(case):
    c = dict(function="copy_fs", workers=0, tree=dict(dirs=[], files=[]), preserve_time=False,
             chunk=None, fault=None, backend="memory", grain="io", dst_pre=None,
             copy_if_newer=True, src_path="/", dst_path="/", thread_safe=True, schedule=[],
             wrap=None, wrap_side="src")
    c.update(case)
    return c


# composite / wrapper kinds a tracked filesystem is handed to the call in (case["wrap"]); case["wrap_side"] says
# which of the two filesystems is wrapped ("src" / "dst" / "both"; the other one is the bare TrackFS declaring
# thread_safe True); case["thread_safe"] is what the wrapped member declares: True, False or None (no key)
WRAP_KINDS = ("bare", "sub", "wrapfs", "read_only", "cache_directory", "multi", "mount", "mount-sub")


def wrap_member(kind, track, root):
    """(filesystem handed to the call, path of the tree inside it)."""
    import fs.wrap
    from fs.mountfs import MountFS
    from fs.multifs import MultiFS
    from fs.subfs import SubFS
    if kind == "bare":
        return track, "/"
    if kind == "sub":
        return SubFS(track, root), "/"
    if kind == "wrapfs":
        return WrapFS(track), "/"
    if kind == "read_only":
        return fs.wrap.read_only(track), "/"
    if kind == "cache_directory":
        return fs.wrap.cache_directory(track), "/"
    if kind == "multi":
        m = MultiFS(auto_close=False)
        m.add_fs("only", track, write=True)
        return m, "/"
    if kind in ("mount", "mount-sub"):
        m = MountFS(auto_close=False)
        m.mount("data", track)
        if kind == "mount-sub":
            return m.opendir("/data"), "/"
        return m, "/data"
    raise ValueError("unknown wrapper kind %r" % (kind,))


def reports_thread_safe(f):
    """The documented rule (fs.tools.is_thread_safe / FS.getmeta): the filesystem REPORTS that it is thread safe."""
    meta = f.getmeta()
    return "thread_safe" in meta and meta["thread_safe"] is True


class Result(object):
    pass


def execute(case, schedule=None, policy=None, rnd=None):
    """Run one case under the scheduler and collect every observation."""
    global CUR
    case = norm_case(case)
    if schedule is None:
        schedule = case["schedule"]
    tmpdirs = []
    res = Result()
    src_raw = new_backend(case["backend"], tmpdirs)
    dst_raw = new_backend(case["backend"], tmpdirs)
    src_in, dst_in = src_raw, dst_raw
    try:
        wrap = case["wrap"]
        wsides = () if not wrap else (("src", "dst") if case["wrap_side"] == "both" else (case["wrap_side"],))
        sub_root = "/r"
        if wrap == "sub":
            # the tree lives in a sub-directory of the storage; src_in / dst_in are views of it
            if "src" in wsides:
                src_in = src_raw.makedir(sub_root)
            if "dst" in wsides:
                dst_in = dst_raw.makedir(sub_root)
        populate(src_in, case["tree"], 1000000000)
        if case["dst_pre"]:
            populate(dst_in, case["dst_pre"], 1000500000)
        pt = bool(case["preserve_time"])
        src_before = snapshot(src_in, True)
        tracker = Tracker(case["fault"], case["chunk"])
        if wrap:
            # the wrapped member declares case["thread_safe"]; a side that is not wrapped declares True
            src = TrackFS(src_raw, "src", tracker, case["thread_safe"] if "src" in wsides else True)
            dst = TrackFS(dst_raw, "dst", tracker, case["thread_safe"] if "dst" in wsides else True)
        else:
            src = TrackFS(src_raw, "src", tracker, case["thread_safe"])
            dst = TrackFS(dst_raw, "dst", tracker, case["thread_safe"])
        members_declare_safe = src._thread_safe is True and dst._thread_safe is True
        sroot = droot = "/"
        if "src" in wsides:
            src, sroot = wrap_member(wrap, src, sub_root)
        if "dst" in wsides:
            dst, droot = wrap_member(wrap, dst, sub_root)
        sched = Sched(schedule, policy, rnd, case["grain"])
        n = case["workers"]
        fn = case["function"]
        exc = None
        status = "ok"

        def on_alarm(signum, frame):
            sched.timeout = True
            sched.abort_all()
            raise Watchdog()

        old_handler = None
        in_main = threading.current_thread() is threading.main_thread()
        if in_main:
            old_handler = signal.signal(signal.SIGALRM, on_alarm)
            signal.setitimer(signal.ITIMER_REAL, WATCHDOG_S + 5)
        _bulk.Queue = SQueue
        _bulk._Worker = ShimWorker
        CUR = sched
        try:
            try:
                if fn in ("mirror", "move_fs"):
                    # no path arguments: a tree below the root of a composite is handed over as a view
                    if sroot != "/":
                        src = src.opendir(sroot)
                    if droot != "/":
                        dst = dst.opendir(droot)
                    sroot = droot = "/"
                # the documented rule, evaluated on the filesystems the call is given
                res.reported_safe = reports_thread_safe(src) and reports_thread_safe(dst)
                res.threads_allowed = res.reported_safe and members_declare_safe
                if fn == "copy_fs" and sroot == "/" and droot == "/":
                    fs.copy.copy_fs(src, dst, workers=n, preserve_time=pt)
                elif fn in ("copy_dir", "copy_fs"):
                    sp, dp = (case["src_path"], case["dst_path"]) if fn == "copy_dir" else ("/", "/")
                    fs.copy.copy_dir(src, fs.path.join(sroot, sp.lstrip("/")) if sroot != "/" else sp,
                                     dst, fs.path.join(droot, dp.lstrip("/")) if droot != "/" else dp,
                                     workers=n, preserve_time=pt)
                elif fn == "mirror":
                    fs.mirror.mirror(src, dst, copy_if_newer=case["copy_if_newer"], workers=n,
                                     preserve_time=pt)
                elif fn == "move_fs":
                    fs.move.move_fs(src, dst, workers=n, preserve_time=pt)
                else:
                    raise ValueError("unknown function %r" % fn)
            except Exception as e:  # noqa
                exc = e
                status = "raise"
            except Abort:
                status = "abort"
            except Watchdog:
                status = "abort"
            # -- observations taken at the very moment the call returned / raised
            res.alive = [(t.tid, t.what) for t in sched.threads[1:] if not t.finished]
            res.unclosed = [(f.side, f.path, f.pmode, f.opened_by) for f in tracker.files
                            if not f.close_called]
        finally:
            if in_main:
                signal.setitimer(signal.ITIMER_REAL, 0)
                signal.signal(signal.SIGALRM, old_handler)
            _bulk.Queue = ORIG_QUEUE
            _bulk._Worker = ORIG_WORKER
            sched.abort_all()
            for t in sched.threads[1:]:
                t.thread.join(5.0)
            CUR = None
        res.status = status
        res.exc = exc
        res.deadlock = sched.deadlock
        res.timeout = sched.timeout
        res.crashed = [(t.tid, repr(t.crash)) for t in sched.threads[1:] if t.crash is not None]
        res.fired = tracker.fired
        res.trace = sched.trace
        res.tids = sched.tids
        res.picks = sched.picks
        res.n_put = sum(q.n_put for q in sched.queues)
        res.src_opens = [f.path for f in tracker.files if f.side == "src"]
        res.n_threads = len(sched.threads) - 1
        res.n_files = len(tracker.files)
        res.worker_io = sum(v for k, v in tracker.io_by_tid.items() if k != 0)
        res.foreign_files = [(f.side, f.path, f.opened_by, f.closed_by) for f in tracker.files
                             if f.opened_by != 0 or f.closed_by not in (None, 0)]
        res.blocked_put = sched.blocked_put
        res.blocked_get = sched.blocked_get
        res.max_qlen = sched.max_qlen
        res.closed_by_worker = sum(1 for f in tracker.files if f.closed_by not in (None, 0))
        res.src_before = src_before
        if status != "abort":
            res.src_after = snapshot(src_in, True)
            res.dst_after = snapshot(dst_in, pt)
        else:
            res.src_after = res.dst_after = None
        return res
    finally:
        for f in (src_raw, dst_raw):
            try:
                f.close()
            except Exception:  # noqa
                pass
        for d in tmpdirs:
            shutil.rmtree(d, ignore_errors=True)


_REF = {}


def reference(case):
    """Destination (and source) produced by the single threaded run on the same input."""
    case = norm_case(case)
    key = json.dumps([case[k] for k in ("function", "tree", "preserve_time", "backend", "dst_pre",
                                        "copy_if_newer", "src_path", "dst_path", "wrap", "wrap_side") +
                      (("thread_safe",) if case["wrap"] else ())], sort_keys=True)
    if key not in _REF:
        c = dict(case, workers=0, fault=None, schedule=[], chunk=None, grain="queue")
        r = execute(c)
        _REF[key] = (r.status, repr(r.exc), r.src_after, r.dst_after)
        if len(_REF) > 4000:
            _REF.pop(next(iter(_REF)))
    return _REF[key]


def drop_atime(snap):
    return snap


def judge(case, res):
    """Return the list of (kind, detail) violated by one run."""
    case = norm_case(case)
    v = []
    if res.deadlock is not None:
        v.append(("deadlock", dict(blocked=res.deadlock)))
    if res.timeout:
        v.append(("timeout", {}))
    if res.status == "abort" and res.deadlock is None and not res.timeout:
        v.append(("aborted", {}))
    if res.crashed:
        v.append(("worker-thread-died", dict(threads=res.crashed)))
    if res.status == "abort":
        return v       # the run was torn down: what follows would only be noise
    if res.alive:
        v.append(("returned-before-workers-finished", dict(alive=res.alive)))
    if res.unclosed:
        v.append(("file-not-closed", dict(files=res.unclosed)))
    allowed = getattr(res, "threads_allowed", case["thread_safe"] is True)
    if not allowed and (res.n_threads or res.worker_io or res.foreign_files):
        v.append(("workers-used-on-non-thread-safe-fs",
                  dict(threads=res.n_threads, file_operations_in_worker_threads=res.worker_io,
                       files_opened_or_closed_by_workers=res.foreign_files[:6],
                       wrapper=case["wrap"], wrapped_side=case["wrap_side"] if case["wrap"] else None,
                       member_declares=case["thread_safe"],
                       filesystems_report_thread_safe=getattr(res, "reported_safe", None))))
    if allowed and case["workers"] > 0 and res.status == "ok" and res.n_threads != case["workers"]:
        v.append(("no-worker-threads-although-all-filesystems-report-thread-safe",
                  dict(threads=res.n_threads, workers=case["workers"], wrapper=case["wrap"],
                       member_declares=case["thread_safe"])))
    fired = res.fired
    if fired is None:
        ref = reference(case)
        if res.exc is not None:
            if ref[0] != "raise" or ref[1] != repr(res.exc):
                v.append(("unexpected-exception", dict(exception=repr(res.exc),
                                                       sequential=ref[:2])))
        elif ref[0] != "ok":
            v.append(("sequential-raises-parallel-returns", dict(sequential=ref[:2])))
        else:
            if res.dst_after != ref[3]:
                v.append(("tree-differs-from-sequential",
                          dict(destination=show_snapshot(res.dst_after),
                               sequential=show_snapshot(ref[3]))))
            strip = lambda s: [(p, k, b) for (p, k, b, _m) in s]  # noqa
            if strip(res.src_after) != strip(ref[2]):
                v.append(("source-differs-from-sequential",
                          dict(source=show_snapshot(res.src_after),
                               sequential=show_snapshot(ref[2]))))
    else:
        inj = fired["exc"]
        if res.exc is None:
            v.append(("failure-swallowed", dict(injected=repr(inj), raised_in_thread=fired["tid"])))
        elif fired["tid"] != 0:
            if not isinstance(res.exc, fs.errors.BulkCopyFailed):
                v.append(("wrong-exception", dict(expected="BulkCopyFailed",
                                                  got=repr(res.exc))))
            elif not any(e is inj for e in res.exc.errors):
                v.append(("error-not-recorded", dict(errors=repr(res.exc.errors))))
        if case["function"] == "move_fs" and res.exc is not None:
            strip = lambda s: [(p, k, b) for (p, k, b, _m) in s]  # noqa
            if strip(res.src_after) != strip(res.src_before):
                v.append(("move-removed-source-after-failure",
                          dict(source=show_snapshot(res.src_after))))
    return v


def realized(res):
    return [c for (c, _n, _s) in res.trace]


# --------------------------------------------------------------------------- exploration

def dfs(case, bound, cap, root=(), depth=None):
    """Stateless depth first enumeration of the schedules of one case.  bound = maximal
    number of preemptions (None: unbounded = every schedule).  Only the choice points at
    positions len(root) <= i < depth are varied (root: fixed prefix; depth None: all).
    Yields (result, complete)."""
    prefix = list(root)
    lo = len(prefix)
    n = 0
    while True:
        res = execute(case, prefix)
        n += 1
        trace = res.trace
        used = []
        u = 0
        for (c, _k, stay) in trace:
            used.append(u)
            if stay and c != 0:
                u += 1
        i = len(trace) - 1
        if depth is not None:
            i = min(i, depth - 1)
        while i >= lo:
            c, k, stay = trace[i]
            if c + 1 < k:
                if bound is None or used[i] + (1 if stay else 0) <= bound:
                    break
            i -= 1
        complete = i < lo
        yield res, complete
        if complete or n >= cap or (res.status == "abort" and res.timeout):
            return
        prefix = [t[0] for t in trace[:i]] + [trace[i][0] + 1]


def dfs_roots(case, bound, depth):
    """All distinct schedule prefixes of length <= depth (to split one DFS over processes)."""
    roots = []
    for res, _c in dfs(case, bound, 100000, (), depth):
        roots.append(realized(res)[:depth])
    return roots


def file_ops(tree, chunk):
    """(path, side, op, n_occurrences) of every read/write/close of a tree's transfers."""
    out = []
    for p, size in tree["files"]:
        nchunks = 0 if size == 0 else (1 if chunk is None else -(-size // chunk))
        out.append((p, "src", "read", nchunks + 1))
        if nchunks:
            out.append((p, "dst", "write", nchunks))
        out.append((p, "src", "close", 1))
        out.append((p, "dst", "close", 1))
    return out


def all_faults(tree, chunk, opens=True):
    fl = []
    for (p, side, op, k) in file_ops(tree, chunk):
        for nth in range(k):
            fl.append(dict(path=p, side=side, op=op, nth=nth, exc="OSError"))
    if opens:
        for p, _s in tree["files"]:
            fl.append(dict(path=p, side="src", op="open", nth=0, exc="OSError"))
            fl.append(dict(path=p, side="dst", op="open", nth=0, exc="OperationFailed"))
    return fl


SMALL_TREES = [
    dict(dirs=[], files=[]),
    dict(dirs=[], files=[["/a", 0]]),
    dict(dirs=[], files=[["/a", 3]]),
    dict(dirs=[], files=[["/a", 5], ["/b", 0]]),
    dict(dirs=["/e"], files=[["/a", 6], ["/d/b", 2]]),
    dict(dirs=[], files=[["/a", 4], ["/b", 5], ["/c", 1]]),
    dict(dirs=["/d/e"], files=[["/a", 0], ["/d/b", 6], ["/d/e/c", 3]]),
]
SMALL_CHUNK = 3     # <= 2 chunks for the sizes above

MIRROR_PRE = dict(dirs=["/old", "/a2"], salt="x",
                  files=[["/a", 4], ["/gone", 2], ["/old/x", 1], ["/b", 5], ["/d/b", 6]],
                  mtimes={"/a": 999000000, "/b": 1000900000, "/d/b": 1000900000})


def random_tree(rnd, max_files):
    shape = rnd.choice(["flat", "nested", "empties", "many", "empty", "mixed", "mixed"])
    if shape == "empty":
        return dict(dirs=rnd.choice([[], ["/only/dirs", "/x"]]), files=[])
    nf = rnd.randint(1, max_files)
    if shape == "many":
        nf = rnd.randint(max(1, max_files - 4), max_files)
    dirs_pool = ["/", "/", "/d/", "/d/e/", "/f/", "/d/e/g/"] if shape != "flat" else ["/"]
    files = []
    seen = set()
    for i in range(nf):
        d = rnd.choice(dirs_pool)
        p = "%sf%d" % (d, i)
        if p in seen:
            continue
        seen.add(p)
        if shape == "empties":
            size = 0
        else:
            size = rnd.choice([0, 0, 1, 2, 3, 5, 8, 13, 40])
        files.append([p, size])
    dirs = rnd.choice([[], ["/emptydir"], ["/d/emptysub", "/z/y"]])
    return dict(dirs=dirs, files=files)


def random_pre(rnd, tree):
    """A pre-existing destination for mirror()."""
    files = []
    mt = {}
    for p, size in tree["files"]:
        r = rnd.random()
        if r < 0.25:
            files.append([p, size])           # same size: mtime decides
            mt[p] = rnd.choice([999000000, 1000900000])
        elif r < 0.4:
            files.append([p, size + 1])
    files.append(["/stale%d" % rnd.randint(0, 3), rnd.randint(0, 4)])
    if rnd.random() < 0.5:
        files.append(["/staledir/x", 1])
    return dict(dirs=rnd.choice([[], ["/olddir"]]), files=files, mtimes=mt, salt="pre")


def random_fault(rnd, tree, chunk, last_bias=0.3):
    if not tree["files"]:
        return None
    ops = file_ops(tree, chunk)
    if rnd.random() < last_bias:
        lastp = tree["files"][-1][0]
        ops = [o for o in ops if o[0] == lastp]
    p, side, op, k = rnd.choice(ops)
    f = dict(path=p, side=side, op=op, nth=rnd.randrange(k),
             exc=rnd.choice(["OSError", "OperationFailed"]))
    if rnd.random() < 0.12:
        f = dict(path=p, side=rnd.choice(["src", "dst"]), op="open", nth=0,
                 exc=rnd.choice(["OSError", "OperationFailed"]))
    return f


def case_key(case):
    c = norm_case(case)
    return json.dumps([c[k] for k in ("function", "workers", "tree", "preserve_time", "chunk",
                                      "fault", "backend", "grain", "dst_pre", "copy_if_newer",
                                      "src_path", "dst_path", "thread_safe", "wrap", "wrap_side")],
                      sort_keys=True)


class Stats(object):
    def __init__(self):
        self.evaluations = 0
        self.distinct = set()
        self.by_workers = collections.Counter()
        self.by_function = collections.Counter()
        self.by_fault = collections.Counter()
        self.by_phase = collections.Counter()
        self.by_backend = collections.Counter()
        self.outcomes = collections.Counter()
        self.deadlocks = 0
        self.timeouts = 0
        self.fault_fired_in_worker = 0
        self.fault_fired_in_producer = 0
        self.fault_in_last_task = 0
        self.producer_blocked_runs = 0
        self.worker_waited_runs = 0
        self.more_files_than_slots_runs = 0
        self.empty_tree_runs = 0
        self.empty_file_runs = 0
        self.max_choice_points = 0
        self.exhaustive_cases = 0
        self.capped_cases = 0
        self.dfs_cases = []
        self.samples = []
        self.producer_error_replaced = 0
        self.producer_error_replaced_example = None
        self.traces = []          # observed runs to replay on the Coq model
        self.violations = []      # (case, schedule, kinds)

    def merge(self, o):
        self.evaluations += o.evaluations
        self.distinct |= o.distinct
        for name in ("by_workers", "by_function", "by_fault", "by_phase", "by_backend",
                     "outcomes"):
            getattr(self, name).update(getattr(o, name))
        for name in ("deadlocks", "timeouts", "fault_fired_in_worker", "fault_fired_in_producer",
                     "fault_in_last_task", "producer_blocked_runs", "worker_waited_runs",
                     "more_files_than_slots_runs", "empty_tree_runs", "empty_file_runs",
                     "exhaustive_cases", "capped_cases", "producer_error_replaced"):
            setattr(self, name, getattr(self, name) + getattr(o, name))
        self.max_choice_points = max(self.max_choice_points, o.max_choice_points)
        self.dfs_cases.extend(o.dfs_cases)
        self.samples.extend(o.samples)
        if self.producer_error_replaced_example is None:
            self.producer_error_replaced_example = o.producer_error_replaced_example
        self.traces.extend(o.traces)
        self.violations.extend(o.violations)


def record(st, phase, case, res, viol):
    case = norm_case(case)
    st.evaluations += 1
    st.by_phase[phase] += 1
    st.by_workers[str(case["workers"])] += 1
    st.by_function[case["function"]] += 1
    st.by_backend[case["backend"]] += 1
    f = case["fault"]
    st.by_fault["none" if f is None else "%s-%s" % (f["side"], f["op"])] += 1
    out = res.status if res.exc is None else "raise:" + type(res.exc).__name__
    st.outcomes[out] += 1
    if res.deadlock is not None:
        st.deadlocks += 1
    if res.timeout:
        st.timeouts += 1
    if res.fired is not None:
        if res.fired["tid"] != 0:
            st.fault_fired_in_worker += 1
        else:
            st.fault_fired_in_producer += 1
        if case["tree"]["files"] and f["path"] == case["tree"]["files"][-1][0]:
            st.fault_in_last_task += 1
    if (res.fired is not None and res.fired["tid"] == 0 and res.exc is not None
            and res.exc is not res.fired["exc"]):
        # not part of the property (the call does raise): the error of the producer's own
        # openbin is replaced by another exception on the way out of Copier.__exit__
        st.producer_error_replaced += 1
        if st.producer_error_replaced_example is None:
            st.producer_error_replaced_example = dict(
                function=case["function"], workers=case["workers"], tree=case["tree"],
                preserve_time=case["preserve_time"], fault=f, schedule=realized(res),
                injected=repr(res.fired["exc"]), raised=repr(res.exc))
    if res.blocked_put:
        st.producer_blocked_runs += 1
    if res.blocked_get:
        st.worker_waited_runs += 1
    nf = len(case["tree"]["files"])
    if res.n_threads and nf > res.n_threads:
        st.more_files_than_slots_runs += 1
    if nf == 0:
        st.empty_tree_runs += 1
    if any(s == 0 for _p, s in case["tree"]["files"]):
        st.empty_file_runs += 1
    st.max_choice_points = max(st.max_choice_points, len(res.trace))
    # non trivial: worker threads really transferred data and the schedule had a choice
    if res.n_threads >= 1 and res.closed_by_worker >= 1 and len(res.trace) >= 1:
        h = hashlib.sha1((case_key(case) + "|" + ",".join(map(str, res.tids))).encode("utf8"))
        st.distinct.add(h.digest()[:10])
    if (not viol and case["grain"] == "io" and res.status != "abort" and len(st.traces) < 4
            and (f is None or f["op"] != "open") and st.evaluations % 53 == 7):
        tr = model_trace(case, res)
        if tr is not None:
            st.traces.append(tr)
    if viol:
        st.violations.append((case, realized(res), [k for k, _d in viol]))
    elif len(st.samples) < 2 and res.n_threads and st.evaluations % 97 == 50:
        st.samples.append(dict(function=case["function"], workers=case["workers"],
                               tree=case["tree"], fault=case["fault"], grain=case["grain"],
                               schedule=realized(res)[:60], thread_trace=res.tids[:60],
                               outcome=out, files_opened=res.n_files, all_closed=not res.unclosed,
                               phase=phase))


def dst_of(case, p):
    """Destination path of the source file p."""
    if case["function"] != "copy_dir":
        return p
    sp = fs.path.abspath(fs.path.normpath(case["src_path"]))
    if not fs.path.isbase(sp, p):
        return None
    return fs.path.combine(fs.path.abspath(fs.path.normpath(case["dst_path"])),
                           fs.path.frombase(sp, p))


def model_trace(case, res):
    """The observation of one run in the vocabulary of coq/Conc/Copier.v."""
    sizes = dict((p, sz) for p, sz in case["tree"]["files"])
    paths = res.src_opens
    if len(set(paths)) != len(paths) or any(p not in sizes for p in paths):
        return None
    f = case["fault"] if res.fired is not None else None     # armed but never reached = none
    if f is not None and f["side"] == "dst":
        hit = [p for p in paths if dst_of(case, p) == f["path"]]
        if len(hit) != 1:
            return None
        f = dict(f, path=hit[0])
    files = []
    chunk = case["chunk"]
    for idx, p in enumerate(paths):
        sz = sizes[p]
        k = 0 if sz == 0 else (1 if chunk is None else -(-sz // chunk))
        data = [False] * (2 * k + 1)        # read, write, read, write, ..., read (EOF)
        fcs = fcd = False
        if f is not None and f["path"] == p:
            if f["op"] == "read" and f["side"] == "src" and 2 * f["nth"] < len(data):
                data[2 * f["nth"]] = True
            elif f["op"] == "write" and f["side"] == "dst" and 2 * f["nth"] + 1 < len(data):
                data[2 * f["nth"] + 1] = True
            elif f["op"] == "close" and f["nth"] == 0:
                if f["side"] == "src":
                    fcs = True
                else:
                    fcd = True
        files.append((idx, data, fcs, fcd))
    failed = []
    if f is not None:
        if f["path"] not in paths:
            return None
        failed = [paths.index(f["path"])]
    return dict(N=res.n_threads, files=files, picks=res.picks, raised=res.exc is not None,
                failed=failed, nput=res.n_put,
                case=dict(function=case["function"], workers=case["workers"], tree=case["tree"],
                          chunk=chunk, fault=case["fault"], preserve_time=case["preserve_time"],
                          dst_pre=case["dst_pre"], copy_if_newer=case["copy_if_newer"],
                          src_path=case["src_path"], dst_path=case["dst_path"],
                          backend=case["backend"], thread_safe=case["thread_safe"], grain="io",
                          schedule=realized(res)))


def coq_bool(b):
    return "true" if b else "false"


def coq_list(items):
    return "[" + "; ".join(items) + "]"


def model_check(traces, tag="C09"):
    """Replay observed runs on the Gallina model inside Coq (vm_compute).
    Returns (number checked, list of (trace, code))."""
    import re
    import subprocess
    if not traces:
        return 0, []
    os.makedirs(common.WORK, exist_ok=True)
    vfile = os.path.join(common.WORK, "traces_%s_%d.v" % (tag, os.getpid()))
    rows = []
    for t in traces:
        files = coq_list(["mkFile %d %s %s %s" % (i, coq_list([coq_bool(b) for b in d]),
                                                    coq_bool(cs), coq_bool(cd))
                          for (i, d, cs, cd) in t["files"]])
        tr = coq_list(["(%d, %s)" % (tid, coq_list([str(e) for e in en]))
                       for (tid, en) in t["picks"]])
        rows.append("  check_trace %d %s %s %s %s %d" % (
            t["N"], files, tr, coq_bool(t["raised"]), coq_list([str(x) for x in t["failed"]]),
            t["nput"]))
    with open(vfile, "w") as fh:
        fh.write("From Coq Require Import List Arith Bool.\nImport ListNotations.\n"
                 "From PyFS Require Import Conc.Copier.\n")
        fh.write("Definition verdicts : list nat := [\n" + ";\n".join(rows) + "].\n")
        fh.write("Eval vm_compute in verdicts.\n")
    p = subprocess.run(["timeout", "600", "coqc", "-Q", common.COQ, "PyFS", vfile],
                       cwd=common.WORK, stdout=subprocess.PIPE, stderr=subprocess.STDOUT,
                       universal_newlines=True)
    for ext in (".vo", ".glob", ".vok", ".vos", ".v"):
        try:
            os.remove(vfile[:-2] + ext)
        except OSError:
            pass
    m = re.search(r"=\s*\[([^\]]*)\]", p.stdout.replace("\n", " "))
    if not m:
        return 0, [(None, "coqc failed: " + p.stdout[-1500:])]
    codes = [int(x.replace("%nat", "")) for x in m.group(1).split(";") if x.strip()]
    if len(codes) != len(traces):
        return 0, [(None, "coqc returned %d verdicts for %d traces" % (len(codes), len(traces)))]
    return len(codes), [(traces[i], codes[i]) for i in range(len(codes)) if codes[i] != 0]


def unit_dfs(unit):
    """One exhaustive / preemption bounded enumeration (possibly below a fixed root prefix)."""
    st = Stats()
    case, bound, cap, phase = unit["case"], unit["bound"], unit["cap"], unit["phase"]
    n = 0
    complete = False
    for res, complete in dfs(case, bound, cap, unit.get("root", ())):
        n += 1
        viol = judge(case, res)
        record(st, phase, case, res, viol)
        if len(st.violations) >= 3:
            break
    c = norm_case(case)
    st.dfs_cases.append(dict(function=c["function"], workers=c["workers"],
                             files=len(c["tree"]["files"]), fault=c["fault"], preserve_time=c["preserve_time"],
                             grain=c["grain"], preemption_bound=bound, schedules=n,
                             complete=complete, parts=unit.get("parts", 1), id=unit["id"]))
    return st


def unit_random(unit):
    st = Stats()
    rnd = random.Random(unit["seed"])
    thorough = unit["thorough"]
    for _ in range(unit["count"]):
        workers = rnd.choice([0, 1, 1, 2, 2, 3, 4, 4])
        fn = rnd.choice(["copy_fs", "copy_fs", "copy_dir", "mirror", "move_fs"])
        tree = random_tree(rnd, 12)
        chunk = rnd.choice([None, 1, 2, 4, 16])
        case = dict(function=fn, workers=workers, tree=tree, chunk=chunk,
                    preserve_time=rnd.random() < 0.35, grain=rnd.choice(["io", "io", "queue"]))
        if thorough and rnd.random() < 0.12:
            case["backend"] = "osfs"
        if fn == "copy_dir":
            case["src_path"] = rnd.choice(["/", "/d", "/d"])
            case["dst_path"] = rnd.choice(["/", "/t/u", "/t"])
            if case["src_path"] == "/d":
                case["tree"] = dict(tree, dirs=list(tree["dirs"]) + ["/d"])
        if fn == "mirror":
            case["copy_if_newer"] = rnd.random() < 0.6
            if rnd.random() < 0.6:
                case["dst_pre"] = random_pre(rnd, tree)
        if rnd.random() < 0.04:
            case["thread_safe"] = False
        if rnd.random() < 0.6:
            flt = random_fault(rnd, case["tree"], chunk)
            if flt is not None and flt["side"] == "dst":
                dp = dst_of(norm_case(case), flt["path"])
                if dp is not None:
                    flt = dict(flt, path=dp)
            case["fault"] = flt
        policy = rnd.choice(["uniform", "sticky", "sticky", "producer_first", "workers_first"])
        res = execute(case, [], policy, rnd)
        viol = judge(case, res)
        record(st, "random", case, res, viol)
        if len(st.violations) >= 3:
            break
    return st


def build_units(tier, seed):
    thorough = tier == "thorough"
    units = []

    def add_dfs(phase, case, bound, cap, split=False):
        uid = len(units)
        if split:
            # one DFS spread over several processes: fix the first choice points
            roots = dfs_roots(case, bound, 4)
            for r in roots:
                units.append(dict(kind="dfs", phase=phase, case=case, bound=bound, root=r,
                                  cap=cap, parts=len(roots), id=uid))
        else:
            units.append(dict(kind="dfs", phase=phase, case=case, bound=bound, cap=cap, id=uid))

    # phase 1: every schedule at queue granularity (put/get/task_done/join, thread join)
    cap1 = 80000 if thorough else 4200
    for ti, tree in enumerate(SMALL_TREES):
        nf = len(tree["files"])
        for n in (1, 2):
            if thorough:
                fns = ["copy_fs", "mirror", "move_fs"] if nf < 3 else \
                    ["copy_fs", "mirror" if ti == 6 else "move_fs"]
            else:
                fns = ["copy_fs", "mirror", "move_fs"] if ti == 3 else ["copy_fs"]
            for fn in fns:
                case = dict(function=fn, workers=n, tree=tree, chunk=SMALL_CHUNK, grain="queue",
                            preserve_time=(fn == "move_fs"))
                if fn == "mirror":
                    case["dst_pre"] = MIRROR_PRE
                add_dfs("exhaustive-queue", case, None, cap1 if nf < 3 or thorough else cap1 // 3,
                        split=(n == 2 and nf >= 2 and (thorough or nf == 2)))
            if nf:
                faults = all_faults(tree, SMALL_CHUNK)
                if not thorough:
                    rnd = random.Random(seed * 7919 + ti * 31 + n)
                    faults = rnd.sample(faults, min(3, len(faults)))
                for f in faults:
                    case = dict(function="copy_fs", workers=n, tree=tree, chunk=SMALL_CHUNK,
                                grain="queue", fault=f)
                    if thorough:
                        cap = 6000 if nf < 3 else 3000
                    else:
                        cap = 400
                    add_dfs("exhaustive-queue-fault", case, None, cap)
    # phase 2: io granularity (every open/read/write/close is a yield point),
    # all schedules with at most `bound` preemptions
    for ti, tree in enumerate(SMALL_TREES[1:], 1):
        nf = len(tree["files"])
        for n in (1, 2):
            if thorough:
                fns = ["copy_fs", "mirror", "move_fs"] if nf < 3 else ["copy_fs"]
                bound = 3 if nf < 3 or n == 1 else 2
                cap = 40000
            else:
                fns = ["copy_fs"]
                bound = 2 if nf < 2 or n == 1 else 1
                cap = 1200
            for fn in fns:
                case = dict(function=fn, workers=n, tree=tree, chunk=SMALL_CHUNK, grain="io",
                            preserve_time=(ti % 2 == 0))
                if fn == "mirror":
                    case["dst_pre"] = MIRROR_PRE
                add_dfs("bounded-io", case, bound, cap, split=(thorough and n == 2 and nf >= 2))
            faults = all_faults(tree, SMALL_CHUNK)
            if not thorough:
                rnd = random.Random(seed * 104729 + ti * 31 + n)
                faults = rnd.sample(faults, min(2, len(faults)))
            for f in faults:
                for fn in (["copy_fs", "move_fs"] if thorough and n == 2 and nf == 2
                           else ["copy_fs"]):
                    case = dict(function=fn, workers=n, tree=tree, chunk=SMALL_CHUNK,
                                grain="io", fault=f)
                    add_dfs("bounded-io-fault", case, (2 if nf < 3 else 1) if thorough else 1,
                            4500 if thorough else 150)
    # phase 3: random schedules, bigger cases
    total = 260000 if thorough else 20000
    per = 1000 if thorough else 400
    for i in range(total // per):
        units.append(dict(kind="random", seed=seed * 1000003 + i, count=per, thorough=thorough))
    return units


def run_unit(unit):
    try:
        if unit["kind"] == "dfs":
            return unit_dfs(unit)
        return unit_random(unit)
    except Exception as e:  # noqa -- harness problem: surface it, never hide it
        import traceback
        st = Stats()
        st.violations.append((unit.get("case", dict(unit=unit.get("kind"))), [],
                              ["harness-error: %r %s" % (e, traceback.format_exc()[-800:])]))
        return st


def explore(tier, seed, procs=None, budget_s=None):
    """Run the whole exploration; returns a merged Stats."""
    units = build_units(tier, seed)
    if procs is None:
        procs = min(12, os.cpu_count() or 1)
    if budget_s is None:
        budget_s = 520 if tier == "thorough" else 40
    total = Stats()
    t0 = time.time()
    skipped = 0
    if procs <= 1:
        for u in units:
            if time.time() - t0 > budget_s:
                skipped += 1
                continue
            total.merge(run_unit(u))
    else:
        import multiprocessing
        ctx = multiprocessing.get_context("fork")
        # the complete enumerations first (all parts of one case together), then the fault
        # enumerations and the random batches interleaved, so that a cut by the time budget
        # on a slow machine thins the sampled part instead of removing a phase
        first = [u for u in units if u.get("phase") in ("exhaustive-queue", "bounded-io")]
        rest = [u for u in units if u.get("phase") not in ("exhaustive-queue", "bounded-io")]
        rest = [rest[i] for i in sorted(range(len(rest)), key=lambda i: (i % 11, i))]
        units = first + rest
        pool = ctx.Pool(procs)
        try:
            it = pool.imap_unordered(run_unit, units, chunksize=1)
            done = 0
            for st in it:
                total.merge(st)
                done += 1
                if time.time() - t0 > budget_s:
                    skipped = len(units) - done
                    break
        finally:
            pool.terminate()
            pool.join()
    total.units = len(units)
    total.units_skipped = skipped
    total.wall = time.time() - t0
    return total


# --------------------------------------------------------------------------- shrinking

def fails(case, schedule, kinds):
    res = execute(case, schedule)
    got = judge(case, res)
    names = [k for k, _d in got]
    return (any(k in names for k in kinds), res, got)


def shrink(case, schedule, kinds, budget=150):
    """Fewer files, fewer workers, simpler options, shorter schedule."""
    case = norm_case(case)
    best = (case, list(schedule))
    spent = [0]

    def attempt(c, s):
        if spent[0] >= budget:
            return False
        spent[0] += 1
        try:
            ok, _res, _got = fails(c, s, kinds)
        except Exception:  # noqa
            return False
        return ok

    progress = True
    while progress and spent[0] < budget:
        progress = False
        c, s = best
        # fewer files (keep the faulted one)
        for i in range(len(c["tree"]["files"]) - 1, -1, -1):
            p = c["tree"]["files"][i][0]
            if c["fault"] is not None and c["fault"]["path"] == p:
                continue
            t2 = dict(c["tree"], files=c["tree"]["files"][:i] + c["tree"]["files"][i + 1:])
            c2 = dict(c, tree=t2)
            for s2 in (s, []):
                if attempt(c2, s2):
                    best = (c2, s2)
                    progress = True
                    break
            if progress:
                break
        if progress:
            continue
        for key, val in (("dirs", []),):
            if c["tree"].get(key):
                c2 = dict(c, tree=dict(c["tree"], dirs=val))
                if attempt(c2, s):
                    best = (c2, s)
                    progress = True
        if progress:
            continue
        if c["workers"] > 1:
            c2 = dict(c, workers=c["workers"] - 1)
            for s2 in (s, []):
                if attempt(c2, s2):
                    best = (c2, s2)
                    progress = True
                    break
        if progress:
            continue
        for key, val in (("fault", None), ("preserve_time", False), ("dst_pre", None),
                         ("backend", "memory"), ("chunk", None), ("grain", "queue")):
            if c[key] != val:
                c2 = dict(c, **{key: val})
                for s2 in (s, []):
                    if attempt(c2, s2):
                        best = (c2, s2)
                        progress = True
                        break
            if progress:
                break
        if progress:
            continue
        # shorter schedule: drop the tail (default = no preemption), then zero single entries
        if s:
            for cut in (0, len(s) // 2, len(s) - 1):
                if cut < len(s) and attempt(c, s[:cut]):
                    best = (c, s[:cut])
                    progress = True
                    break
        if progress:
            continue
        for i in range(len(s)):
            if s[i] != 0:
                s2 = s[:i] + [0] + s[i + 1:]
                if attempt(c, s2):
                    best = (c, s2)
                    progress = True
                    break
    c, s = best
    while s and s[-1] == 0:
        s = s[:-1]
    return c, s


def describe(case, schedule):
    ok, res, got = fails(case, schedule, [])
    return dict(
        outcome=res.status if res.exc is None else "raise:%r" % (res.exc,),
        checks_failed=[dict(kind=k, **d) for k, d in got],
        threads_started=res.n_threads, thread_trace=res.tids[:200],
        files_opened=res.n_files, unclosed=res.unclosed, workers_alive_at_return=res.alive,
        deadlock=res.deadlock, timeout=res.timeout,
        fault_fired=None if res.fired is None else dict(thread=res.fired["tid"],
                                                        exception=repr(res.fired["exc"])),
        destination=None if res.dst_after is None else show_snapshot(res.dst_after))


def signature(case, kinds):
    c = norm_case(case)
    return "%s workers=%s %s" % (c["function"], "0" if c["workers"] == 0 else "N",
                                 "+".join(sorted(kinds)))


# --------------------------------------------------------------------------- entry points

RULE = ("cases = (function in copy_fs/copy_dir/mirror/move_fs, workers 0..4, tree, chunk size, "
        "preserve_time, fault plan, schedule). Phase 'exhaustive-queue': every schedule (stateless "
        "DFS over all choice points, queue/thread-join granularity) for 7 trees of <= 3 files, "
        "workers 1..2, with no fault and with a fault in a read/write/close/open of a file; "
        "phase 'bounded-io': every schedule with <= k preemptions where each open/read/write/close "
        "of every tracked file is a yield point as well (<= 2 chunks per file); phase 'random': "
        "random trees of <= 12 files (empty tree, only empty files, nested directories, more files "
        "than queue slots), workers 0..4, 60% with a fault in a random read/write/close/open "
        "(30% of them in the last file), four schedule policies (uniform, sticky, producer first, "
        "workers first), MemoryFS (and OSFS in a temp dir in the thorough tier). A case is counted "
        "as non-trivial when at least one worker thread was started, at least one tracked file was "
        "closed by a worker thread and the run had at least one scheduling choice; it is distinct "
        "by (case parameters, exact sequence of thread ids executed). A sample of the io-granularity "
        "runs is replayed action by action on the Gallina model (Conc/Copier.v check_trace, "
        "vm_compute in Coq): same enabled set before every action, same final verdict "
        "(raised, failed transfers, number of puts, all handles closed, workers stopped).")

ASSUMPTIONS = [
    "CPython GIL: list.append in Copier.add_error and the attribute reads of Copier are atomic; "
    "context switches are only explored at the model's atomic actions (queue put/get/task_done/"
    "join, thread join, open/read/write/close of a file object)",
    "fs._bulk.Queue (six.moves.queue.Queue) and threading.Thread implement the blocking "
    "semantics of the guards used by the scheduler shim (put blocks iff full, get iff empty, "
    "join iff unfinished tasks, Thread.join iff alive)",
    "file operations of different tasks commute (each task owns its two file objects), which is "
    "what makes the queue-granularity enumeration exhaustive for the destination tree",
    "injected faults are Exception subclasses (OSError, fs.errors.OperationFailed); a "
    "BaseException raised inside a worker is outside the property",
]


def report_violations(report, st):
    seen = set()
    n = 0
    for case, schedule, kinds in st.violations:
        if kinds and kinds[0].startswith("harness-error"):
            report.violation(dict(kind="harness-error", what=kinds[0], case=case), no_input=True)
            continue
        sig = signature(case, kinds)
        if sig in seen:
            continue
        seen.add(sig)
        known = report.known_match(sig)
        c2, s2 = shrink(case, schedule, kinds)
        obs = describe(c2, s2)
        if known is not None:
            report.known_finding(known, dict(case=c2, schedule=s2, observed=obs))
            continue
        n += 1
        if n > 8:
            break
        payload = dict(c2)
        payload.update(kind="+".join(sorted(kinds)), schedule=s2, observed=obs,
                       signature=sig, theorem=THEOREM, original_case=case,
                       original_schedule=schedule)
        report.violation(payload)


def merge_dfs(dfs_cases):
    by = {}
    for d in dfs_cases:
        e = by.setdefault(d["id"], dict(d, schedules=0, complete=True, seen=0))
        e["schedules"] += d["schedules"]
        e["complete"] = e["complete"] and d["complete"]
        e["seen"] += 1
    out = []
    for e in by.values():
        e["complete"] = e["complete"] and e["seen"] == e["parts"]
        del e["seen"], e["id"]
        out.append(e)
    return out


def pick_samples(samples):
    out = []
    per = collections.Counter()
    for smp in sorted(samples, key=lambda x: (-x["workers"], -len(x["tree"]["files"]))):
        if per[smp["phase"]] < 2:
            per[smp["phase"]] += 1
            out.append(smp)
    return out[:8]


def coverage(st, tier):
    dfs_cases = merge_dfs(st.dfs_cases)
    done = [d for d in dfs_cases if d["complete"]]
    return dict(
        evaluations=st.evaluations, distinct_nontrivial=len(st.distinct), rule=RULE,
        samples=pick_samples(st.samples),
        schedules_explored=st.evaluations,
        deadlocks=st.deadlocks, timeouts=st.timeouts,
        dfs_cases=len(dfs_cases), dfs_cases_exhausted=len(done),
        dfs_cases_capped=len(dfs_cases) - len(done),
        dfs_schedules_in_exhausted_cases=sum(d["schedules"] for d in done),
        dfs_largest_exhausted=sorted(done, key=lambda d: -d["schedules"])[:6],
        dfs_largest_capped=sorted([d for d in dfs_cases if not d["complete"]],
                                  key=lambda d: -d["schedules"])[:4],
        traces_replayed_on_model=getattr(st, "model_checked", 0),
        traces_validated_against_impl=getattr(st, "model_checked", 0)
        - getattr(st, "model_mismatches", 0),
        model_mismatches=getattr(st, "model_mismatches", 0),
        informational=dict(
            producer_open_error_replaced_by_another_exception=st.producer_error_replaced,
            example=st.producer_error_replaced_example,
            note="workers > 0 and preserve_time=True: when openbin fails in the producer, "
                 "Copier.stop() calls copy_modified_time for the task that was never opened and "
                 "the ResourceNotFound it raises replaces the original error (the call still "
                 "raises, workers are joined, files are closed: not a C09 violation)"),
        max_choice_points_in_a_run=st.max_choice_points,
        units=getattr(st, "units", None),
        units_skipped_by_time_budget=getattr(st, "units_skipped", 0),
        explore_wall_s=round(getattr(st, "wall", 0.0), 1),
        distribution=dict(workers=dict(st.by_workers), function=dict(st.by_function),
                          fault=dict(st.by_fault), phase=dict(st.by_phase),
                          backend=dict(st.by_backend), outcome=dict(st.outcomes),
                          fault_fired_in_worker=st.fault_fired_in_worker,
                          fault_fired_in_producer=st.fault_fired_in_producer,
                          fault_in_last_task=st.fault_in_last_task,
                          runs_where_producer_blocked_on_full_queue=st.producer_blocked_runs,
                          runs_where_a_worker_waited_on_empty_queue=st.worker_waited_runs,
                          runs_with_more_files_than_queue_slots=st.more_files_than_slots_runs,
                          runs_on_empty_tree=st.empty_tree_runs,
                          runs_with_empty_files=st.empty_file_runs),
        exhaustive=False,
        exhaustive_scope="all schedules of the small cases whose DFS completed "
                         "(dfs_cases_exhausted: queue granularity = every schedule, io granularity "
                         "= every schedule within the preemption bound); everything else is sampled")


def check_model(report, st, limit):
    """Replay a sample of the observed runs on the Coq model; a disagreement without any
    violation of the property itself means that the model does not describe /repo."""
    rnd = random.Random(report.seed + 17)
    traces = list(st.traces)
    if len(traces) > limit:
        traces = rnd.sample(traces, limit)
    n, bad = model_check(traces)
    st.model_checked = n
    st.model_mismatches = len(bad)
    if bad and not st.violations:
        t, code = bad[0]
        meaning = {1: "enabled sets differ before some action (guards / control flow)",
                   2: "model not final at the end of the observed trace",
                   3: "raised differs", 4: "set of failed transfers differs",
                   5: "number of queue.put differs", 6: "model: unclosed handle / live worker"}
        payload = dict(kind="correspondence-broken",
                       correspondence="fs._bulk.Copier under the scheduler vs Conc/Copier.v "
                                      "(check_trace, vm_compute)",
                       code=code, meaning=meaning.get(code, str(code)), theorem=THEOREM,
                       mismatches=len(bad), traces_checked=n)
        if t is not None:
            payload.update(t["case"])
            payload["model_files"] = t["files"]
            payload["observed_picks"] = t["picks"][:400]
        report.violation(payload, no_input=True)
    return n, bad


def samefs_cases(report):
    """copy_dir / copy_fs / mirror where source and destination are the SAME filesystem object (real threads, no
    scheduler): for every worker count the outcome class and the resulting tree must equal the workers=0 run.
    Destinations: disjoint, inside the source, and equivalent spellings of the source itself."""
    import shutil
    import tempfile
    import fs.copy
    import fs.mirror
    from fs.memoryfs import MemoryFS
    from fs.osfs import OSFS
    n = 0
    bad = []
    dsts = ["/other", "/folder", "/x/../folder", "./folder", "folder/sub/..", "/folder/", "/folder/sub/new", "/folder/sub"]
    for kind in ("mem", "os"):
        for dst in dsts:
            for fn in ("copy_dir", "copy_dir_if"):
                outs = {}
                for w in (0, 1, 2, 4):
                    tmp = tempfile.mkdtemp(prefix="pyfs2verif_c09_") if kind == "os" else None
                    f = OSFS(tmp) if tmp else MemoryFS()
                    try:
                        f.makedirs("/folder/sub")
                        f.makedirs("/x")
                        for i in range(5):
                            f.writebytes("/folder/f%d" % i, b"data-%d" % i * (i + 1))
                        f.writebytes("/folder/sub/g", b"gg")
                        f.writebytes("/folder/empty", b"")
                        try:
                            if fn == "copy_dir":
                                fs.copy.copy_dir(f, "/folder", f, dst, workers=w)
                            else:
                                fs.copy.copy_dir_if(f, "/folder", f, dst, "always", workers=w)
                            out = "ok"
                        except Exception as e:  # noqa
                            out = common.exc_name(e)
                        tree = sorted((p, f.readbytes(p)) for p in f.walk.files("/", max_depth=6))
                        if len(tree) > 200:
                            tree = "runaway (%d files)" % len(tree)
                        outs[w] = (out, tree)
                    finally:
                        f.close()
                        if tmp:
                            shutil.rmtree(tmp, ignore_errors=True)
                    n += 1
                for w in (1, 2, 4):
                    if outs[w] != outs[0]:
                        bad.append(dict(backend=kind, function=fn, src_path="/folder", dst_path=dst, workers=w,
                                        sequential=repr(outs[0])[:600], parallel=repr(outs[w])[:600]))
                        break
    seen = set()
    for b in bad:
        sig = "same-fs %s workers differ from sequential [%s] dst=%s" % (b["function"], b["backend"], b["dst_path"])
        known = report.known_match(sig)
        if known:
            report.known_finding(known, b)
            continue
        if (b["function"], b["backend"]) in seen:
            continue
        seen.add((b["function"], b["backend"]))
        report.violation(dict(kind="parallel-differs-from-sequential (same filesystem object)", signature=sig,
                              theorem=THEOREM, **b))
    return dict(samefs_runs=n, samefs_divergences=len(bad))


COMPOSITE_TREES = [
    dict(dirs=["/d/e"], files=[["/a", 0], ["/d/b", 6], ["/d/e/c", 3]]),
    dict(dirs=["/e"], files=[["/a", 6], ["/d/b", 2]]),
    dict(dirs=["/d"], files=[["/f%d" % i, (i * 5) % 13] for i in range(6)] +
         [["/d/g%d" % i, i] for i in range(5)]),           # more files than queue slots
    dict(dirs=["/d"], files=[]),
]


def composite_cases(report):
    """The single-threaded fallback through every composite / wrapper kind (see the module docstring): for every
    kind x wrapped side x member declaration (False / nothing / True) x function x workers > 0, under scheduler
    controlled threads with a random schedule.  judge() checks: worker threads exactly when the documented rule
    allows them, otherwise every file operation on the calling thread; tree and outcome equal to the workers=0 run
    of the same configuration; files closed; workers joined."""
    thorough = report.tier == "thorough"
    rnd = random.Random(report.seed * 7907 + 23)
    runs = 0
    by_kind = collections.Counter()
    by_decl = collections.Counter()
    fallback_runs = threaded_runs = 0
    outcomes = collections.Counter()
    files_copied = 0
    viols = []
    for kind in WRAP_KINDS:
        sides = ("src",) if kind == "read_only" else ("src", "dst", "both")
        for side in sides:
            for decl in (False, None, True):
                for fn in ("copy_fs", "copy_dir", "mirror", "move_fs"):
                    for workers in ((1, 2, 4) if thorough else (rnd.choice([1, 2]), 4)):
                        for rep in range(3 if thorough else 1):
                            tree = rnd.choice(COMPOSITE_TREES[:3]) if rnd.random() < 0.9 else COMPOSITE_TREES[3]
                            case = dict(function=fn, workers=workers, tree=tree, chunk=rnd.choice([None, 2, 4]),
                                        grain=rnd.choice(["io", "queue"]), preserve_time=rnd.random() < 0.3,
                                        thread_safe=decl, wrap=kind, wrap_side=side)
                            if thorough and rnd.random() < 0.15:
                                case["backend"] = "osfs"
                            if fn == "copy_dir":
                                case["src_path"], case["dst_path"] = rnd.choice([("/", "/t"), ("/d", "/t/u"), ("/d", "/")])
                            if fn == "mirror":
                                case["copy_if_newer"] = rnd.random() < 0.5
                                if rnd.random() < 0.5:
                                    case["dst_pre"] = random_pre(rnd, tree)
                            policy = rnd.choice(["uniform", "sticky", "producer_first", "workers_first"])
                            res = execute(case, [], policy, rnd)
                            got = judge(case, res)
                            runs += 1
                            by_kind[kind] += 1
                            by_decl[repr(decl)] += 1
                            outcomes[res.status if res.exc is None else "raise:" + type(res.exc).__name__] += 1
                            files_copied += res.n_files // 2
                            if res.n_threads:
                                threaded_runs += 1
                            else:
                                fallback_runs += 1
                            if got:
                                viols.append((case, realized(res), [k for k, _d in got]))
    seen = set()
    pending = {}
    for case, schedule, kinds in viols:
        sig = "composite[%s] %s" % (case["wrap"], signature(case, kinds))
        if sig in seen:
            continue
        seen.add(sig)
        known = report.known_match(sig)
        if known is None and sig in PENDING_FINDINGS:
            pending[sig] = dict(case=case, schedule=schedule)
            continue
        obs = describe(case, schedule)
        if known is not None:
            report.known_finding(known, dict(case=case, schedule=schedule, observed=obs))
            continue
        if len(seen) > 8:
            continue
        payload = dict(norm_case(case))
        payload.update(kind="+".join(sorted(kinds)), schedule=schedule, observed=obs, signature=sig,
                       theorem=THEOREM,
                       rule="fs.tools.is_thread_safe: worker threads only when all filesystems report thread_safe True")
        report.violation(payload)
    return dict(composite_runs=runs, composite_runs_by_wrapper=dict(by_kind),
                composite_runs_by_member_declaration=dict(by_decl),
                composite_runs_single_threaded=fallback_runs, composite_runs_with_worker_threads=threaded_runs,
                composite_outcomes=dict(outcomes), composite_file_transfers=files_copied,
                composite_divergences=len(viols), pending_findings=pending)


def run(report):
    proof = common.preflight(report)
    st = explore(report.tier, report.seed)
    check_model(report, st, 3000 if report.tier == "thorough" else 500)
    report_violations(report, st)
    cov = coverage(st, report.tier)
    cov.update(samefs_cases(report))
    cov.update(composite_cases(report))
    return report.finish(proof, cov, assumptions=ASSUMPTIONS)


def replay(report, path):
    with open(path) as fh:
        data = json.load(fh)
    if "function" not in data:
        print("replay: no concrete case stored in", path)
        return 0
    case = dict((k, data[k]) for k in norm_case({}) if k in data)
    schedule = data.get("schedule", [])
    res = execute(case, schedule)
    got = judge(case, res)
    if data.get("kind") == "correspondence-broken":
        tr = model_trace(norm_case(case), res)
        n, bad = model_check([tr] if tr is not None else [], "replay")
        print("replay (model vs implementation) %s workers=%s: %d trace replayed on "
              "Conc/Copier.v, %d mismatch%s" % (case.get("function"), case.get("workers"), n,
                                                len(bad), "" if not bad else " code %s" % bad[0][1]))
        return 1 if (bad or got) else 0
    print("replay %s workers=%s files=%d fault=%s schedule=%s" % (
        case.get("function"), case.get("workers"), len(case.get("tree", {}).get("files", [])),
        case.get("fault"), schedule))
    print("  outcome:", res.status if res.exc is None else "raise %r" % (res.exc,))
    print("  thread trace:", res.tids[:120])
    for k, d in got:
        print("  FAILED CHECK:", k, json.dumps(d, default=str)[:600])
    if not got:
        print("  all checks pass")
    return 1 if got else 0
