"""C15, tree level: the real archive writers / readers against the Coq model Archive/TreeArch.v.

(a) WRITE.  Generated trees (unicode names, empty directories, empty files, nesting, many siblings) are
    written with the real fs.compress.write_zip / write_tar and with write-mode ZipFS / TarFS (temp_fs
    mem:// and the default TempFS).  The member list is read back with the standard zipfile / tarfile
    modules (name, is_dir, bytes, stored time, ORDER) and must EQUAL the model's zip_members /
    tar_members of the source tree (snapshot of the source in listing order).
(b) READ.   Generated ARBITRARY member lists (mostly valid, plus a malformed stream: duplicates, implicit
    directories, '..', absolute, './x', 'a//b', trailing slashes on files, file/directory clashes) are
    stored with zipfile / tarfile directly; the member list those modules report back is the model's
    input; the archive is opened with the real ReadZipFS / ReadTarFS and the presented tree (first-query
    outcome, listdir / isdir / readbytes / getinfo(details).modified recursively, and for tar the keys
    that exist but cannot be listed) must EQUAL the model's zip_read / tar_read.

The container formats stay external (trusted, exercised here): the model starts from the member list.
Theorems: Archive/TreeArchProofs.v (zip_roundtrip, tar_roundtrip, read_confined, ...).
"""
from __future__ import print_function

import calendar
import io
import json
import os
import random
import re
import sys
import tarfile
import time
import warnings
import zipfile

import common
from common import tok, tokb, r_str, r_bytes, r_bool, exc_name

MT_BASE = 1000000000
THEOREM = "Archive/TreeArchProofs.v"
MAX_REPLAYS = 8

SIG_CLIMB = "crafted zip: listing or walking / raises err:IllegalBackReference [climbs-above-root]"
SIG_CLASH = "crafted zip: listing or walking / raises err:DirectoryExpected [conflicting-entries]"
SIG_KEYERROR = "crafted zip: crash:KeyError [non-normalised]"


# --------------------------------------------------------------------------- trees
# node = ["D", mt, [(name, node), ...]] | ["F", mt, bytes]

NAMES = [u"a", u"b", u"ab", u"abc", u"a b", u" x", u"x ", u"é", u"é", u"日本", u"-x", u"..x",
         u"...", u"a\\b", u"~", u"a\nb", u".h", u"A", u"\U0001f600", u"x.y", u"*", u"a:b", u"\t", u"c", u"d",
         u"ß", u"İ", u"ab.", u"-", u"@", u"#1", u"%41", u"{}", u"a'b", u'q"r']


def gen_mtime(rnd):
    return MT_BASE + rnd.randrange(0, 300000000)


def gen_data(rnd):
    k = rnd.random()
    if k < 0.2:
        return b""
    if k < 0.9:
        return bytes(bytearray(rnd.randrange(256) for _ in range(rnd.randrange(1, 12))))
    return bytes(bytearray(rnd.randrange(256) for _ in range(rnd.randrange(200, 900))))


def gen_names(rnd, n):
    out = []
    pool = list(NAMES)
    rnd.shuffle(pool)
    while len(out) < n:
        if pool and rnd.random() < 0.8:
            c = pool.pop()
        else:
            c = u"n%d" % rnd.randrange(1000)
        if c not in out:
            out.append(c)
    return out


def gen_tree(rnd, budget, depth=0, maxdepth=6, wide=False):
    """Returns a directory node with at most `budget` descendants."""
    if wide and depth == 0:
        n = min(budget, rnd.randrange(20, 45))
    else:
        n = min(budget, rnd.choice([0, 1, 1, 2, 2, 3, 4, 6]))
    ents = []
    left = budget - n
    for name in gen_names(rnd, n):
        if depth < maxdepth and rnd.random() < (0.45 if depth < 2 else 0.35):
            sub_budget = rnd.randrange(0, left + 1) if left > 0 else 0
            left -= sub_budget
            ents.append((name, gen_tree(rnd, sub_budget, depth + 1, maxdepth)))
        else:
            ents.append((name, ["F", gen_mtime(rnd), gen_data(rnd)]))
    return ["D", gen_mtime(rnd), ents]


def chain_tree(rnd, depth):
    node = ["D", gen_mtime(rnd), [(u"leaf", ["F", gen_mtime(rnd), b"x"])] if rnd.random() < 0.5 else []]
    for i in range(depth):
        ents = [(rnd.choice(NAMES), node)]
        if rnd.random() < 0.5:
            ents.insert(rnd.randrange(2), (u"s%d" % i, ["F", gen_mtime(rnd), b""]))
        node = ["D", gen_mtime(rnd), ents]
    return node


def count_nodes(t):
    return 1 + (sum(count_nodes(c) for _n, c in t[2]) if t[0] == "D" else 0)


def tree_tokens(t, times=True):
    out = []

    def go(n):
        mt = str(n[1]) if (times and n[1] is not None) else "-"
        if n[0] == "F":
            out.extend(["1", mt, tokb(n[2])])
        else:
            out.extend(["2", mt, str(len(n[2]))])
            for name, c in n[2]:
                out.append(tok(name))
                go(c)
    go(t)
    return out


def build_into(fs, t, base=u"/"):
    """Create the tree through the FS API, entries in order; times afterwards (children first)."""
    for name, c in t[2]:
        p = base.rstrip(u"/") + u"/" + name
        if c[0] == "D":
            fs.makedir(p)
            build_into(fs, c, p)
        else:
            fs.writebytes(p, c[2])
    for name, c in t[2]:
        p = base.rstrip(u"/") + u"/" + name
        if c[1] is not None:
            fs.setinfo(p, {"details": {"modified": c[1]}})


def snapshot_source(fs, base=u"/", times=True):
    """The source tree as the walker will see it: listing order of the filesystem itself."""
    ents = []
    for name in fs.listdir(base):
        p = base.rstrip(u"/") + u"/" + name
        mt = None
        if times:
            m = fs.getinfo(p, ["details"]).raw.get("details", {}).get("modified")
            mt = None if m is None else int(m)
        if fs.isdir(p):
            sub = snapshot_source(fs, p, times)
            ents.append((name, ["D", mt, sub[2]]))
        else:
            ents.append((name, ["F", mt, fs.readbytes(p)]))
    return ["D", None, ents]


# --------------------------------------------------------------------------- members

def r_member(m, times=True):
    name, is_dir, data, mt = m
    return "(" + r_str(name) + "|" + r_bool(is_dir) + "|" + r_bytes(data) + "|i" + (str(mt) if times else "0") + ")"


def r_members(ms, times=True):
    return "[" + ";".join(r_member(m, times) for m in ms) + "]"


_TIME = re.compile(r"\|i-?\d+\)")


def strip_times(rendered):
    return _TIME.sub("|i0)", rendered)


def member_tokens(ms):
    out = []
    for name, is_dir, data, mt in ms:
        out.extend([tok(name), "1" if is_dir else "0", tokb(data), str(int(mt))])
    return out


def read_zip_members(blob):
    with zipfile.ZipFile(io.BytesIO(blob)) as z:
        return [(i.filename, i.is_dir(), z.read(i), calendar.timegm(tuple(i.date_time) + (0, 0, 0)))
                for i in z.infolist()]


def read_tar_members(blob):
    out = []
    with tarfile.open(fileobj=io.BytesIO(blob), mode="r") as z:
        for i in z:
            data = z.extractfile(i).read() if i.isfile() else b""
            out.append((i.name, i.isdir(), data, int(i.mtime)))
    return out


def make_zip(ms):
    b = io.BytesIO()
    with warnings.catch_warnings():
        warnings.simplefilter("ignore")
        with zipfile.ZipFile(b, "w") as z:
            for name, _is_dir, data, mt in ms:
                z.writestr(zipfile.ZipInfo(name, time.gmtime(mt)[:6]), data)
    return b.getvalue()


def make_tar(ms):
    b = io.BytesIO()
    with tarfile.open(fileobj=b, mode="w") as z:
        for name, is_dir, data, mt in ms:
            ti = tarfile.TarInfo(name)
            ti.mtime = mt
            if is_dir:
                ti.type = tarfile.DIRTYPE
                z.addfile(ti)
            else:
                ti.size = len(data)
                z.addfile(ti, io.BytesIO(data))
    return b.getvalue()


# --------------------------------------------------------------------------- (a) write

ROUTES = ("compress", "writefs-mem", "writefs-temp")
ZIP_COMP = (zipfile.ZIP_STORED, zipfile.ZIP_DEFLATED)
TAR_COMP = (None, "gz", "bz2", "xz")


def write_case(case):
    """case: dict(fmt, route, comp, tree).  Returns (source snapshot, times compared?, real member list)."""
    from fs.memoryfs import MemoryFS
    from fs.compress import write_zip, write_tar
    from fs.zipfs import ZipFS
    from fs.tarfs import TarFS
    fmt, route, comp, tree = case["fmt"], case["route"], case["comp"], case["tree"]
    buf = io.BytesIO()
    times = route != "writefs-temp"      # stat sources: local time / float truncation, covered by h_archive
    if route == "compress":
        src = MemoryFS()
        build_into(src, tree)
        snap = snapshot_source(src, times=times)
        if fmt == "zip":
            write_zip(src, buf, compression=ZIP_COMP[comp % 2])
        else:
            write_tar(src, buf, compression=TAR_COMP[comp % 4])
        src.close()
    else:
        kw = {} if route == "writefs-temp" else {"temp_fs": "mem://"}
        if fmt == "zip":
            w = ZipFS(buf, write=True, compression=ZIP_COMP[comp % 2], **kw)
        else:
            w = TarFS(buf, write=True, compression=TAR_COMP[comp % 4], **kw)
        try:
            build_into(w, tree)
            snap = snapshot_source(w, times=times)
        finally:
            w.close()
    blob = buf.getvalue()
    real = read_zip_members(blob) if fmt == "zip" else read_tar_members(blob)
    return snap, times, real


def write_line(fmt, snap, times):
    return " ".join(["treearch", fmt + "_members"] + tree_tokens(snap, times))


def eval_write(case, model_out=None):
    snap, times, real = write_case(case)
    line = write_line(case["fmt"], snap, times)
    if model_out is None:
        model_out = common.run_model([line])[0]
    real_r = r_members(real, times)
    model_r = model_out if times else strip_times(model_out)
    return dict(same=(real_r == model_r), real=real_r, model=model_r, line=line, snap=snap)


# --------------------------------------------------------------------------- (b) read

COMPS_BAD = [u"a", u"b", u"ab", u"c", u".", u"..", u"", u"a", u"b", u"x y", u"é", u"a.b", u"..."]
COMPS_OK = [u"a", u"b", u"ab", u"c", u"abc", u"é", u"x y", u"a.b"]


def gen_bad_name(rnd):
    pool = COMPS_BAD if rnd.random() < 0.6 else COMPS_OK
    s = u"/".join(rnd.choice(pool) for _ in range(rnd.choice([1, 1, 2, 2, 3, 4])))
    k = rnd.random()
    if k < 0.12:
        s = u"/" + s
    elif k < 0.22:
        s = u"./" + s
    elif k < 0.27:
        s = u"../" + s
    return s


def members_of_tree(t, pre=u""):
    """(name, is_dir, data, mt) of every resource, parents first (depth first)."""
    out = []
    for name, c in t[2]:
        p = pre + name
        if c[0] == "D":
            out.append((p, True, b"", c[1]))
            out.extend(members_of_tree(c, p + u"/"))
        else:
            out.append((p, False, c[2], c[1]))
    return out


def gen_members(rnd, fmt, malformed):
    ms = []
    if not malformed:
        # a valid tree, then perturbed: dropped directory members (implicit directories), shuffled order,
        # duplicates with other contents
        t = gen_tree(rnd, rnd.choice([3, 6, 10, 16]), maxdepth=4)
        base = members_of_tree(t)
        k = rnd.random()
        for m in base:
            if m[1] and k < 0.5 and rnd.random() < 0.6:
                continue
            ms.append(m)
        if rnd.random() < 0.4:
            rnd.shuffle(ms)
        if ms and rnd.random() < 0.5:
            for _ in range(rnd.choice([1, 2])):
                name, is_dir, _d, _t = rnd.choice(ms)
                ms.insert(rnd.randrange(len(ms) + 1), (name, is_dir, b"" if is_dir else gen_data(rnd), gen_mtime(rnd)))
    else:
        for i in range(rnd.choice([1, 2, 3, 4, 5, 6, 8])):
            nm = gen_bad_name(rnd)
            is_dir = rnd.random() < 0.4
            if ms and rnd.random() < 0.2:
                nm = rnd.choice(ms)[0].rstrip(u"/")           # clash / duplicate
                if rnd.random() < 0.5:
                    nm = nm + u"/" + rnd.choice(COMPS_OK)      # below an existing member
            ms.append((nm, is_dir, b"" if is_dir else gen_data(rnd), gen_mtime(rnd)))
    out = []
    for name, is_dir, data, mt in ms:
        if fmt == "zip":
            if is_dir and not name.endswith(u"/"):
                name += u"/"
            is_dir = name.endswith(u"/")
            if is_dir:
                data = b""
        else:
            if not name.strip(u"/") or name in (u".", u"./"):
                name = name + u"x"        # tarfile cannot carry an empty name
            if malformed and rnd.random() < 0.1:
                name += u"/"               # trailing slash on a regular file, too
        out.append((name, is_dir, data, mt))
    return out


def resolve(raw):
    st = []
    for c in raw.split(u"/"):
        if c in (u"", u"."):
            continue
        if c == u"..":
            if not st:
                return None
            st.pop()
        else:
            st.append(c)
    return st


def r_mt(mt):
    return "N" if mt is None else "Si%d" % int(mt)


def snap_real(ro, path, seen):
    parts = []
    for n in ro.listdir(path):
        q = path.rstrip(u"/") + u"/" + n
        seen.add(q)
        try:
            m = ro.getinfo(q, ["details"]).raw.get("details", {}).get("modified")
            mt = r_mt(m)
        except Exception as e:  # noqa
            mt = "!" + exc_name(e)
        if ro.isdir(q):
            parts.append(r_str(n) + ":D@" + mt + "{" + snap_real(ro, q, seen) + "}")
        else:
            try:
                d = "ok:" + r_bytes(ro.readbytes(q))
            except Exception as e:  # noqa
                d = exc_name(e)
            parts.append(r_str(n) + ":F" + d + "@" + mt)
    return ";".join(parts)


def read_real(fmt, blob, back):
    """What the real read-only filesystem presents, rendered like Run/RunTreeArch.v does."""
    from fs.zipfs import ReadZipFS
    from fs.tarfs import ReadTarFS
    try:
        ro = (ReadZipFS if fmt == "zip" else ReadTarFS)(io.BytesIO(blob))
    except Exception as e:  # noqa
        return "ctor:" + exc_name(e)
    try:
        first = "ok:U"
        try:
            ro.listdir(u"/")
        except Exception as e:  # noqa
            first = exc_name(e)
        seen = set()
        try:
            tree = "D@N{" + snap_real(ro, u"/", seen) + "}"
        except Exception as e:  # noqa
            tree = "!snapshot:" + exc_name(e)
        if fmt == "zip":
            return first + "#" + tree
        if first != "ok:U":
            return "!first:" + first + "#" + tree
        hidden = []
        for name, _d, _b, _t in back:
            cs = resolve(name)
            if not cs:
                continue
            k = u"/".join(cs)
            if k in hidden or (u"/" + k) in seen:
                continue
            try:
                if ro.exists(k):
                    hidden.append(k)
            except Exception as e:  # noqa
                hidden.append(u"!" + exc_name(e))
        return tree + "#[" + ";".join(r_str(h) for h in hidden) + "]"
    finally:
        try:
            ro.close()
        except Exception:  # noqa
            pass


def read_case(case):
    fmt, ms = case["fmt"], [tuple(m) for m in case["members"]]
    ms = [(m[0], bool(m[1]), m[2] if isinstance(m[2], bytes) else bytes(bytearray(m[2])), int(m[3])) for m in ms]
    blob = make_zip(ms) if fmt == "zip" else make_tar(ms)
    back = read_zip_members(blob) if fmt == "zip" else read_tar_members(blob)
    return back, read_real(fmt, blob, back)


def read_line(fmt, back):
    return " ".join(["treearch", fmt + "_read"] + member_tokens(back))


def eval_read(case, model_out=None):
    back, real = read_case(case)
    line = read_line(case["fmt"], back)
    if model_out is None:
        model_out = common.run_model([line])[0]
    return dict(same=(real == model_out), real=real, model=model_out, line=line, back=back)


def jsonable_members(ms):
    return [[m[0], bool(m[1]), list(bytearray(m[2])), int(m[3])] for m in ms]


def jsonable_tree(t):
    if t[0] == "F":
        return ["F", t[1], list(bytearray(t[2]))]
    return ["D", t[1], [[n, jsonable_tree(c)] for n, c in t[2]]]


def tree_from_json(t):
    if t[0] == "F":
        return ["F", t[1], bytes(bytearray(t[2]))]
    return ["D", t[1], [(n, tree_from_json(c)) for n, c in t[2]]]


# --------------------------------------------------------------------------- driver

def plan(rnd, tier):
    thorough = tier == "thorough"
    writes, reads = [], []
    n_w = 900 if thorough else 180
    for i in range(n_w):
        k = rnd.random()
        if k < 0.08:
            tree = chain_tree(rnd, rnd.randrange(3, 14 if thorough else 9))
        elif k < 0.2:
            tree = gen_tree(rnd, 60, wide=True)
        else:
            tree = gen_tree(rnd, rnd.choice([0, 1, 3, 8, 15, 30, 140 if thorough else 40]), maxdepth=9 if thorough else 6)
        fmt = ("zip", "tar")[i % 2]
        route = ROUTES[(i // 2) % 3]
        writes.append(dict(fmt=fmt, route=route, comp=rnd.randrange(4), tree=tree))
    n_r = 24000 if thorough else 3000
    for i in range(n_r):
        fmt = ("zip", "tar")[i % 2]
        malformed = rnd.random() < 0.4
        reads.append(dict(fmt=fmt, malformed=malformed, members=gen_members(rnd, fmt, malformed)))
    return writes, reads


def run_tree_checks(report, rnd, tier):
    """Returns coverage keys; registers violations on `report`."""
    t0 = time.time()
    writes, reads = plan(rnd, tier)
    cov = dict(treearch_write_cases=0, treearch_write_by_route={}, treearch_write_nodes_max=0,
               treearch_write_members_compared=0, treearch_read_cases=0, treearch_read_malformed=0,
               treearch_read_zip_first_query_raises={}, treearch_read_zip_keyerror_trees=0,
               treearch_read_tar_hidden_keys=0, treearch_read_members_changed_by_container=0,
               treearch_mismatches=0, treearch_bfs_queue_checked=0)

    real_violation = report.violation
    budget = [MAX_REPLAYS]

    class _Capped(object):
        """at most MAX_REPLAYS replay files per run; further mismatches are only counted"""
        def violation(self, payload, no_input=False):
            if budget[0] > 0:
                budget[0] -= 1
                return real_violation(payload, no_input)
            cov["treearch_mismatches_not_written"] = cov.get("treearch_mismatches_not_written", 0) + 1
            return None

        def __getattr__(self, name):
            return getattr(report_, name)
    report_ = report
    report = _Capped()

    # ---- (a)
    done = []
    for case in writes:
        try:
            snap, times, real = write_case(case)
        except Exception as e:  # noqa
            cov["treearch_mismatches"] += 1
            report.violation(dict(kind="archive-tree-differs-from-model", part="write", fmt=case["fmt"],
                                  route=case["route"], comp=case["comp"], tree=jsonable_tree(case["tree"]),
                                  real="writer raised " + exc_name(e) + ": " + str(e)[:200], theorem=THEOREM))
            continue
        done.append((case, snap, times, real))
    lines = [write_line(c["fmt"], snap, times) for c, snap, times, _r in done]
    lines_q = [" ".join(["treearch", "bfs_code"] + tree_tokens(snap, False)) for _c, snap, _t, _r in done]
    outs = common.run_model(lines + lines_q) if lines else []
    for (case, snap, times, real), out in zip(done, outs[:len(lines)]):
        real_r = r_members(real, times)
        model_r = out if times else strip_times(out)
        cov["treearch_write_cases"] += 1
        key = "%s/%s" % (case["fmt"], case["route"])
        cov["treearch_write_by_route"][key] = cov["treearch_write_by_route"].get(key, 0) + 1
        cov["treearch_write_nodes_max"] = max(cov["treearch_write_nodes_max"], count_nodes(snap) - 1)
        cov["treearch_write_members_compared"] += len(real)
        if real_r != model_r:
            cov["treearch_mismatches"] += 1
            report.violation(dict(kind="archive-tree-differs-from-model", part="write", fmt=case["fmt"],
                                  route=case["route"], comp=case["comp"], tree=jsonable_tree(case["tree"]),
                                  real=real_r[:3000], model=model_r[:3000], theorem=THEOREM))
    for (case, snap, _t, _r), out in zip(done, outs[len(lines):]):
        cov["treearch_bfs_queue_checked"] += 1
        if out != "T":
            cov["treearch_mismatches"] += 1
            report.violation(dict(kind="archive-tree-differs-from-model", part="bfs-queue-vs-levels",
                                  tree=jsonable_tree(snap), model=out, theorem=THEOREM))

    # ---- (b)
    rdone = []
    for case in reads:
        try:
            back, real = read_case(case)
        except Exception as e:  # noqa  (zipfile / tarfile refusing to store the list: not a case)
            continue
        rdone.append((case, back, real))
    rlines = [read_line(c["fmt"], back) for c, back, _r in rdone]
    routs = common.run_model(rlines) if rlines else []
    for (case, back, real), out in zip(rdone, routs):
        cov["treearch_read_cases"] += 1
        if case["malformed"]:
            cov["treearch_read_malformed"] += 1
        given = [(m[0], bool(m[1]), m[2], int(m[3])) for m in case["members"]]
        if [(m[0], m[1], m[2]) for m in back] != [(m[0], m[1], m[2]) for m in given]:
            cov["treearch_read_members_changed_by_container"] += 1
        if real != out:
            cov["treearch_mismatches"] += 1
            report.violation(dict(kind="archive-tree-differs-from-model", part="read", fmt=case["fmt"],
                                  members=jsonable_members(case["members"]), real=real[:3000], model=out[:3000],
                                  theorem=THEOREM))
            continue
        # the model PREDICTS the recorded deviations of ReadZipFS; route them to the known findings
        if case["fmt"] == "zip":
            first = real.split("#", 1)[0]
            if first != "ok:U":
                d = cov["treearch_read_zip_first_query_raises"]
                d[first] = d.get(first, 0) + 1
                sig = {"err:IllegalBackReference": SIG_CLIMB, "err:DirectoryExpected": SIG_CLASH}.get(first)
                entry = report.known_match(sig) if sig else None
                if entry is not None:
                    report.known_finding(entry, example=jsonable_members(case["members"]))
                else:
                    cov.setdefault("treearch_unregistered_first_query_errors", []).append(first)
            if "crash:KeyError" in real:
                cov["treearch_read_zip_keyerror_trees"] += 1
                entry = report.known_match(SIG_KEYERROR)
                if entry is not None:
                    report.known_finding(entry, example=jsonable_members(case["members"]))
        else:
            if not real.endswith("#[]"):
                cov["treearch_read_tar_hidden_keys"] += 1

    # a sample of every batch is re-evaluated inside Coq (skipped when a private driver is used)
    if not os.environ.get("TREEARCH_DRIVER"):
        sample = (lines[:40] + rlines[:120])
        expected = (outs[:len(lines)][:40] + routs[:120])
        n_vm, vm_bad = common.vm_crosscheck(sample, expected, "C15tree", limit=40)
        cov["treearch_vm_crosschecked"] = n_vm
        for b in vm_bad:
            report.violation(dict(kind="extraction-differs-from-vm_compute", what=b, theorem=THEOREM), no_input=True)
    cov["treearch_wall_s"] = round(time.time() - t0, 2)
    return cov


def replay_tree(d):
    """Re-run one recorded case (payload of an archive-tree-differs-from-model violation).
    Returns dict(same, real, model)."""
    if d.get("part") == "write":
        case = dict(fmt=d["fmt"], route=d["route"], comp=d["comp"], tree=tree_from_json(d["tree"]))
        try:
            r = eval_write(case)
        except Exception as e:  # noqa
            return dict(same=False, real="writer raised " + exc_name(e), model=None)
        return dict(same=r["same"], real=r["real"], model=r["model"])
    if d.get("part") == "read":
        case = dict(fmt=d["fmt"], members=[(m[0], m[1], bytes(bytearray(m[2])), m[3]) for m in d["members"]])
        r = eval_read(case)
        return dict(same=r["same"], real=r["real"], model=r["model"])
    if d.get("part") == "bfs-queue-vs-levels":
        out = common.run_model([" ".join(["treearch", "bfs_code"] + tree_tokens(tree_from_json(d["tree"]), False))])[0]
        return dict(same=(out == "T"), real="T", model=out)
    return dict(same=True, real=None, model=None)


if __name__ == "__main__":
    # standalone: PYTHONPATH=/repo:/verif/harness PYTHONHASHSEED=0 /venv/bin/python -W ignore h_treearch.py [seed] [tier]
    seed = int(sys.argv[1]) if len(sys.argv) > 1 else common.seed_from_env()
    tier_ = sys.argv[2] if len(sys.argv) > 2 else "quick"
    if os.environ.get("TREEARCH_DRIVER"):
        common.DRIVER = os.environ["TREEARCH_DRIVER"]
    rep = common.Report("C15", tier_, seed)
    c = run_tree_checks(rep, random.Random(seed + 1500), tier_)
    print(json.dumps(c, indent=1, sort_keys=True))
    print("known findings seen:", [k["signature"] for k, _ in rep.known_seen])
    for path, no_input in rep.violations:
        print("VIOLATION property=C15 replay=%s%s" % (path, " no-failing-input-found" if no_input else ""))
    sys.exit(1 if rep.violations else 0)
