"""C17 — MountFS and MultiFS route every call by their documented rule.

Members are recording proxies (WrapFS subclasses logging every call they receive) over
MemoryFS with pre-existing content. For every call of random histories the log and the
member trees are compared with what the routing model (Route/Route.v, extracted) predicts:
MountFS: exactly the member whose mount point is a whole-component prefix of the normalised
path (first in mount order), with the path made relative; MultiFS: reads answered by the
first member in (priority, insertion) order that has the path, listings de-duplicated
unions, writes only on the write filesystem."""
from __future__ import print_function

import itertools
import json
import random

import common
import fsops
import genhist
from common import tok

LOGGED = ("getinfo", "listdir", "makedir", "openbin", "remove", "removedir", "setinfo", "scandir",
          "open", "makedirs", "move", "copy", "movedir", "copydir", "removetree", "exists", "isdir",
          "isfile", "upload", "download", "writebytes", "readbytes", "writetext", "readtext",
          "appendbytes", "create", "touch", "getsize", "gettype", "isempty", "settimes", "writefile")


def make_recorder(log, ident):
    from fs.wrapfs import WrapFS

    class Rec(WrapFS):
        pass

    def wrap(name):
        orig = getattr(WrapFS, name)

        def f(self, *a, **kw):
            if a and isinstance(a[0], str):
                log.append((ident, name, a[0]))
            return orig(self, *a, **kw)
        f.__name__ = name
        return f
    for n in LOGGED:
        if hasattr(WrapFS, n):
            setattr(Rec, n, wrap(n))
    return Rec


def prefill(m, rnd, tag):
    for d in rnd.sample(["a", "ab", "a/b", "c", "x"], rnd.randint(0, 3)):
        m.makedirs(d, recreate=True)
        m.writebytes(d + "/f" + tag, tag.encode())
    if rnd.random() < 0.7:
        m.writebytes("top" + tag, tag.encode())
    if rnd.random() < 0.5:
        m.writebytes("shared", tag.encode())


MOUNT_POINTS = ["/", "/a", "/ab", "/a/b", "/c", "c/", "a//b/../b"]


def snap(m):
    return fsops.canon_tree(fsops.snap_memoryfs(m), times=False)


def mount_cases(rnd, n, thorough):
    cases = []
    sets = []
    for k in (1, 2, 3):
        for combo in itertools.permutations(["/a", "/ab", "/a/b", "/c", "/"], k):
            sets.append(list(combo))
    for _ in range(n):
        mps = rnd.choice(sets)
        g = genhist.Gen(rnd, odd=0.2, spell=0.25)
        # seed the generator's shadow so that paths below the mount points are likely
        for mp in mps:
            try:
                g.shadow.makedirs(mp, recreate=True)
            except Exception:
                pass
        cases.append((mps, g.history(rnd.randint(3, 10)), rnd.random()))
    return cases


def run_mount_case(case, rnd_seed):
    from fs.mountfs import MountFS
    from fs.memoryfs import MemoryFS
    mps, hist, _ = case
    rnd = random.Random(rnd_seed)
    log = []
    mf = MountFS()
    members = []
    accepted = []
    for i, mp in enumerate(mps):
        inner = MemoryFS()
        prefill(inner, rnd, str(i))
        rec = make_recorder(log, i)(inner)
        try:
            mf.mount(mp, rec)
            accepted.append(i)
        except Exception as e:
            accepted.append(None) if False else None
        members.append(inner)
    out = []
    for o in hist:
        before = [snap(m) for m in members]
        default_before = snap(mf.default_fs)
        del log[:]
        res = fsops.execute(mf, o)
        touched = sorted(set(e[0] for e in log))
        changed = [i for i, m in enumerate(members) if snap(m) != before[i]]
        out.append(dict(op=o, outcome=res, log=list(log), touched=touched, changed=changed,
                        default_changed=snap(mf.default_fs) != default_before))
    mf.close()
    return accepted, out


def model_route(mps, path):
    line = "route mount %s %d %s" % (tok(path), len(mps), " ".join(tok(m) for m in mps))
    return common.run_model([line])[0]


def paths_of(o):
    if o[0] in ("move", "copy", "movedir", "copydir"):
        return [o[1], o[2]]
    return [o[1]]


def parse_route(s):
    """ok:N -> None (default fs) ; ok:S(i<k>|s...) -> (k, relpath) ; err -> 'err'"""
    if not s.startswith("ok:"):
        return "err"
    if s == "ok:N":
        return None
    body = s[5:-1]
    k, p = body.split("|")
    return (int(k[1:]), common.untok(p[1:] if len(p) > 1 else "-") if False else
            "".join(chr(int(x)) for x in p[1:].split(",")) if len(p) > 1 else "")


def multi_case(rnd):
    n = rnd.randint(1, 4)
    prios = [rnd.choice([0, 0, 1, -1]) for _ in range(n)]
    write = rnd.choice([None] + list(range(n)))
    g = genhist.Gen(rnd, odd=0.1, spell=0.1)
    for d in ("a", "ab", "c"):
        g.shadow.makedirs(d, recreate=True)
    g.shadow.writebytes("shared", b"s")
    g.shadow.writebytes("a/f0", b"0")
    hist = g.history(rnd.randint(3, 9))
    # systematic: every writing way of reaching a file that may live in a non-write member
    target = rnd.choice(["shared", "a/f0", "top0", "top1", "a/f1", "c/f2"])
    how = rnd.choice([("openwrite", target, m, b"W") for m in ("r+", "r+b", "w", "a", "a+", "w+", "x")] +
                     [("writebytes", target, b"W"), ("appendbytes", target, b"W"), ("touch", target),
                      ("create", target, True), ("setinfo", target, 3), ("remove", target), ("makedir", "a/newd", False)])
    hist.insert(rnd.randint(0, len(hist)), how)
    return prios, write, hist


READS = ("getinfo", "readbytes", "exists", "isdir", "isfile", "getsize", "gettype", "openread")
WRITES = ("makedir", "makedirs", "writebytes", "appendbytes", "create", "touch", "openwrite", "setinfo")


def run_multi_case(case, seed):
    from fs.multifs import MultiFS
    from fs.memoryfs import MemoryFS
    prios, write, hist = case
    rnd = random.Random(seed)
    log = []
    mf = MultiFS()
    members = []
    for i, p in enumerate(prios):
        inner = MemoryFS()
        prefill(inner, rnd, str(i))
        members.append(inner)
        mf.add_fs("m%d" % i, make_recorder(log, i)(inner), write=(write == i), priority=p)
    order_line = "route order " + " ".join(("1 %d" % -p) if p < 0 else ("0 %d" % p) for p in prios)
    order = [int(x[1:]) for x in common.run_model([order_line])[0][1:-1].split(";") if x]
    bad = []
    steps = 0
    for o in hist:
        steps += 1
        before = [snap(m) for m in members]
        del log[:]
        res = fsops.execute(mf, o)
        changed = [i for i, m in enumerate(members) if snap(m) != before[i]]
        name = o[0]
        if name == "openwrite":
            from fs.mode import Mode
            try:
                writing = Mode(o[2]).writing
            except Exception:
                writing = None
        else:
            writing = name in WRITES
        # (1) only the write filesystem may change on creating/writing calls
        if name in WRITES and writing is not False:
            illegal = [i for i in changed if i != write]
            if illegal:
                bad.append(("write reached a member other than write_fs", o, res, illegal))
            if write is None and res.startswith("ok:") and name != "openwrite" and \
                    not (name == "create" and res == "ok:F"):     # create(existing, wipe=False) writes nothing
                bad.append(("write succeeded without a write filesystem", o, res, changed))
            if write is None and res.startswith("err:") and res != "err:ResourceReadOnly" and \
                    not res.startswith("err:Illegal") and not res.startswith("err:InvalidChars"):
                bad.append(("write without write_fs must raise ResourceReadOnly", o, res, changed))
        # (2) reads are answered by the first member in model order that has the path
        if name in ("readbytes", "getinfo", "getsize"):
            holders = []
            for i in order:
                try:
                    if members[i].exists(o[1]):
                        holders.append(i)
                except Exception:
                    holders = None
                    break
            if holders is not None:
                if holders:
                    exp = fsops.execute(members[holders[0]], o)
                    if fsops_strip(res) != fsops_strip(exp):
                        bad.append(("read not answered by the highest-priority member holding the path",
                                    o, res, dict(expected=exp, order=order, holders=holders)))
                elif res.startswith("ok:"):
                    bad.append(("read succeeds although no member has the path", o, res, order))
        # (3) listings are de-duplicated unions
        if name == "listdir":
            union, any_dir = [], False
            for i in order:
                try:
                    ns = members[i].listdir(o[1])
                    any_dir = True
                    for x in ns:
                        if x not in union:
                            union.append(x)
                except Exception:
                    pass
            if any_dir:
                exp = "ok:" + common.r_list(common.r_str, sorted(union))
                got = res if not res.startswith("ok:[") else "ok:[" + ";".join(sorted(
                    res[4:-1].split(";"), key=lambda s: [int(v) for v in s[1:].split(",")] if len(s) > 1 else [])) + "]"
                exp2 = "ok:[" + ";".join(sorted((common.r_str(x) for x in union),
                                                key=lambda s: [int(v) for v in s[1:].split(",")] if len(s) > 1 else [])) + "]"
                if got != exp2:
                    bad.append(("listdir is not the de-duplicated union", o, res, exp2))
            elif res.startswith("ok:"):
                bad.append(("listdir succeeds although no member has the directory", o, res, order))
        # (4) pure queries never change any member
        if name in READS + ("listdir", "scandir", "isempty") and name != "openread" and changed:
            bad.append(("a query changed a member", o, res, changed))
    mf.close()
    return steps, bad, order


def fsops_strip(s):
    import re
    return re.sub(r"\|(N|Si-?\d+)\)", ")", s)


def run(report):
    proof = common.preflight(report)
    rnd = random.Random(report.seed + 17)
    thorough = report.tier == "thorough"
    bad = []
    total = 0
    nontrivial = set()
    # ---- MountFS
    mcases = mount_cases(rnd, 500 if thorough else 90, thorough)
    for ci, case in enumerate(mcases):
        mps = case[0]
        accepted_model = common.run_model(["route mountable " + " ".join(tok(m) for m in mps)])[0]
        accepted, out = run_mount_case(case, report.seed * 1000 + ci)
        if accepted != [int(x[1:]) for x in accepted_model[1:-1].split(";") if x]:
            bad.append(("mount acceptance differs from the model (overlap rule)", mps, accepted, accepted_model))
            continue
        live = [mps[i] for i in accepted]
        for st in out:
            total += 1
            o = st["op"]
            routes = [parse_route(model_route(live, p)) for p in paths_of(o)]
            if "err" in routes:
                continue
            below = set()
            expected_members = set(accepted[r[0]] for r in routes if r is not None)
            # a recursive call on a directory also reaches the filesystems mounted below it
            import fs.path as P
            for p_arg in paths_of(o):
                try:
                    base = P.abspath(P.normpath(p_arg))
                except Exception:
                    continue
                for idx, mp in zip(accepted, live):
                    if P.isbase(base, P.abspath(P.normpath(mp))):
                        below.add(idx)
            nontrivial.add((tuple(mps), o[0], tuple(sorted(expected_members))))
            # essential calls: only the routed member(s) may receive calls or change
            compound = o[0] in ("movedir", "copydir", "removetree", "makedirs", "move", "copy")
            recursive = o[0] in ("movedir", "copydir", "removetree")
            allowed = expected_members | (below if recursive else set())
            stray = [t for t in st["touched"] if t not in allowed]
            stray_changed = [c for c in st["changed"] if c not in allowed]
            if stray_changed or (stray and not compound and o[0] not in ("listdir", "scandir", "isempty")):
                bad.append(("a filesystem other than the routed one was touched", dict(mounts=mps, call=o),
                            st["outcome"], dict(expected=sorted(expected_members), touched=st["touched"],
                                                changed=st["changed"], log=st["log"][:10])))
            # the path handed to the member is the path made relative to the mount
            if not compound and len(routes) == 1 and routes[0] is not None:
                k, rel = routes[0]
                mine = [e for e in st["log"] if e[0] == accepted[k]]
                if mine:
                    import fs.path as P
                    got = mine[0][2]
                    try:
                        same = P.relpath(P.normpath(got)) == rel
                    except Exception:
                        same = False
                    if not same:
                        bad.append(("member received a path that is not the path relative to its mount",
                                    dict(mounts=mps, call=o), st["outcome"], dict(received=got, expected=rel)))
            if all(r is not None for r in routes) and st["default_changed"] and o[0] not in ("makedirs",):
                bad.append(("a call routed to a mount changed the default filesystem", dict(mounts=mps, call=o),
                            st["outcome"], None))
    # ---- MultiFS
    mtotal = 0
    for ci in range(700 if thorough else 140):
        case = multi_case(rnd)
        steps, b, order = run_multi_case(case, report.seed * 2000 + ci)
        mtotal += steps
        nontrivial.add(("multi", tuple(case[0]), case[1]))
        for x in b:
            bad.append((x[0], dict(priorities=case[0], write=case[1], call=x[1]), x[2], x[3]))
    total += mtotal
    seen = set()
    for why, ctx, outc, extra in bad:
        sig = why
        known = report.known_match(sig)
        if known:
            report.known_finding(known)
            continue
        if sig in seen or len(seen) >= 8:
            continue
        seen.add(sig)
        report.violation(dict(kind="misrouted", why=why, context=json.loads(json.dumps(ctx, default=repr)),
                              outcome=outc, detail=json.loads(json.dumps(extra, default=repr)),
                              theorem="Props/C17.v"))
    cov = dict(evaluations=total, distinct_nontrivial=len(nontrivial),
               rule="MountFS: every ordered set of <= 3 mount points from {/a, /ab, /a/b, /c, /} with pre-filled "
                    "recording members x random histories (odd spellings) - expected member and relative path from "
                    "the extracted routing model; MultiFS: 1-4 members, priorities from {0,0,1,-1}, any write layer "
                    "or none x random histories; non-trivial = distinct (configuration, call kind, routed members)",
               samples=[dict(mounts=mcases[0][0], history=[list(map(str, o)) for o in mcases[0][1]][:4])],
               disagreements_checked=len(bad), multifs_steps=mtotal,
               traces_validated_against_impl=total - len(bad))
    return report.finish(proof, cov, assumptions=[
        "derived calls (move/copy/movedir/copydir/removetree/makedirs) may touch every member their path arguments "
        "route to; members are MemoryFS instances behind recording WrapFS proxies"])


def replay(report, path):
    with open(path) as fh:
        d = json.load(fh)
    print(json.dumps(d, indent=1)[:3000])
    return 1
