"""C17 — MountFS and MultiFS route every call by their documented rule.

Members are recording proxies (WrapFS subclasses logging every call they receive) over
MemoryFS with pre-existing content. For every call of random histories the log and the
member trees are compared with what the routing model (Route/Route.v, extracted) predicts:
MountFS: exactly the member whose mount point is a whole-component prefix of the normalised
path (first in mount order), with the path made relative; MultiFS: reads answered by the
first member in (priority, insertion) order that has the path, listings de-duplicated
unions, writes only on the write filesystem."""
from __future__ import print_function

import itertools
import json
import random

import common
import fsops
import genhist
from common import tok

# TODO(main): signatures of misbehaviour of the UNCHANGED library exposed by the new coverage; they are routed
# through report.known_match() (printed as KNOWN-FINDING once registered in known_findings.json) and, until
# then, kept from failing the check by this list.
PENDING_FINDINGS = []   # (the touch-on-a-lower-layer-file finding is registered in known_findings.json)

LOGGED = ("getinfo", "listdir", "makedir", "openbin", "remove", "removedir", "setinfo", "scandir",
          "open", "makedirs", "move", "copy", "movedir", "copydir", "removetree", "exists", "isdir",
          "isfile", "upload", "download", "writebytes", "readbytes", "writetext", "readtext",
          "appendbytes", "create", "touch", "getsize", "gettype", "isempty", "settimes", "writefile")


def make_recorder(log, ident):
    from fs.wrapfs import WrapFS

    class Rec(WrapFS):
        pass

    def wrap(name):
        orig = getattr(WrapFS, name)

        def f(self, *a, **kw):
            if a and isinstance(a[0], str):
                log.append((ident, name, a[0]))
            return orig(self, *a, **kw)
        f.__name__ = name
        return f
    for n in LOGGED:
        if hasattr(WrapFS, n):
            setattr(Rec, n, wrap(n))
    return Rec


def prefill(m, rnd, tag):
    for d in rnd.sample(["a", "ab", "a/b", "c", "x"], rnd.randint(0, 3)):
        m.makedirs(d, recreate=True)
        m.writebytes(d + "/f" + tag, tag.encode())
    if rnd.random() < 0.7:
        m.writebytes("top" + tag, tag.encode())
    if rnd.random() < 0.5:
        m.writebytes("shared", tag.encode())


MOUNT_TARGETS = ["/a", "/ab", "/a/b", "/c", "/"]


def _sp(root, one, many=None):
    """Spelling of a normalised absolute path: (text for the root, f(body) for one component, f(comps) for more)."""
    def f(norm):
        comps = [c for c in norm.split("/") if c]
        if not comps:
            return root
        if len(comps) > 1 and many is not None:
            return many(comps)
        return one("/".join(comps))
    return f


# every way of writing the same location; the two 'climb' classes leave the root and must be refused
SPELLINGS = [
    ("abs", _sp("/", lambda b: "/" + b)),
    ("rel", _sp("", lambda b: b)),
    ("abs-trailing-slash", _sp("/", lambda b: "/" + b + "/")),
    ("rel-trailing-slash", _sp("./", lambda b: b + "/")),
    ("dot-lead", _sp(".", lambda b: "./" + b)),
    ("dot-tail", _sp("/.", lambda b: "/" + b + "/.")),
    ("dot-mid", _sp("/./", lambda b: "/./" + b, lambda cs: "/" + "/./".join(cs))),
    ("double-slash-lead", _sp("//", lambda b: "//" + b)),
    ("double-slash-mid", _sp("/.//", lambda b: b + "//", lambda cs: "//".join(cs))),
    ("dotdot-lead", _sp("zz/..", lambda b: "zz/../" + b)),
    ("dotdot-lead-abs", _sp("/zz/../", lambda b: "/zz/../" + b)),
    ("dotdot-mid", _sp("/zz/yy/../..", lambda b: "/zz/.././" + b,
                       lambda cs: cs[0] + "/zz/../" + "/".join(cs[1:]))),
    ("dotdot-tail", _sp("zz/../", lambda b: b + "/zz/..")),
    ("climb-above-root", _sp("..", lambda b: "../" + b)),
    ("climb-above-root-inside", _sp("/zz/../../", lambda b: "/" + b + "/.." * (b.count("/") + 2) + "/" + b)),
]
SPELL = dict(SPELLINGS)
STAYING = [n for n, _ in SPELLINGS if not n.startswith("climb")]
CLIMBING = [n for n, _ in SPELLINGS if n.startswith("climb")]


def snap(m):
    return fsops.canon_tree(fsops.snap_memoryfs(m), times=False)


def mount_cases(rnd, n, thorough):
    cases = []
    sets = []
    for k in (1, 2, 3):
        for combo in itertools.permutations(MOUNT_TARGETS, k):
            sets.append(list(combo))
    for _ in range(n):
        mps = list(rnd.choice(sets))
        # the mount-point argument is a path like any other: half of them are written in a non-normal form
        for i in range(len(mps)):
            if rnd.random() < 0.5:
                mps[i] = SPELL[rnd.choice(STAYING if rnd.random() < 0.9 else CLIMBING)](mps[i])
        g = genhist.Gen(rnd, odd=0.2, spell=0.25)
        # seed the generator's shadow so that paths below the mount points are likely
        for mp in mps:
            try:
                g.shadow.makedirs(mp, recreate=True)
            except Exception:
                pass
        cases.append((mps, g.history(rnd.randint(3, 10)), rnd.random()))
    return cases


def run_mount_case(case, rnd_seed):
    from fs.mountfs import MountFS
    from fs.memoryfs import MemoryFS
    mps, hist = case[0], case[1]
    rnd = random.Random(rnd_seed)
    log = []
    mf = MountFS()
    members = []
    accepted = []
    refusals = []
    for i, mp in enumerate(mps):
        inner = MemoryFS()
        prefill(inner, rnd, str(i))
        rec = make_recorder(log, i)(inner)
        try:
            mf.mount(mp, rec)
            accepted.append(i)
        except Exception as e:
            refusals.append((i, "err:" + type(e).__name__))
        members.append(inner)
    out = []
    for o in hist:
        before = [snap(m) for m in members]
        default_before = snap(mf.default_fs)
        del log[:]
        res = fsops.execute(mf, o)
        touched = sorted(set(e[0] for e in log))
        changed = [i for i, m in enumerate(members) if snap(m) != before[i]]
        out.append(dict(op=o, outcome=res, log=list(log), touched=touched, changed=changed,
                        default_changed=snap(mf.default_fs) != default_before))
    mf.close()
    return accepted, refusals, out


MODEL_CACHE = {}


def model_prefetch(lines):
    """One driver process for many questions (a process start costs ~40 ms)."""
    todo = sorted(set(l for l in lines if l not in MODEL_CACHE))
    if todo:
        for l, a in zip(todo, common.run_model_parallel(todo)):
            MODEL_CACHE[l] = a


def model_ask(line):
    if line not in MODEL_CACHE:
        MODEL_CACHE[line] = common.run_model([line])[0]
    return MODEL_CACHE[line]


def route_line(mps, path):
    return ("route mount %s %d %s" % (tok(path), len(mps), " ".join(tok(m) for m in mps))).rstrip()


def mountable_line(mps):
    return "route mountable " + " ".join(tok(m) for m in mps)


def parse_nats(s):
    return [int(x[1:]) for x in s[1:-1].split(";") if x]


def order_line(prios):
    return "route order " + " ".join(("1 %d" % -p) if p < 0 else ("0 %d" % p) for p in prios)


def model_route(mps, path):
    return model_ask(route_line(mps, path))


def paths_of(o):
    if o[0] in ("move", "copy", "movedir", "copydir"):
        return [o[1], o[2]]
    return [o[1]]


def parse_route(s):
    """ok:N -> None (default fs) ; ok:S(i<k>|s...) -> (k, relpath) ; err -> 'err'"""
    if not s.startswith("ok:"):
        return "err"
    if s == "ok:N":
        return None
    body = s[5:-1]
    k, p = body.split("|")
    return (int(k[1:]), common.untok(p[1:] if len(p) > 1 else "-") if False else
            "".join(chr(int(x)) for x in p[1:].split(",")) if len(p) > 1 else "")


def multi_case(rnd):
    n = rnd.randint(1, 4)
    prios = [rnd.choice([0, 0, 1, -1]) for _ in range(n)]
    write = rnd.choice([None] + list(range(n)))
    g = genhist.Gen(rnd, odd=0.1, spell=0.1)
    for d in ("a", "ab", "c"):
        g.shadow.makedirs(d, recreate=True)
    g.shadow.writebytes("shared", b"s")
    g.shadow.writebytes("a/f0", b"0")
    hist = g.history(rnd.randint(3, 9))
    # systematic: every writing way of reaching a file that may live in a non-write member
    target = rnd.choice(["shared", "a/f0", "top0", "top1", "a/f1", "c/f2"])
    how = rnd.choice([("openwrite", target, m, b"W") for m in ("r+", "r+b", "w", "a", "a+", "w+", "x")] +
                     [("writebytes", target, b"W"), ("appendbytes", target, b"W"), ("touch", target),
                      ("create", target, True), ("setinfo", target, 3), ("remove", target), ("makedir", "a/newd", False)])
    hist.insert(rnd.randint(0, len(hist)), how)
    return prios, write, hist


READS = ("getinfo", "readbytes", "exists", "isdir", "isfile", "getsize", "gettype", "openread")
WRITES = ("makedir", "makedirs", "writebytes", "appendbytes", "create", "touch", "openwrite", "setinfo")


def run_multi_case(case, seed):
    from fs.multifs import MultiFS
    from fs.memoryfs import MemoryFS
    prios, write, hist = case
    rnd = random.Random(seed)
    log = []
    mf = MultiFS()
    members = []
    for i, p in enumerate(prios):
        inner = MemoryFS()
        prefill(inner, rnd, str(i))
        members.append(inner)
        mf.add_fs("m%d" % i, make_recorder(log, i)(inner), write=(write == i), priority=p)
    order = parse_nats(model_ask(order_line(prios)))
    bad = []
    steps = 0
    for o in hist:
        steps += 1
        before = [snap(m) for m in members]
        del log[:]
        res = fsops.execute(mf, o)
        changed = [i for i, m in enumerate(members) if snap(m) != before[i]]
        name = o[0]
        if name == "openwrite":
            from fs.mode import Mode
            try:
                writing = Mode(o[2]).writing
            except Exception:
                writing = None
        else:
            writing = name in WRITES
        # (1) only the write filesystem may change on creating/writing calls
        if name in WRITES and writing is not False:
            illegal = [i for i in changed if i != write]
            if illegal:
                bad.append(("write reached a member other than write_fs", o, res, illegal))
            if write is None and res.startswith("ok:") and name != "openwrite" and \
                    not (name == "create" and res == "ok:F"):     # create(existing, wipe=False) writes nothing
                bad.append(("write succeeded without a write filesystem", o, res, changed))
            if write is None and res.startswith("err:") and res != "err:ResourceReadOnly" and \
                    not res.startswith("err:Illegal") and not res.startswith("err:InvalidChars"):
                bad.append(("write without write_fs must raise ResourceReadOnly", o, res, changed))
        # (2) reads are answered by the first member in model order that has the path
        if name in ("readbytes", "getinfo", "getsize"):
            holders = []
            for i in order:
                try:
                    if members[i].exists(o[1]):
                        holders.append(i)
                except Exception:
                    holders = None
                    break
            if holders is not None:
                if holders:
                    exp = fsops.execute(members[holders[0]], o)
                    if fsops_strip(res) != fsops_strip(exp):
                        bad.append(("read not answered by the highest-priority member holding the path",
                                    o, res, dict(expected=exp, order=order, holders=holders)))
                elif res.startswith("ok:"):
                    bad.append(("read succeeds although no member has the path", o, res, order))
        # (3) listings are de-duplicated unions
        if name == "listdir":
            union, any_dir = [], False
            for i in order:
                try:
                    ns = members[i].listdir(o[1])
                    any_dir = True
                    for x in ns:
                        if x not in union:
                            union.append(x)
                except Exception:
                    pass
            if any_dir:
                exp = "ok:" + common.r_list(common.r_str, sorted(union))
                got = res if not res.startswith("ok:[") else "ok:[" + ";".join(sorted(
                    res[4:-1].split(";"), key=lambda s: [int(v) for v in s[1:].split(",")] if len(s) > 1 else [])) + "]"
                exp2 = "ok:[" + ";".join(sorted((common.r_str(x) for x in union),
                                                key=lambda s: [int(v) for v in s[1:].split(",")] if len(s) > 1 else [])) + "]"
                if got != exp2:
                    bad.append(("listdir is not the de-duplicated union", o, res, exp2))
            elif res.startswith("ok:"):
                bad.append(("listdir succeeds although no member has the directory", o, res, order))
        # (4) pure queries never change any member
        if name in READS + ("listdir", "scandir", "isempty") and name != "openread" and changed:
            bad.append(("a query changed a member", o, res, changed))
    mf.close()
    return steps, bad, order


# --------------------------------------------------------------------------- MountFS: spellings sweep
#
# mount-point spelling class x call-path spelling class, with the twin oracle: the call on the MountFS must have
# the outcome and the effect of the same call made directly on the routed member with the relative path (or on
# the default tree with the raw path), where member and relative path come from the extracted routing model.

SINGLE_OPS = [
    lambda p: ("exists", p), lambda p: ("isdir", p), lambda p: ("isfile", p), lambda p: ("getinfo", p),
    lambda p: ("listdir", p), lambda p: ("scandir", p), lambda p: ("readbytes", p), lambda p: ("getsize", p),
    lambda p: ("gettype", p), lambda p: ("isempty", p), lambda p: ("openread", p, "rb"),
    lambda p: ("writebytes", p, b"W"), lambda p: ("appendbytes", p, b"A"), lambda p: ("makedir", p, False),
    lambda p: ("makedir", p, True), lambda p: ("create", p, True), lambda p: ("touch", p),
    lambda p: ("openwrite", p, "w", b"O"), lambda p: ("openwrite", p, "a", b"P"), lambda p: ("setinfo", p, 3),
    lambda p: ("remove", p), lambda p: ("removedir", p),
]
# pairs (earlier target, later target): the later one lies onto / inside the earlier one, or is unrelated
OVERLAPS = [("/a", "/a"), ("/a", "/a/b"), ("/", "/c"), ("/", "/"), ("/a/b", "/a"), ("/a", "/ab"), ("/ab", "/a/b")]


def call_targets(targets):
    out = ["/", "/x", "/zz/new", "/top0", "/ab", "/a/bc", "/a", "/c"]
    for t in targets:
        b = t.rstrip("/")
        out += [t, b + "/top0", b + "/top1", b + "/top2", b + "/shared", b + "/a", b + "/a/f0", b + "/ab/f1",
                b + "/new", b + "/new/deep", b + "x", b + "/x/f0", b + "/a/b", b + "/c/f1"]
    return out


def spelling_fixtures(rnd, thorough):
    """[(mount-point arguments, their classes, [(call, call-path class)])] covering every pair of classes."""
    names = [n for n, _ in SPELLINGS]
    fixtures = []
    rounds = 4 if thorough else 1

    def calls_for(targets, cclass, k):
        cs = []
        for _ in range(k):
            p = SPELL[cclass](rnd.choice(call_targets(targets)))
            cs.append((rnd.choice(SINGLE_OPS)(p), cclass))
        return cs
    for _ in range(rounds):
        # (a) every mount-point class x every call-path class
        for mclass in names:
            for cclass in names:
                k = rnd.choice([1, 1, 2, 2, 3])
                targets = [rnd.choice(MOUNT_TARGETS) for _ in range(k)]
                classes = [rnd.choice(STAYING) if rnd.random() < 0.6 else "abs" for _ in range(k)]
                classes[rnd.randrange(k)] = mclass
                args = [SPELL[c](t) for c, t in zip(classes, targets)]
                calls = calls_for(targets, cclass, 5 if thorough else 3)
                # always one call right below the point written in class mclass
                t = targets[classes.index(mclass)]
                calls.append((rnd.choice(SINGLE_OPS)(SPELL[cclass](t.rstrip("/") + "/" + rnd.choice(
                    ["top0", "top1", "shared", "new", "a/f0"]))), cclass))
                fixtures.append((args, classes, calls))
        # (b) every mount-point class for a point that normalises onto / into / next to an earlier mount
        for mclass in names:
            for first, second in OVERLAPS:
                c0 = rnd.choice(STAYING)
                args = [SPELL[c0](first), SPELL[mclass](second)]
                cclass = rnd.choice(names)
                fixtures.append((args, [c0, mclass], calls_for([first, second], cclass, 3)))
    return fixtures


def op_with_path(o, p):
    return (o[0], p) + tuple(o[2:])


def run_spelling_fixture(fx, seed, bad, stats):
    """Mount, then replay the calls on the MountFS and on the twin members; appends findings to bad."""
    from fs.mountfs import MountFS
    from fs.memoryfs import MemoryFS
    import fs.path as P
    args, classes, calls = fx
    ctx = dict(mount_arguments=args, mount_classes=classes)
    expected_ok = parse_nats(model_ask(mountable_line(args)))
    log = []
    mf = MountFS()
    members, twins, accepted = [], [], []
    for i, mp in enumerate(args):
        inner, twin = MemoryFS(), MemoryFS()
        prefill(inner, random.Random("%d/%d" % (seed, i)), str(i))
        prefill(twin, random.Random("%d/%d" % (seed, i)), str(i))
        members.append(inner)
        twins.append(twin)
        try:
            mf.mount(mp, make_recorder(log, i)(inner))
            accepted.append(i)
            res = "ok"
        except Exception as e:  # noqa
            res = "err:" + type(e).__name__
        stats["mounts"] += 1
        # documented: refused (MountError) inside an existing mount; a point above the root is not a path
        if i in expected_ok:
            exp = "ok"
        elif model_ask(route_line([], mp)).startswith("ok:"):
            exp = "err:MountError"
        else:
            exp = "err:IllegalBackReference"
        if res != exp:
            bad.append(("mount(): acceptance of a mount point differs from the rule on its normalised path",
                        dict(ctx, mount_point=mp, spelling=classes[i]), res, dict(expected=exp)))
    if accepted != expected_ok:
        mf.close()
        return
    live = [args[i] for i in accepted]
    default_twin = MemoryFS()
    for mp in live:
        default_twin.makedirs(P.abspath(P.normpath(mp)), recreate=True)
    for o, cclass in calls:
        stats["calls"] += 1
        stats["pairs"].add((tuple(sorted(set(classes))), cclass))
        route = parse_route(model_ask(route_line(live, o[1])))
        del log[:]
        res = fsops.execute(mf, o)
        touched = sorted(set(e[0] for e in log))
        c2 = dict(ctx, call=o, call_path_spelling=cclass)
        if route == "err":
            if res != "err:IllegalBackReference" or touched:
                bad.append(("a call path above the root was not refused", c2, res, dict(touched=touched)))
            continue
        if route is None:
            exp = fsops.execute(default_twin, o)
            want = []
        else:
            k, rel = route
            exp = fsops.execute(twins[accepted[k]], op_with_path(o, rel))
            want = [accepted[k]]
            if o[0] == "getinfo" and rel in ("", "/") and exp.startswith("ok:(s|"):
                # a mount point is named as in the directory that lists it (documented rule; /repo c991532)
                nm = P.basename(P.abspath(P.normpath(o[1])))
                if nm:
                    exp = "ok:(" + fsops.r_str(nm) + exp[len("ok:(s"):]
        stray = [t for t in touched if t not in want]
        if stray:
            bad.append(("a filesystem other than the routed one was touched", c2, res,
                        dict(expected=want, touched=touched, log=log[:6])))
        if res != exp:
            bad.append(("outcome differs from the routed filesystem's own answer (mount-point / call-path spelling)",
                        c2, res, dict(expected=exp, routed=route)))
            break
        diverged = [i for i in range(len(members)) if snap(members[i]) != snap(twins[i])]
        if diverged or snap(mf.default_fs) != snap(default_twin):
            bad.append(("effect differs from the same call on the routed filesystem (mount-point / call-path spelling)",
                        c2, res, dict(routed=route, members_diverged=diverged,
                                      default_diverged=snap(mf.default_fs) != snap(default_twin))))
            break
        if route is not None and res.startswith("ok:") and not touched:
            bad.append(("the routed filesystem never received the call", c2, res, dict(routed=route)))
    mf.close()


def spelling_sweep(rnd, seed, thorough, bad):
    fixtures = spelling_fixtures(rnd, thorough)
    lines = []
    for args, classes, calls in fixtures:
        lines.append(mountable_line(args))
        for mp in args:
            lines.append(route_line([], mp))
    model_prefetch(lines)
    lines = []
    for args, classes, calls in fixtures:
        ok = parse_nats(model_ask(mountable_line(args)))
        live = [args[i] for i in ok]
        for o, _c in calls:
            lines.append(route_line(live, o[1]))
    model_prefetch(lines)
    stats = dict(mounts=0, calls=0, pairs=set())
    for fi, fx in enumerate(fixtures):
        run_spelling_fixture(fx, seed * 7919 + fi, bad, stats)
    return dict(fixtures=len(fixtures), mounts=stats["mounts"], calls=stats["calls"],
                mount_point_classes=len(SPELLINGS), call_path_classes=len(SPELLINGS),
                class_pairs_driven=len(set((m, c) for ms, c in stats["pairs"] for m in ms)),
                overlap_shapes=len(OVERLAPS))


# --------------------------------------------------------------------------- MultiFS: member-state sweep
#
# every public FS method (reflection) x where the path / its ancestors live (write member only, a non-write
# member only, both, nowhere) x 2-3 members x write member or none.  References: the materialised union in the
# model's priority order (what reads must see) and a twin of the write member (where mutations must go).

T, NEW, DEEP, BELOW, ANC = "p/q/t", "p/q/new", "p/q/new/deep", "p/q/t/c", "p/q"
PATH_VARIANTS = [dict(path=T, src=T, dst=NEW), dict(path=NEW, src=T, dst=DEEP), dict(path=DEEP, src=BELOW, dst=NEW),
                 dict(path=BELOW, src=ANC, dst="p/q2"), dict(path=ANC, src=T, dst="other/new"),
                 dict(path="p/q/t/n", src=T, dst="p/q/t2")]
MEMBER_STATES = "EAFD"      # empty / ancestors only / ancestors + file t / ancestors + directory t (with a child)
SKIP_METHODS = {"close", "lock", "check", "isclosed", "getmeta", "match", "match_glob", "walker_class",
                "desc"}       # desc() names the filesystem object itself
MODE_VARIANTS = ["r", "w", "a", "r+", "x", "w+"]


def fill_member(m, st, i):
    tag = str(i).encode()
    m.writebytes("top%d" % i, tag)
    m.writebytes("shared", tag)
    if st == "E":
        return
    m.makedirs(ANC)
    m.writebytes(ANC + "/u%d" % i, b"u" + tag)
    if st == "F":
        m.writebytes(T, b"t" + tag)
    if st == "D":
        m.makedirs(T)
        m.writebytes(BELOW, b"c" + tag)


def flat(m):
    """path -> (kind, bytes, abstract mtime) of a MemoryFS, through its entry objects."""
    out = {}

    def go(e, p):
        for k, v in e._dir.items():
            q = p + "/" + k
            if v.is_dir:
                out[q] = ("D", None, fsops.canon_mt(v.modified_time))
                go(v, q)
            else:
                out[q] = ("F", v._bytes_file.getvalue(), fsops.canon_mt(v.modified_time))
    go(m.root, "")
    return out


_PROBE = []


def probe_class():
    """MemoryFS that notes when one of the documented mutating primitives (makedir, openbin in a writing mode,
    setinfo / remove, removedir - and MemoryFS's own move, movedir, removetree) is attempted on it."""
    if _PROBE:
        return _PROBE[0]
    from fs.memoryfs import MemoryFS

    class Probe(MemoryFS):
        def __init__(self):
            super(Probe, self).__init__()
            self.attempted = set()

    def flag(name, kinds):
        orig = getattr(MemoryFS, name)

        def f(self, *a, **kw):
            if name == "openbin":
                mode = kw.get("mode", a[1] if len(a) > 1 else "r")
                if not set(str(mode)) & set("wax+"):
                    return orig(self, *a, **kw)
            self.attempted.update(kinds)
            return orig(self, *a, **kw)
        f.__name__ = name
        setattr(Probe, name, f)
    for n in ("makedir", "openbin", "setinfo"):
        flag(n, ("write",))
    for n in ("remove", "removedir", "removetree"):
        flag(n, ("remove",))
    for n in ("move", "movedir"):
        flag(n, ("write", "remove"))
    _PROBE.append(Probe)
    return Probe


def build_union(states, order):
    """The priority-ordered union as one plain MemoryFS; None when a file and a directory collide."""
    from fs.memoryfs import MemoryFS
    u = probe_class()()
    kinds = {}
    for i in reversed(order):
        m = MemoryFS()
        fill_member(m, states[i], i)
        for p, (kind, data, _mt) in sorted(flat(m).items()):
            if kinds.get(p, kind) != kind:
                return None
            kinds[p] = kind
            if kind == "D":
                u.makedirs(p, recreate=True)
            else:
                u.writebytes(p, data)
    u.attempted.clear()
    return u


def method_calls(thorough, rnd):
    """[(method, label, factory)] - factory() -> (args, file object or None); enumerated from fs.base.FS."""
    import inspect
    import io
    import datetime
    import h_reflect
    from fs.base import FS
    out, skipped = [], []
    for name in h_reflect.public_methods():
        if name in SKIP_METHODS:
            skipped.append(name)
            continue
        try:
            params = [p for p in inspect.signature(getattr(FS, name)).parameters.values()
                      if p.kind not in (p.VAR_POSITIONAL, p.VAR_KEYWORD) and p.name != "self"]
        except (TypeError, ValueError):
            skipped.append(name)
            continue
        pnames = [p.name for p in params]
        if not set(pnames) & {"path", "dir_path", "src_path"}:
            if name != "tree":
                skipped.append(name)
                continue
        textual = name in ("writetext", "appendtext", "settext")
        modes = MODE_VARIANTS if "mode" in pnames else [None]
        flags = [False, True] if set(pnames) & {"wipe", "create", "overwrite", "recreate"} else [None]
        for vi, pv in enumerate(PATH_VARIANTS):
            for mode in modes:
                for flag in flags:
                    def factory(params=params, pv=pv, mode=mode, flag=flag, textual=textual, name=name):
                        args, fobj = [], None
                        for p in params:
                            n = p.name
                            if n in ("path", "dir_path"):
                                args.append(pv["path"])
                            elif n == "src_path":
                                args.append(pv["src"])
                            elif n == "dst_path":
                                args.append(pv["dst"])
                            elif n == "data":
                                args.append(b"DATA")
                            elif n == "contents":
                                args.append(u"TEXT" if textual else b"DATA")
                            elif n == "text":
                                args.append(u"TEXT")
                            elif n == "file":
                                fobj = io.BytesIO(b"FILE" if name not in ("download", "getfile") else b"")
                                args.append(fobj)
                            elif n == "mode":
                                args.append(mode)
                            elif n == "info":
                                args.append({"details": {"modified": fsops.MT_BASE + 7}})
                            elif n == "namespaces":
                                args.append(["details"])
                            elif n == "name" and name == "hash":
                                args.append("md5")
                            elif n in ("wipe", "create", "overwrite", "recreate"):
                                args.append(flag)
                            elif n == "modified" and name == "settimes":
                                args.append(datetime.datetime.utcfromtimestamp(fsops.MT_BASE + 9))
                            elif p.default is not inspect.Parameter.empty:
                                args.append(p.default)
                            else:
                                args.append(None)
                        return args, (fobj if name in ("download", "getfile") else None)
                    label = "%s(%s%s%s)" % (name, ",".join(repr(pv[k]) for k in ("path", "src", "dst")
                                                            if {"path": {"path", "dir_path"}, "src": {"src_path"},
                                                                "dst": {"dst_path"}}[k] & set(pnames)),
                                            "" if mode is None else ",mode=%r" % mode,
                                            "" if flag is None else ",flag=%r" % flag)
                    out.append((name, vi, label, factory))
                if name == "tree":
                    break
            if name == "tree":
                break
    return out, skipped


def used_paths(name, vi):
    import inspect
    from fs.base import FS
    pn = set(inspect.signature(getattr(FS, name)).parameters)
    pv = PATH_VARIANTS[vi]
    return [pv[k] for k, ns in (("path", ("path", "dir_path")), ("src", ("src_path",))) if pn & set(ns)]


def render_value(v):
    import datetime
    from fs.info import Info
    from fs.base import FS
    if v is None or isinstance(v, (bool, int, float, str, bytes)):
        return repr(v)
    if isinstance(v, Info):
        raw = v.raw
        d = raw.get("details")
        return "Info(%r,%r,%s)" % (raw["basic"]["name"], raw["basic"]["is_dir"],
                                   "-" if d is None else "%r@%s" % (0 if raw["basic"]["is_dir"] else d.get("size"),
                                                                    fsops.canon_mt(d.get("modified"))))
    if isinstance(v, datetime.datetime):
        import calendar
        return "time:" + fsops.canon_mt(calendar.timegm(v.utctimetuple()))
    if isinstance(v, FS):
        return "FS:" + type(v).__name__
    if isinstance(v, (list, tuple)):
        return "[" + ",".join(sorted(render_value(x) for x in v)) + "]"
    if isinstance(v, dict):
        return "{" + ",".join(sorted("%r:%s" % (k, render_value(x)) for k, x in v.items())) + "}"
    return "<" + type(v).__name__ + ">"


def invoke(obj, name, factory):
    """Outcome text of one reflected call; returned handles are used (written / read) and closed."""
    import contextlib
    import inspect
    import io
    import signal
    args, fobj = factory()
    old = signal.signal(signal.SIGALRM, fsops._alarm)
    signal.alarm(5)
    try:
        try:
            with contextlib.redirect_stdout(io.StringIO()):
                r = getattr(obj, name)(*args)
            if inspect.isgenerator(r) or (hasattr(r, "__next__") and not hasattr(r, "read")):
                r = list(r)
            if hasattr(r, "read") and hasattr(r, "close"):
                parts = []
                try:
                    if r.writable():
                        try:
                            r.write(b"H")
                        except TypeError:
                            r.write(u"H")
                        parts.append("written")
                    if r.readable():
                        r.seek(0)
                        parts.append(repr(r.read()))
                finally:
                    r.close()
                out = "ok:handle:" + "|".join(parts)
            else:
                out = "ok:" + render_value(r)
            if fobj is not None:
                out += "|file=%r" % fobj.getvalue()
            return out
        except fsops.Timeout:
            return "crash:NonTermination"
        except Exception as e:  # noqa
            return common.exc_name(e)
    finally:
        signal.alarm(0)
        signal.signal(signal.SIGALRM, old)


class MultiFixture(object):
    def __init__(self, states, prios, write, order):
        self.states, self.prios, self.write, self.order = states, prios, write, order
        self.mf = None
        self.build()

    def build(self):
        from fs.multifs import MultiFS
        from fs.memoryfs import MemoryFS
        if self.mf is not None:
            self.mf.close()
        self.mf = MultiFS()
        self.members = []
        for i, st in enumerate(self.states):
            m = MemoryFS()
            fill_member(m, st, i)
            self.members.append(m)
            self.mf.add_fs("m%d" % i, m, write=(self.write == i), priority=self.prios[i])
        self.base = [flat(m) for m in self.members]

    def describe(self):
        names = dict(E="empty", A="ancestors p/q only", F="p/q/t is a file", D="p/q/t is a directory")
        return dict(members=[names[s] for s in self.states], priorities=list(self.prios), write=self.write,
                    model_order=self.order)


def where(states, write):
    """Which of the four documented situations the fixture is, for the ancestors and for the path itself."""
    def cls(has):
        w = write is not None and has[write]
        o = any(h for i, h in enumerate(has) if i != write)
        return "both" if w and o else "write-only" if w else "non-write-only" if o else "nowhere"
    return cls([s != "E" for s in states]), cls([s in "FD" for s in states])


def diff_paths(before, after):
    new = sorted(p for p in after if p not in before or after[p] != before[p])
    gone = sorted(p for p in before if p not in after)
    return new, gone


def multi_state_fixtures(rnd, thorough):
    out = []
    for n in (2, 3):
        combos = list(itertools.product(MEMBER_STATES, repeat=n))
        writes = [None] + list(range(n))
        every = [(c, w) for c in combos for w in writes]
        if n == 3 and not thorough:
            # all four situations (write-only / non-write-only / both / nowhere) for ancestors and path, then a sample
            seen, keep = set(), []
            rnd.shuffle(every)
            for c, w in every:
                k = where(c, w) + (w is None,)
                if k not in seen:
                    seen.add(k)
                    keep.append((c, w))
            every = keep + rnd.sample(every, 10)
        for c, w in every:
            prios = [rnd.choice([0, 0, 1, -1]) for _ in range(n)]
            out.append((c, prios, w))
    return out


def multi_state_sweep(rnd, thorough, bad):
    calls, skipped = method_calls(thorough, rnd)
    fixtures = multi_state_fixtures(rnd, thorough)
    order_lines = {}
    for c, prios, w in fixtures:
        order_lines[(c, tuple(prios), w)] = order_line(prios)
    model_prefetch(order_lines.values())
    stats = dict(calls=0, situations=set(), methods=set(), conflicts=0)
    from fs.memoryfs import MemoryFS
    for c, prios, w in fixtures:
        order = parse_nats(model_ask(order_lines[(c, tuple(prios), w)]))
        fx = MultiFixture(c, prios, w, order)
        union_ok = build_union(c, order) is not None
        if not union_ok:
            stats["conflicts"] += 1
        sit = where(c, w)
        stats["situations"].add((len(c), w is None) + sit)
        # quick tier: every method on every fixture, the argument variants thinned out at random
        todo = calls if thorough else [x for x in calls if rnd.random() < 0.45]
        ref = twin = None
        for name, vi, label, factory in todo:
            stats["calls"] += 1
            stats["methods"].add(name)
            if ref is None and union_ok:
                ref = build_union(c, order)
                ref_base = flat(ref)
            if twin is None and w is not None:
                twin = probe_class()()
                fill_member(twin, c[w], w)
                twin.attempted.clear()
                twin_base = flat(twin)
            res = invoke(fx.mf, name, factory)
            after = [flat(m) for m in fx.members]
            ctx = dict(fx.describe(), call=label, ancestors_exist=sit[0], path_exists=sit[1])
            changed = [i for i in range(len(after)) if after[i] != fx.base[i]]
            ref_res = ref_new = ref_gone = None
            if union_ok:
                ref_res = invoke(ref, name, factory)
                ref_after = flat(ref)
                ref_new, ref_gone = diff_paths(ref_base, ref_after)
            # R1: a member other than the write filesystem never gains or changes anything; it may lose a path
            #     only when the call removes that path from the union
            for i in changed:
                if i == w:
                    continue
                new, gone = diff_paths(fx.base[i], after[i])
                if new:
                    bad.append(("a member other than the write filesystem was written to (%s)" % name, ctx, res,
                                dict(member=i, paths=new)))
                elif union_ok and [p for p in gone if p not in ref_gone]:
                    bad.append(("a member other than the write filesystem lost a path the call does not remove (%s)"
                                % name, ctx, res, dict(member=i, paths=gone, union_removes=ref_gone)))
            sig = "%s, path exists: %s" % (name, sit[1])
            if union_ok:
                ref_fails = not ref_res.startswith("ok:")
                attempted = set(ref.attempted)
                ref.attempted.clear()
            if w is not None:
                twin_res = invoke(twin, name, factory)
                twin_after = flat(twin)
                if union_ok:
                    attempted |= twin.attempted
                twin.attempted.clear()
            if not union_ok:
                # a file and a directory collide in the union: only the rules that need no union reference
                if w is None and res.startswith("ok:") and any(diff_paths(fx.base[i], after[i])[0] for i in changed):
                    bad.append(("write succeeded without a write filesystem", ctx, res, changed))
            elif not attempted:
                # R0: the call does not try to create, write or remove anything on the union: it is a query and the
                #     union (first member in model order that has the path) answers it; nothing changes
                allowed = [ref_res]
                if ref_fails and any(("/" + p) not in ref_base for p in used_paths(name, vi)):
                    allowed.append("err:ResourceNotFound")      # no member has the path: nobody to delegate to
                if ref_fails and w is None:
                    allowed.append("err:ResourceReadOnly")
                if res not in allowed:
                    bad.append(("a query is not answered by the highest-priority member that has the path (%s)" % sig,
                                ctx, res, dict(on_the_union=ref_res)))
                elif changed:
                    bad.append(("a query changed a member", ctx, res, changed))
            elif w is None:
                # R2: without a write filesystem a creating / writing call is refused with ResourceReadOnly
                if not ref_fails and ref_new and res != "err:ResourceReadOnly":
                    bad.append(("creating/writing call without a write filesystem did not raise ResourceReadOnly (%s)"
                                % sig, ctx, res, dict(on_the_union=ref_res, would_write=ref_new)))
                elif res.startswith("ok:") and res != ref_res:
                    bad.append(("answer without a write filesystem is not the union's (%s)" % sig, ctx, res,
                                dict(on_the_union=ref_res)))
            else:
                # R3: a creating / writing call is carried out by the write filesystem as if it were called directly,
                #     or - for the parts that read - has the union's outcome with the result in the write filesystem
                as_twin = res == twin_res and after[w] == twin_after
                if ref_fails:
                    as_union = res == ref_res and after[w] == fx.base[w]
                else:
                    as_union = res == ref_res and all(
                        p in after[w] and after[w][p][0] == ref_after[p][0] and
                        after[w][p][1] in (ref_after[p][1], twin_after.get(p, (None, None))[1]) for p in ref_new)
                all_fail = ref_fails and not twin_res.startswith("ok:")
                if all_fail:
                    if res.startswith("ok:") or after[w] != fx.base[w]:
                        bad.append(("a call that fails on the union and on the write filesystem succeeded (%s)" % sig,
                                    ctx, res, dict(on_the_union=ref_res, on_the_write_fs_alone=twin_res)))
                elif not (as_twin or as_union):
                    bad.append(("a creating/writing call was not carried out by the write filesystem (%s)" % sig,
                                ctx, res, dict(on_the_union=ref_res, on_the_write_fs_alone=twin_res,
                                               union_would_write=ref_new,
                                               write_fs_changes=diff_paths(fx.base[w], after[w]),
                                               write_fs_alone_changes=diff_paths(twin_base, twin_after))))
            if w is not None and twin_after != twin_base:
                twin = None
            if union_ok and flat(ref) != ref_base:
                ref = None
            if changed:
                fx.build()
        fx.mf.close()
    return dict(fixtures=len(fixtures), calls=stats["calls"], methods=len(stats["methods"]),
                methods_skipped_no_path=sorted(skipped), situations=len(stats["situations"]),
                file_directory_collision_fixtures=stats["conflicts"], argument_variants=len(calls))


def fsops_strip(s):
    import re
    return re.sub(r"\|(N|Si-?\d+)\)", ")", s)


def run(report):
    proof = common.preflight(report)
    rnd = random.Random(report.seed + 17)
    thorough = report.tier == "thorough"
    bad = []
    total = 0
    nontrivial = set()
    # ---- MountFS
    mcases = mount_cases(rnd, 500 if thorough else 90, thorough)
    # the model is asked everything in two batches (which mounts are accepted; then every route)
    model_prefetch([mountable_line(c[0]) for c in mcases] + [route_line([], mp) for c in mcases for mp in c[0]])
    lines = []
    for case in mcases:
        live = [case[0][i] for i in parse_nats(model_ask(mountable_line(case[0])))]
        lines += [route_line(live, p) for o in case[1] for p in paths_of(o)]
    model_prefetch(lines)
    for ci, case in enumerate(mcases):
        mps = case[0]
        accepted_model = model_ask(mountable_line(mps))
        accepted, refusals, out = run_mount_case(case, report.seed * 1000 + ci)
        if accepted != parse_nats(accepted_model):
            bad.append(("mount acceptance differs from the model (overlap rule)", mps, accepted, accepted_model))
            continue
        for i, err in refusals:
            exp = "err:MountError" if model_ask(route_line([], mps[i])).startswith("ok:") else "err:IllegalBackReference"
            if err != exp:
                bad.append(("mount(): acceptance of a mount point differs from the rule on its normalised path",
                            dict(mounts=mps, mount_point=mps[i]), err, dict(expected=exp)))
        live = [mps[i] for i in accepted]
        for st in out:
            total += 1
            o = st["op"]
            routes = [parse_route(model_route(live, p)) for p in paths_of(o)]
            if "err" in routes:
                continue
            below = set()
            expected_members = set(accepted[r[0]] for r in routes if r is not None)
            # a recursive call on a directory also reaches the filesystems mounted below it
            import fs.path as P
            for p_arg in paths_of(o):
                try:
                    base = P.abspath(P.normpath(p_arg))
                except Exception:
                    continue
                for idx, mp in zip(accepted, live):
                    if P.isbase(base, P.abspath(P.normpath(mp))):
                        below.add(idx)
            nontrivial.add((tuple(mps), o[0], tuple(sorted(expected_members))))
            # essential calls: only the routed member(s) may receive calls or change
            compound = o[0] in ("movedir", "copydir", "removetree", "makedirs", "move", "copy")
            recursive = o[0] in ("movedir", "copydir", "removetree")
            allowed = expected_members | (below if recursive else set())
            stray = [t for t in st["touched"] if t not in allowed]
            stray_changed = [c for c in st["changed"] if c not in allowed]
            if stray_changed or (stray and not compound and o[0] not in ("listdir", "scandir", "isempty")):
                bad.append(("a filesystem other than the routed one was touched", dict(mounts=mps, call=o),
                            st["outcome"], dict(expected=sorted(expected_members), touched=st["touched"],
                                                changed=st["changed"], log=st["log"][:10])))
            # the path handed to the member is the path made relative to the mount
            if not compound and len(routes) == 1 and routes[0] is not None:
                k, rel = routes[0]
                mine = [e for e in st["log"] if e[0] == accepted[k]]
                if mine:
                    import fs.path as P
                    got = mine[0][2]
                    try:
                        same = P.relpath(P.normpath(got)) == rel
                    except Exception:
                        same = False
                    if not same:
                        bad.append(("member received a path that is not the path relative to its mount",
                                    dict(mounts=mps, call=o), st["outcome"], dict(received=got, expected=rel)))
            if not compound and len(routes) == 1 and routes[0] is not None and st["outcome"].startswith("ok:") and \
                    accepted[routes[0][0]] not in st["touched"]:
                bad.append(("the routed filesystem never received the call", dict(mounts=mps, call=o),
                            st["outcome"], dict(routed=routes[0], touched=st["touched"])))
            if all(r is not None for r in routes) and st["default_changed"] and o[0] not in ("makedirs",):
                bad.append(("a call routed to a mount changed the default filesystem", dict(mounts=mps, call=o),
                            st["outcome"], None))
    # ---- MountFS: mount-point spelling classes x call-path spelling classes (twin oracle)
    spell_cov = spelling_sweep(rnd, report.seed, thorough, bad)
    total += spell_cov["calls"] + spell_cov["mounts"]
    # ---- MultiFS
    mtotal = 0
    mcs = [multi_case(rnd) for _ in range(700 if thorough else 140)]
    model_prefetch([order_line(c[0]) for c in mcs])
    for ci, case in enumerate(mcs):
        steps, b, order = run_multi_case(case, report.seed * 2000 + ci)
        mtotal += steps
        nontrivial.add(("multi", tuple(case[0]), case[1]))
        for x in b:
            bad.append((x[0], dict(priorities=case[0], write=case[1], call=x[1]), x[2], x[3]))
    total += mtotal
    # ---- MultiFS: every FS method x where the path and its ancestors live
    state_cov = multi_state_sweep(rnd, thorough, bad)
    total += state_cov["calls"]
    seen = set()
    pending_seen = {}
    for why, ctx, outc, extra in bad:
        sig = why
        known = report.known_match(sig)
        if known:
            report.known_finding(known)
            continue
        if sig in PENDING_FINDINGS:
            pending_seen[sig] = pending_seen.get(sig, 0) + 1
            continue
        if sig in seen or len(seen) >= 8:
            continue
        seen.add(sig)
        report.violation(dict(kind="misrouted", why=why, context=json.loads(json.dumps(ctx, default=repr)),
                              outcome=outc, detail=json.loads(json.dumps(extra, default=repr)),
                              theorem="Props/C17.v"))
    cov = dict(evaluations=total, distinct_nontrivial=len(nontrivial),
               rule="MountFS: every ordered set of <= 3 mount points from {/a, /ab, /a/b, /c, /} (half of them written "
                    "in a non-normal spelling) with pre-filled recording members x random histories (odd spellings) - "
                    "expected member and relative path from the extracted routing model; plus every mount-point "
                    "spelling class x every call-path spelling class with the routed member's own answer as oracle; "
                    "MultiFS: 1-4 members, priorities from {0,0,1,-1}, any write layer or none x random histories; "
                    "plus every public FS method x where the path / its ancestors live x 2-3 members x write member "
                    "or none; non-trivial = distinct (configuration, call kind, routed members)",
               samples=[dict(mounts=mcases[0][0], history=[list(map(str, o)) for o in mcases[0][1]][:4])],
               disagreements_checked=len(bad), multifs_steps=mtotal,
               mount_spelling_sweep=spell_cov, multifs_member_state_sweep=state_cov,
               spelling_classes=[n for n, _ in SPELLINGS],
               pending_findings_seen=pending_seen,
               traces_validated_against_impl=total - len(bad))
    # state models of MultiFS / MountFS over the MemoryFS model (Route/Composite*.v): outcome and every member tree per call
    import h_composite
    cov.update(h_composite.run_composite_checks(report, random.Random(report.seed + 1700), report.tier))
    return report.finish(proof, cov, assumptions=[
        "derived calls (move/copy/movedir/copydir/removetree/makedirs) may touch every member their path arguments "
        "route to; members are MemoryFS instances behind recording WrapFS proxies",
        "spelling sweep: the model (Route.v mount_add / mount_delegate, which normalise the mount point) says which "
        "mounts are accepted and where a call goes; the expected outcome and effect are those of the same call made "
        "directly on an identically filled twin of the routed member with the relative path; the default tree is "
        "expected to contain the normalised mount points (computed with fs.path.normpath, checked against the model "
        "by C12); a refused mount must raise MountError (inside an existing mount) or IllegalBackReference (above "
        "the root) - the exception classes are taken from the documentation, the model only says accepted / refused",
        "member-state sweep: the routing model only gives the member order (route order); the union reference is "
        "that order materialised into one plain MemoryFS in Python, the write-filesystem reference is a twin of the "
        "write member. A call is a query when it attempts none of the documented mutating primitives (makedir, "
        "openbin in a writing mode, setinfo, remove, removedir) on either reference: it must give the union's answer "
        "(ResourceNotFound also accepted when no member has the path). Otherwise it must behave exactly like the "
        "same call on the write filesystem alone, or have the union's outcome with every created path present in "
        "the write filesystem; when both references fail only 'fails and changes nothing' is required (which error "
        "is not a routing matter); without a write filesystem a call that would create or change something must "
        "raise ResourceReadOnly; members other than the write filesystem may only lose paths the call removes from "
        "the union. Fixtures where a file and a directory collide across members are run with the member-change "
        "rules only (no plain filesystem can represent that union)"])


def replay(report, path):
    with open(path) as fh:
        d = json.load(fh)
    if d.get("kind") == "composite-differs-from-model":
        import h_composite
        return h_composite.replay_composite(d)
    print(json.dumps(d, indent=1)[:3000])
    return 1
