"""C17 — MountFS and MultiFS route every call by their documented rule.

Members are recording proxies (WrapFS subclasses logging every call they receive) over
MemoryFS with pre-existing content. For every call of random histories the log and the
member trees are compared with what the routing model (Route/Route.v, extracted) predicts:
MountFS: exactly the member whose mount point is a whole-component prefix of the normalised
path (first in mount order), with the path made relative; MultiFS: reads answered by the
first member in (priority, insertion) order that has the path, listings de-duplicated
unions, writes only on the write filesystem."""
from __future__ import print_function

import itertools
import json
import random

import common
import fsops
import genhist
from common import tok

# TODO(main): signatures of misbehaviour of the UNCHANGED library exposed by the new coverage; they are routed
# through report.known_match() (printed as KNOWN-FINDING once registered in known_findings.json) and, until
# then, kept from failing the check by this list.
PENDING_FINDINGS = []    # islink through MountFS/MultiFS: repaired in /repo 07337ab; move_file into a MultiFS whose
#                          non-write OS-backed member holds the name: registered in known_findings.json

LOGGED = ("getinfo", "listdir", "makedir", "openbin", "remove", "removedir", "setinfo", "scandir",
          "open", "makedirs", "move", "copy", "movedir", "copydir", "removetree", "exists", "isdir",
          "isfile", "upload", "download", "writebytes", "readbytes", "writetext", "readtext",
          "appendbytes", "create", "touch", "getsize", "gettype", "isempty", "settimes", "writefile")


def make_recorder(log, ident):
    from fs.wrapfs import WrapFS

    class Rec(WrapFS):
        pass

    def wrap(name):
        orig = getattr(WrapFS, name)

        def f(self, *a, **kw):
            if a and isinstance(a[0], str):
                log.append((ident, name, a[0]))
            return orig(self, *a, **kw)
        f.__name__ = name
        return f
    for n in LOGGED:
        if hasattr(WrapFS, n):
            setattr(Rec, n, wrap(n))
    return Rec


def prefill(m, rnd, tag):
    for d in rnd.sample(["a", "ab", "a/b", "c", "x"], rnd.randint(0, 3)):
        m.makedirs(d, recreate=True)
        m.writebytes(d + "/f" + tag, tag.encode())
    if rnd.random() < 0.7:
        m.writebytes("top" + tag, tag.encode())
    if rnd.random() < 0.5:
        m.writebytes("shared", tag.encode())


MOUNT_TARGETS = ["/a", "/ab", "/a/b", "/c", "/"]


def _sp(root, one, many=None):
    """Spelling of a normalised absolute path: (text for the root, f(body) for one component, f(comps) for more)."""
    def f(norm):
        comps = [c for c in norm.split("/") if c]
        if not comps:
            return root
        if len(comps) > 1 and many is not None:
            return many(comps)
        return one("/".join(comps))
    return f


# every way of writing the same location; the two 'climb' classes leave the root and must be refused
SPELLINGS = [
    ("abs", _sp("/", lambda b: "/" + b)),
    ("rel", _sp("", lambda b: b)),
    ("abs-trailing-slash", _sp("/", lambda b: "/" + b + "/")),
    ("rel-trailing-slash", _sp("./", lambda b: b + "/")),
    ("dot-lead", _sp(".", lambda b: "./" + b)),
    ("dot-tail", _sp("/.", lambda b: "/" + b + "/.")),
    ("dot-mid", _sp("/./", lambda b: "/./" + b, lambda cs: "/" + "/./".join(cs))),
    ("double-slash-lead", _sp("//", lambda b: "//" + b)),
    ("double-slash-mid", _sp("/.//", lambda b: b + "//", lambda cs: "//".join(cs))),
    ("dotdot-lead", _sp("zz/..", lambda b: "zz/../" + b)),
    ("dotdot-lead-abs", _sp("/zz/../", lambda b: "/zz/../" + b)),
    ("dotdot-mid", _sp("/zz/yy/../..", lambda b: "/zz/.././" + b,
                       lambda cs: cs[0] + "/zz/../" + "/".join(cs[1:]))),
    ("dotdot-tail", _sp("zz/../", lambda b: b + "/zz/..")),
    ("climb-above-root", _sp("..", lambda b: "../" + b)),
    ("climb-above-root-inside", _sp("/zz/../../", lambda b: "/" + b + "/.." * (b.count("/") + 2) + "/" + b)),
]
SPELL = dict(SPELLINGS)
STAYING = [n for n, _ in SPELLINGS if not n.startswith("climb")]
CLIMBING = [n for n, _ in SPELLINGS if n.startswith("climb")]


def snap(m):
    return fsops.canon_tree(fsops.snap_memoryfs(m), times=False)


def mount_cases(rnd, n, thorough):
    cases = []
    sets = []
    for k in (1, 2, 3):
        for combo in itertools.permutations(MOUNT_TARGETS, k):
            sets.append(list(combo))
    for _ in range(n):
        mps = list(rnd.choice(sets))
        # the mount-point argument is a path like any other: half of them are written in a non-normal form
        for i in range(len(mps)):
            if rnd.random() < 0.5:
                mps[i] = SPELL[rnd.choice(STAYING if rnd.random() < 0.9 else CLIMBING)](mps[i])
        g = genhist.Gen(rnd, odd=0.2, spell=0.25)
        # seed the generator's shadow so that paths below the mount points are likely
        for mp in mps:
            try:
                g.shadow.makedirs(mp, recreate=True)
            except Exception:
                pass
        cases.append((mps, g.history(rnd.randint(3, 10)), rnd.random()))
    return cases


def run_mount_case(case, rnd_seed):
    from fs.mountfs import MountFS
    from fs.memoryfs import MemoryFS
    mps, hist = case[0], case[1]
    rnd = random.Random(rnd_seed)
    log = []
    mf = MountFS()
    members = []
    accepted = []
    refusals = []
    for i, mp in enumerate(mps):
        inner = MemoryFS()
        prefill(inner, rnd, str(i))
        rec = make_recorder(log, i)(inner)
        try:
            mf.mount(mp, rec)
            accepted.append(i)
        except Exception as e:
            refusals.append((i, "err:" + type(e).__name__))
        members.append(inner)
    out = []
    for o in hist:
        before = [snap(m) for m in members]
        default_before = snap(mf.default_fs)
        del log[:]
        res = fsops.execute(mf, o)
        touched = sorted(set(e[0] for e in log))
        changed = [i for i, m in enumerate(members) if snap(m) != before[i]]
        out.append(dict(op=o, outcome=res, log=list(log), touched=touched, changed=changed,
                        default_changed=snap(mf.default_fs) != default_before))
    mf.close()
    return accepted, refusals, out


MODEL_CACHE = {}


def model_prefetch(lines):
    """One driver process for many questions (a process start costs ~40 ms)."""
    todo = sorted(set(l for l in lines if l not in MODEL_CACHE))
    if todo:
        for l, a in zip(todo, common.run_model_parallel(todo)):
            MODEL_CACHE[l] = a


def model_ask(line):
    if line not in MODEL_CACHE:
        MODEL_CACHE[line] = common.run_model([line])[0]
    return MODEL_CACHE[line]


def route_line(mps, path):
    return ("route mount %s %d %s" % (tok(path), len(mps), " ".join(tok(m) for m in mps))).rstrip()


def mountable_line(mps):
    return "route mountable " + " ".join(tok(m) for m in mps)


def parse_nats(s):
    return [int(x[1:]) for x in s[1:-1].split(";") if x]


def order_line(prios):
    return "route order " + " ".join(("1 %d" % -p) if p < 0 else ("0 %d" % p) for p in prios)


def model_route(mps, path):
    return model_ask(route_line(mps, path))


def paths_of(o):
    if o[0] in ("move", "copy", "movedir", "copydir"):
        return [o[1], o[2]]
    return [o[1]]


def parse_route(s):
    """ok:N -> None (default fs) ; ok:S(i<k>|s...) -> (k, relpath) ; err -> 'err'"""
    if not s.startswith("ok:"):
        return "err"
    if s == "ok:N":
        return None
    body = s[5:-1]
    k, p = body.split("|")
    return (int(k[1:]), common.untok(p[1:] if len(p) > 1 else "-") if False else
            "".join(chr(int(x)) for x in p[1:].split(",")) if len(p) > 1 else "")


def multi_case(rnd):
    n = rnd.randint(1, 4)
    prios = [rnd.choice([0, 0, 1, -1]) for _ in range(n)]
    write = rnd.choice([None] + list(range(n)))
    g = genhist.Gen(rnd, odd=0.1, spell=0.1)
    for d in ("a", "ab", "c"):
        g.shadow.makedirs(d, recreate=True)
    g.shadow.writebytes("shared", b"s")
    g.shadow.writebytes("a/f0", b"0")
    hist = g.history(rnd.randint(3, 9))
    # systematic: every writing way of reaching a file that may live in a non-write member
    target = rnd.choice(["shared", "a/f0", "top0", "top1", "a/f1", "c/f2"])
    how = rnd.choice([("openwrite", target, m, b"W") for m in ("r+", "r+b", "w", "a", "a+", "w+", "x")] +
                     [("writebytes", target, b"W"), ("appendbytes", target, b"W"), ("touch", target),
                      ("create", target, True), ("setinfo", target, 3), ("remove", target), ("makedir", "a/newd", False)])
    hist.insert(rnd.randint(0, len(hist)), how)
    return prios, write, hist


READS = ("getinfo", "readbytes", "exists", "isdir", "isfile", "getsize", "gettype", "openread")
WRITES = ("makedir", "makedirs", "writebytes", "appendbytes", "create", "touch", "openwrite", "setinfo")


def run_multi_case(case, seed):
    from fs.multifs import MultiFS
    from fs.memoryfs import MemoryFS
    prios, write, hist = case
    rnd = random.Random(seed)
    log = []
    mf = MultiFS()
    members = []
    for i, p in enumerate(prios):
        inner = MemoryFS()
        prefill(inner, rnd, str(i))
        members.append(inner)
        mf.add_fs("m%d" % i, make_recorder(log, i)(inner), write=(write == i), priority=p)
    order = parse_nats(model_ask(order_line(prios)))
    bad = []
    steps = 0
    for o in hist:
        steps += 1
        before = [snap(m) for m in members]
        del log[:]
        res = fsops.execute(mf, o)
        changed = [i for i, m in enumerate(members) if snap(m) != before[i]]
        name = o[0]
        if name == "openwrite":
            from fs.mode import Mode
            try:
                writing = Mode(o[2]).writing
            except Exception:
                writing = None
        else:
            writing = name in WRITES
        # (1) only the write filesystem may change on creating/writing calls
        if name in WRITES and writing is not False:
            illegal = [i for i in changed if i != write]
            if illegal:
                bad.append(("write reached a member other than write_fs", o, res, illegal))
            if write is None and res.startswith("ok:") and name != "openwrite" and \
                    not (name == "create" and res == "ok:F"):     # create(existing, wipe=False) writes nothing
                bad.append(("write succeeded without a write filesystem", o, res, changed))
            if write is None and res.startswith("err:") and res != "err:ResourceReadOnly" and \
                    not res.startswith("err:Illegal") and not res.startswith("err:InvalidChars"):
                bad.append(("write without write_fs must raise ResourceReadOnly", o, res, changed))
        # (2) reads are answered by the first member in model order that has the path
        if name in ("readbytes", "getinfo", "getsize"):
            holders = []
            for i in order:
                try:
                    if members[i].exists(o[1]):
                        holders.append(i)
                except Exception:
                    holders = None
                    break
            if holders is not None:
                if holders:
                    exp = fsops.execute(members[holders[0]], o)
                    if fsops_strip(res) != fsops_strip(exp):
                        bad.append(("read not answered by the highest-priority member holding the path",
                                    o, res, dict(expected=exp, order=order, holders=holders)))
                elif res.startswith("ok:"):
                    bad.append(("read succeeds although no member has the path", o, res, order))
        # (3) listings are de-duplicated unions
        if name == "listdir":
            union, any_dir = [], False
            for i in order:
                try:
                    ns = members[i].listdir(o[1])
                    any_dir = True
                    for x in ns:
                        if x not in union:
                            union.append(x)
                except Exception:
                    pass
            if any_dir:
                exp = "ok:" + common.r_list(common.r_str, sorted(union))
                got = res if not res.startswith("ok:[") else "ok:[" + ";".join(sorted(
                    res[4:-1].split(";"), key=lambda s: [int(v) for v in s[1:].split(",")] if len(s) > 1 else [])) + "]"
                exp2 = "ok:[" + ";".join(sorted((common.r_str(x) for x in union),
                                                key=lambda s: [int(v) for v in s[1:].split(",")] if len(s) > 1 else [])) + "]"
                if got != exp2:
                    bad.append(("listdir is not the de-duplicated union", o, res, exp2))
            elif res.startswith("ok:"):
                bad.append(("listdir succeeds although no member has the directory", o, res, order))
        # (4) pure queries never change any member
        if name in READS + ("listdir", "scandir", "isempty") and name != "openread" and changed:
            bad.append(("a query changed a member", o, res, changed))
    mf.close()
    return steps, bad, order


# --------------------------------------------------------------------------- MountFS: spellings sweep
#
# mount-point spelling class x call-path spelling class, with the twin oracle: the call on the MountFS must have
# the outcome and the effect of the same call made directly on the routed member with the relative path (or on
# the default tree with the raw path), where member and relative path come from the extracted routing model.

SINGLE_OPS = [
    lambda p: ("exists", p), lambda p: ("isdir", p), lambda p: ("isfile", p), lambda p: ("getinfo", p),
    lambda p: ("listdir", p), lambda p: ("scandir", p), lambda p: ("readbytes", p), lambda p: ("getsize", p),
    lambda p: ("gettype", p), lambda p: ("isempty", p), lambda p: ("openread", p, "rb"),
    lambda p: ("writebytes", p, b"W"), lambda p: ("appendbytes", p, b"A"), lambda p: ("makedir", p, False),
    lambda p: ("makedir", p, True), lambda p: ("create", p, True), lambda p: ("touch", p),
    lambda p: ("openwrite", p, "w", b"O"), lambda p: ("openwrite", p, "a", b"P"), lambda p: ("setinfo", p, 3),
    lambda p: ("remove", p), lambda p: ("removedir", p),
]
# pairs (earlier target, later target): the later one lies onto / inside the earlier one, or is unrelated
OVERLAPS = [("/a", "/a"), ("/a", "/a/b"), ("/", "/c"), ("/", "/"), ("/a/b", "/a"), ("/a", "/ab"), ("/ab", "/a/b")]


def call_targets(targets):
    out = ["/", "/x", "/zz/new", "/top0", "/ab", "/a/bc", "/a", "/c"]
    for t in targets:
        b = t.rstrip("/")
        out += [t, b + "/top0", b + "/top1", b + "/top2", b + "/shared", b + "/a", b + "/a/f0", b + "/ab/f1",
                b + "/new", b + "/new/deep", b + "x", b + "/x/f0", b + "/a/b", b + "/c/f1"]
    return out


def spelling_fixtures(rnd, thorough):
    """[(mount-point arguments, their classes, [(call, call-path class)])] covering every pair of classes."""
    names = [n for n, _ in SPELLINGS]
    fixtures = []
    rounds = 4 if thorough else 1

    def calls_for(targets, cclass, k):
        cs = []
        for _ in range(k):
            p = SPELL[cclass](rnd.choice(call_targets(targets)))
            cs.append((rnd.choice(SINGLE_OPS)(p), cclass))
        return cs
    for _ in range(rounds):
        # (a) every mount-point class x every call-path class
        for mclass in names:
            for cclass in names:
                k = rnd.choice([1, 1, 2, 2, 3])
                targets = [rnd.choice(MOUNT_TARGETS) for _ in range(k)]
                classes = [rnd.choice(STAYING) if rnd.random() < 0.6 else "abs" for _ in range(k)]
                classes[rnd.randrange(k)] = mclass
                args = [SPELL[c](t) for c, t in zip(classes, targets)]
                calls = calls_for(targets, cclass, 5 if thorough else 3)
                # always one call right below the point written in class mclass
                t = targets[classes.index(mclass)]
                calls.append((rnd.choice(SINGLE_OPS)(SPELL[cclass](t.rstrip("/") + "/" + rnd.choice(
                    ["top0", "top1", "shared", "new", "a/f0"]))), cclass))
                fixtures.append((args, classes, calls))
        # (b) every mount-point class for a point that normalises onto / into / next to an earlier mount
        for mclass in names:
            for first, second in OVERLAPS:
                c0 = rnd.choice(STAYING)
                args = [SPELL[c0](first), SPELL[mclass](second)]
                cclass = rnd.choice(names)
                fixtures.append((args, [c0, mclass], calls_for([first, second], cclass, 3)))
    return fixtures


def op_with_path(o, p):
    return (o[0], p) + tuple(o[2:])


def run_spelling_fixture(fx, seed, bad, stats, when=None, kind="spelling"):
    """Replay the calls on the MountFS and on the twin members; appends findings to bad.
    when[i] = number of calls made BEFORE mount argument i is mounted (non-decreasing; default: every mount
    happens before the first call).  Calls made before a mount are routed by the mounts that exist then."""
    from fs.mountfs import MountFS
    from fs.memoryfs import MemoryFS
    import fs.path as P
    args, classes, calls = fx[:3]
    when = list(when) if when is not None else [0] * len(args)
    ctx = dict(mount_arguments=args, mount_classes=classes)
    if any(when):
        ctx["calls_made_before_each_mount"] = when
    tail = "mount-point / call-path spelling" if kind == "spelling" else "mount() interleaved with calls"
    expected_ok = parse_nats(model_ask(mountable_line(args)))
    log = []
    mf = MountFS()
    members, twins, accepted = [], [], []
    default_twin = MemoryFS()
    for i, mp in enumerate(args):
        inner, twin = MemoryFS(), MemoryFS()
        prefill(inner, random.Random("%d/%d" % (seed, i)), str(i))
        prefill(twin, random.Random("%d/%d" % (seed, i)), str(i))
        members.append(inner)
        twins.append(twin)

    def do_mount(i):
        mp = args[i]
        try:
            mf.mount(mp, make_recorder(log, i)(members[i]))
            res = "ok"
        except Exception as e:  # noqa
            res = "err:" + type(e).__name__
        stats["mounts"] += 1
        # documented: refused (MountError) inside an existing mount; a point above the root is not a path
        if i in expected_ok:
            exp = "ok"
        elif model_ask(route_line([], mp)).startswith("ok:"):
            exp = "err:MountError"
        else:
            exp = "err:IllegalBackReference"
        if res != exp:
            bad.append(("mount(): acceptance of a mount point differs from the rule on its normalised path",
                        dict(ctx, mount_point=mp, spelling=classes[i]), res, dict(expected=exp)))
            return False
        if res == "ok":
            accepted.append(i)
            # the mount point is a directory of the default tree from now on
            default_twin.makedirs(P.abspath(P.normpath(mp)), recreate=True)
        return True
    mounted = 0
    for j in range(len(calls) + 1):
        while mounted < len(args) and when[mounted] <= j:
            if not do_mount(mounted):
                mf.close()
                return
            mounted += 1
        if j == len(calls):
            break
        o, cclass = calls[j]
        live = [args[i] for i in accepted]
        stats["calls"] += 1
        stats["pairs"].add((tuple(sorted(set(classes))), cclass))
        if len(accepted) < len(expected_ok):
            stats["early"] = stats.get("early", 0) + 1
        route = parse_route(model_ask(route_line(live, o[1])))
        del log[:]
        res = fsops.execute(mf, o)
        touched = sorted(set(e[0] for e in log))
        c2 = dict(ctx, call=o, call_path_spelling=cclass, mounted_so_far=live)
        if route == "err":
            if res != "err:IllegalBackReference" or touched:
                bad.append(("a call path above the root was not refused", c2, res, dict(touched=touched)))
            continue
        if route is None:
            exp = fsops.execute(default_twin, o)
            want = []
        else:
            k, rel = route
            exp = fsops.execute(twins[accepted[k]], op_with_path(o, rel))
            want = [accepted[k]]
            if o[0] == "getinfo" and rel in ("", "/") and exp.startswith("ok:(s|"):
                # a mount point is named as in the directory that lists it (documented rule; /repo c991532)
                nm = P.basename(P.abspath(P.normpath(o[1])))
                if nm:
                    exp = "ok:(" + fsops.r_str(nm) + exp[len("ok:(s"):]
        if route is None and o[0] in ("scandir", "isempty", "filterdir"):
            # scanning a directory of the default filesystem asks the filesystems mounted directly inside it for the
            # info of their root (a mount point is reported as getinfo reports it; /repo 75d0617)
            want = want + sorted(set(e[0] for e in log if e[1] == "getinfo" and e[2] in ("", "/")))
        stray = [t for t in touched if t not in want]
        if stray:
            bad.append(("a filesystem other than the routed one was touched", c2, res,
                        dict(expected=want, touched=touched, log=log[:6])))
        if res != exp:
            bad.append(("outcome differs from the routed filesystem's own answer (%s)" % tail,
                        c2, res, dict(expected=exp, routed=route)))
            break
        diverged = [i for i in range(len(members)) if snap(members[i]) != snap(twins[i])]
        if diverged or snap(mf.default_fs) != snap(default_twin):
            bad.append(("effect differs from the same call on the routed filesystem (%s)" % tail,
                        c2, res, dict(routed=route, members_diverged=diverged,
                                      default_diverged=snap(mf.default_fs) != snap(default_twin))))
            break
        if route is not None and res.startswith("ok:") and not touched:
            bad.append(("the routed filesystem never received the call", c2, res, dict(routed=route)))
    mf.close()


def spelling_sweep(rnd, seed, thorough, bad):
    fixtures = spelling_fixtures(rnd, thorough)
    lines = []
    for args, classes, calls in fixtures:
        lines.append(mountable_line(args))
        for mp in args:
            lines.append(route_line([], mp))
    model_prefetch(lines)
    lines = []
    for args, classes, calls in fixtures:
        ok = parse_nats(model_ask(mountable_line(args)))
        live = [args[i] for i in ok]
        for o, _c in calls:
            lines.append(route_line(live, o[1]))
    model_prefetch(lines)
    stats = dict(mounts=0, calls=0, pairs=set())
    for fi, fx in enumerate(fixtures):
        run_spelling_fixture(fx, seed * 7919 + fi, bad, stats)
    return dict(fixtures=len(fixtures), mounts=stats["mounts"], calls=stats["calls"],
                mount_point_classes=len(SPELLINGS), call_path_classes=len(SPELLINGS),
                class_pairs_driven=len(set((m, c) for ms, c in stats["pairs"] for m in ms)),
                overlap_shapes=len(OVERLAPS))


# --------------------------------------------------------------------------- MountFS: mount() interleaved with use
#
# The composites of the sweeps above are fully configured before their first call.  Here mount() happens after
# 0 / 1 / several calls, on paths that already have content in the default tree (which the mount then hides), and
# every call is routed by the mounts that exist AT THAT MOMENT (extracted `route mount` on the current list) - i.e.
# the MountFS must behave like a freshly built one with the same mounts.  Same twin oracle as the spelling sweep.

GAPS = (0, 1, 3)
FILE_MAKERS = ("writebytes", "appendbytes", "create", "touch", "openwrite")


def mount_config_fixtures(rnd, thorough):
    import fs.path as P
    sets = []
    for k in (1, 2, 3):
        sets += [list(c) for c in itertools.permutations(MOUNT_TARGETS, k)]
    patterns = {k: list(itertools.product(GAPS, repeat=k)) for k in (1, 2, 3)}
    fixtures = []
    for rnd_i in range(3 if thorough else 1):
        for si, targets in enumerate(sets):
            k = len(targets)
            gaps = patterns[k][(si + rnd_i * 7) % len(patterns[k])]
            if not any(gaps):
                gaps = tuple(rnd.choice(GAPS[1:]) for _ in range(k))      # all-zero = the fully configured case above
            classes = [rnd.choice(STAYING) if rnd.random() < 0.3 else "abs" for _ in range(k)]
            args = [SPELL[c](t) for c, t in zip(classes, targets)]
            calls, when = [], []

            def keep_mountable(o, pending):
                """No FILE at (or above) a point that is mounted later: mount() needs a directory there."""
                if o[0] not in FILE_MAKERS:
                    return o
                try:
                    q = P.abspath(P.normpath(o[1]))
                except Exception:
                    return o
                if any(P.isbase(q, t) for t in pending):
                    return ("makedir", o[1], True)
                return o
            for i, t in enumerate(targets):
                b = t.rstrip("/")
                seeds = [("makedirs", b + "/a", True), ("writebytes", b + "/top0", b"D"), ("writebytes", b + "/dflt", b"D"),
                         ("makedirs", b + "/a/b", True), ("writebytes", b + "/a/f0", b"D")]
                n = gaps[i]
                chosen = seeds[:1] if n == 1 else seeds[:2] + [rnd.choice(seeds[2:])] if n else []
                for o in chosen:
                    if rnd.random() < 0.25:
                        cc = rnd.choice(STAYING)
                        o = keep_mountable(rnd.choice(SINGLE_OPS)(SPELL[cc](rnd.choice(call_targets(targets)))), targets[i:])
                    else:
                        cc = "abs"
                    calls.append((o, cc))
                when.append(len(calls))
            # after the last mount: what was seeded into the default tree, and a few random calls
            for t in targets:
                b = t.rstrip("/")
                for o in rnd.sample([("readbytes", b + "/top0"), ("listdir", b or "/"), ("exists", b + "/dflt"),
                                     ("isdir", b + "/a"), ("getinfo", b or "/"), ("readbytes", b + "/a/f0"),
                                     ("writebytes", b + "/late", b"L"), ("scandir", b or "/")], 3):
                    calls.append((o, "abs"))
            for _ in range(3):
                cc = rnd.choice(STAYING) if rnd.random() < 0.4 else "abs"
                calls.append((rnd.choice(SINGLE_OPS)(SPELL[cc](rnd.choice(call_targets(targets)))), cc))
            fixtures.append((args, classes, calls, when))
    return fixtures


def mount_config_sweep(rnd, seed, thorough, bad):
    fixtures = mount_config_fixtures(rnd, thorough)
    lines = []
    for args, classes, calls, when in fixtures:
        lines.append(mountable_line(args))
        for mp in args:
            lines.append(route_line([], mp))
    model_prefetch(lines)
    lines = []
    for args, classes, calls, when in fixtures:
        ok = parse_nats(model_ask(mountable_line(args)))
        for j, (o, _c) in enumerate(calls):
            lines.append(route_line([args[i] for i in ok if when[i] <= j], o[1]))
    model_prefetch(lines)
    stats = dict(mounts=0, calls=0, pairs=set(), early=0)
    for fi, fx in enumerate(fixtures):
        run_spelling_fixture(fx, seed * 6007 + fi, bad, stats, when=fx[3], kind="config")
    return dict(fixtures=len(fixtures), mounts=stats["mounts"], calls=stats["calls"],
                calls_made_before_the_last_mount=stats["early"],
                gap_patterns=sorted(set(tuple(fx[3]) for fx in fixtures))[:12],
                calls_before_a_mount=list(GAPS))


# --------------------------------------------------------------------------- MultiFS: member-state sweep
#
# every public FS method (reflection) x where the path / its ancestors live (write member only, a non-write
# member only, both, nowhere) x 2-3 members x write member or none.  References: the materialised union in the
# model's priority order (what reads must see) and a twin of the write member (where mutations must go).

T, NEW, DEEP, BELOW, ANC = "p/q/t", "p/q/new", "p/q/new/deep", "p/q/t/c", "p/q"
PATH_VARIANTS = [dict(path=T, src=T, dst=NEW), dict(path=NEW, src=T, dst=DEEP), dict(path=DEEP, src=BELOW, dst=NEW),
                 dict(path=BELOW, src=ANC, dst="p/q2"), dict(path=ANC, src=T, dst="other/new"),
                 dict(path="p/q/t/n", src=T, dst="p/q/t2")]
MEMBER_STATES = "EAFD"      # empty / ancestors only / ancestors + file t / ancestors + directory t (with a child)
SKIP_METHODS = {"close", "lock", "check", "isclosed", "getmeta", "match", "match_glob", "walker_class",
                "desc"}       # desc() names the filesystem object itself
MODE_VARIANTS = ["r", "w", "a", "r+", "x", "w+"]


def fill_member(m, st, i):
    tag = str(i).encode()
    m.writebytes("top%d" % i, tag)
    m.writebytes("shared", tag)
    if st == "E":
        return
    m.makedirs(ANC)
    m.writebytes(ANC + "/u%d" % i, b"u" + tag)
    if st == "F":
        m.writebytes(T, b"t" + tag)
    if st == "D":
        m.makedirs(T)
        m.writebytes(BELOW, b"c" + tag)


def flat(m):
    """path -> (kind, bytes, abstract mtime) of a MemoryFS, through its entry objects."""
    out = {}

    def go(e, p):
        for k, v in e._dir.items():
            q = p + "/" + k
            if v.is_dir:
                out[q] = ("D", None, fsops.canon_mt(v.modified_time))
                go(v, q)
            else:
                out[q] = ("F", v._bytes_file.getvalue(), fsops.canon_mt(v.modified_time))
    go(m.root, "")
    return out


_PROBE = []


def probe_class():
    """MemoryFS that notes when one of the documented mutating primitives (makedir, openbin in a writing mode,
    setinfo / remove, removedir - and MemoryFS's own move, movedir, removetree) is attempted on it."""
    if _PROBE:
        return _PROBE[0]
    from fs.memoryfs import MemoryFS

    class Probe(MemoryFS):
        def __init__(self):
            super(Probe, self).__init__()
            self.attempted = set()

    def flag(name, kinds):
        orig = getattr(MemoryFS, name)

        def f(self, *a, **kw):
            if name == "openbin":
                mode = kw.get("mode", a[1] if len(a) > 1 else "r")
                if not set(str(mode)) & set("wax+"):
                    return orig(self, *a, **kw)
            self.attempted.update(kinds)
            return orig(self, *a, **kw)
        f.__name__ = name
        setattr(Probe, name, f)
    for n in ("makedir", "openbin", "setinfo"):
        flag(n, ("write",))
    for n in ("remove", "removedir", "removetree"):
        flag(n, ("remove",))
    for n in ("move", "movedir"):
        flag(n, ("write", "remove"))
    _PROBE.append(Probe)
    return Probe


def build_union(states, order):
    """The priority-ordered union as one plain MemoryFS; None when a file and a directory collide."""
    from fs.memoryfs import MemoryFS
    u = probe_class()()
    kinds = {}
    for i in reversed(order):
        m = MemoryFS()
        fill_member(m, states[i], i)
        for p, (kind, data, _mt) in sorted(flat(m).items()):
            if kinds.get(p, kind) != kind:
                return None
            kinds[p] = kind
            if kind == "D":
                u.makedirs(p, recreate=True)
            else:
                u.writebytes(p, data)
    u.attempted.clear()
    return u


def method_calls(thorough, rnd):
    """[(method, label, factory)] - factory() -> (args, file object or None); enumerated from fs.base.FS."""
    import inspect
    import io
    import datetime
    import h_reflect
    from fs.base import FS
    out, skipped = [], []
    for name in h_reflect.public_methods():
        if name in SKIP_METHODS:
            skipped.append(name)
            continue
        try:
            params = [p for p in inspect.signature(getattr(FS, name)).parameters.values()
                      if p.kind not in (p.VAR_POSITIONAL, p.VAR_KEYWORD) and p.name != "self"]
        except (TypeError, ValueError):
            skipped.append(name)
            continue
        pnames = [p.name for p in params]
        if not set(pnames) & {"path", "dir_path", "src_path"}:
            if name != "tree":
                skipped.append(name)
                continue
        textual = name in ("writetext", "appendtext", "settext")
        modes = MODE_VARIANTS if "mode" in pnames else [None]
        flags = [False, True] if set(pnames) & {"wipe", "create", "overwrite", "recreate"} else [None]
        for vi, pv in enumerate(PATH_VARIANTS):
            for mode in modes:
                for flag in flags:
                    def factory(params=params, pv=pv, mode=mode, flag=flag, textual=textual, name=name):
                        args, fobj = [], None
                        for p in params:
                            n = p.name
                            if n in ("path", "dir_path"):
                                args.append(pv["path"])
                            elif n == "src_path":
                                args.append(pv["src"])
                            elif n == "dst_path":
                                args.append(pv["dst"])
                            elif n == "data":
                                args.append(b"DATA")
                            elif n == "contents":
                                args.append(u"TEXT" if textual else b"DATA")
                            elif n == "text":
                                args.append(u"TEXT")
                            elif n == "file":
                                fobj = io.BytesIO(b"FILE" if name not in ("download", "getfile") else b"")
                                args.append(fobj)
                            elif n == "mode":
                                args.append(mode)
                            elif n == "info":
                                args.append({"details": {"modified": fsops.MT_BASE + 7}})
                            elif n == "namespaces":
                                args.append(["details"])
                            elif n == "name" and name == "hash":
                                args.append("md5")
                            elif n in ("wipe", "create", "overwrite", "recreate"):
                                args.append(flag)
                            elif n == "modified" and name == "settimes":
                                args.append(datetime.datetime.utcfromtimestamp(fsops.MT_BASE + 9))
                            elif p.default is not inspect.Parameter.empty:
                                args.append(p.default)
                            else:
                                args.append(None)
                        return args, (fobj if name in ("download", "getfile") else None)
                    label = "%s(%s%s%s)" % (name, ",".join(repr(pv[k]) for k in ("path", "src", "dst")
                                                            if {"path": {"path", "dir_path"}, "src": {"src_path"},
                                                                "dst": {"dst_path"}}[k] & set(pnames)),
                                            "" if mode is None else ",mode=%r" % mode,
                                            "" if flag is None else ",flag=%r" % flag)
                    out.append((name, vi, label, factory))
                if name == "tree":
                    break
            if name == "tree":
                break
    return out, skipped


def used_paths(name, vi):
    import inspect
    from fs.base import FS
    pn = set(inspect.signature(getattr(FS, name)).parameters)
    pv = PATH_VARIANTS[vi]
    return [pv[k] for k, ns in (("path", ("path", "dir_path")), ("src", ("src_path",))) if pn & set(ns)]


def render_value(v):
    import datetime
    from fs.info import Info
    from fs.base import FS
    if v is None or isinstance(v, (bool, int, float, str, bytes)):
        return repr(v)
    if isinstance(v, Info):
        raw = v.raw
        d = raw.get("details")
        return "Info(%r,%r,%s)" % (raw["basic"]["name"], raw["basic"]["is_dir"],
                                   "-" if d is None else "%r@%s" % (0 if raw["basic"]["is_dir"] else d.get("size"),
                                                                    fsops.canon_mt(d.get("modified"))))
    if isinstance(v, datetime.datetime):
        import calendar
        return "time:" + fsops.canon_mt(calendar.timegm(v.utctimetuple()))
    if isinstance(v, FS):
        return "FS:" + type(v).__name__
    if isinstance(v, (list, tuple)):
        return "[" + ",".join(sorted(render_value(x) for x in v)) + "]"
    if isinstance(v, dict):
        return "{" + ",".join(sorted("%r:%s" % (k, render_value(x)) for k, x in v.items())) + "}"
    return "<" + type(v).__name__ + ">"


def invoke(obj, name, factory):
    """Outcome text of one reflected call; returned handles are used (written / read) and closed."""
    import contextlib
    import inspect
    import io
    import signal
    args, fobj = factory()
    old = signal.signal(signal.SIGALRM, fsops._alarm)
    signal.alarm(5)
    try:
        try:
            with contextlib.redirect_stdout(io.StringIO()):
                r = getattr(obj, name)(*args)
            if inspect.isgenerator(r) or (hasattr(r, "__next__") and not hasattr(r, "read")):
                r = list(r)
            if hasattr(r, "read") and hasattr(r, "close"):
                parts = []
                try:
                    if r.writable():
                        try:
                            r.write(b"H")
                        except TypeError:
                            r.write(u"H")
                        parts.append("written")
                    if r.readable():
                        r.seek(0)
                        parts.append(repr(r.read()))
                finally:
                    r.close()
                out = "ok:handle:" + "|".join(parts)
            else:
                out = "ok:" + render_value(r)
            if fobj is not None:
                out += "|file=%r" % fobj.getvalue()
            return out
        except fsops.Timeout:
            return "crash:NonTermination"
        except Exception as e:  # noqa
            return common.exc_name(e)
    finally:
        signal.alarm(0)
        signal.signal(signal.SIGALRM, old)


class MultiFixture(object):
    def __init__(self, states, prios, write, order):
        self.states, self.prios, self.write, self.order = states, prios, write, order
        self.mf = None
        self.build()

    def build(self):
        from fs.multifs import MultiFS
        from fs.memoryfs import MemoryFS
        if self.mf is not None:
            self.mf.close()
        self.mf = MultiFS()
        self.members = []
        for i, st in enumerate(self.states):
            m = MemoryFS()
            fill_member(m, st, i)
            self.members.append(m)
            self.mf.add_fs("m%d" % i, m, write=(self.write == i), priority=self.prios[i])
        self.base = [flat(m) for m in self.members]

    def describe(self):
        names = dict(E="empty", A="ancestors p/q only", F="p/q/t is a file", D="p/q/t is a directory")
        return dict(members=[names[s] for s in self.states], priorities=list(self.prios), write=self.write,
                    model_order=self.order)


def where(states, write):
    """Which of the four documented situations the fixture is, for the ancestors and for the path itself."""
    def cls(has):
        w = write is not None and has[write]
        o = any(h for i, h in enumerate(has) if i != write)
        return "both" if w and o else "write-only" if w else "non-write-only" if o else "nowhere"
    return cls([s != "E" for s in states]), cls([s in "FD" for s in states])


def diff_paths(before, after):
    new = sorted(p for p in after if p not in before or after[p] != before[p])
    gone = sorted(p for p in before if p not in after)
    return new, gone


def multi_state_fixtures(rnd, thorough):
    out = []
    for n in (2, 3):
        combos = list(itertools.product(MEMBER_STATES, repeat=n))
        writes = [None] + list(range(n))
        every = [(c, w) for c in combos for w in writes]
        if n == 3 and not thorough:
            # all four situations (write-only / non-write-only / both / nowhere) for ancestors and path, then a sample
            seen, keep = set(), []
            rnd.shuffle(every)
            for c, w in every:
                k = where(c, w) + (w is None,)
                if k not in seen:
                    seen.add(k)
                    keep.append((c, w))
            every = keep + rnd.sample(every, 10)
        for c, w in every:
            prios = [rnd.choice([0, 0, 1, -1]) for _ in range(n)]
            out.append((c, prios, w))
    return out


def multi_state_sweep(rnd, thorough, bad):
    calls, skipped = method_calls(thorough, rnd)
    fixtures = multi_state_fixtures(rnd, thorough)
    order_lines = {}
    for c, prios, w in fixtures:
        order_lines[(c, tuple(prios), w)] = order_line(prios)
    model_prefetch(order_lines.values())
    stats = dict(calls=0, situations=set(), methods=set(), conflicts=0)
    from fs.memoryfs import MemoryFS
    for c, prios, w in fixtures:
        order = parse_nats(model_ask(order_lines[(c, tuple(prios), w)]))
        fx = MultiFixture(c, prios, w, order)
        union_ok = build_union(c, order) is not None
        if not union_ok:
            stats["conflicts"] += 1
        sit = where(c, w)
        stats["situations"].add((len(c), w is None) + sit)
        # quick tier: every method on every fixture, the argument variants thinned out at random
        todo = calls if thorough else [x for x in calls if rnd.random() < 0.45]
        ref = twin = None
        for name, vi, label, factory in todo:
            stats["calls"] += 1
            stats["methods"].add(name)
            if ref is None and union_ok:
                ref = build_union(c, order)
                ref_base = flat(ref)
            if twin is None and w is not None:
                twin = probe_class()()
                fill_member(twin, c[w], w)
                twin.attempted.clear()
                twin_base = flat(twin)
            res = invoke(fx.mf, name, factory)
            after = [flat(m) for m in fx.members]
            ctx = dict(fx.describe(), call=label, ancestors_exist=sit[0], path_exists=sit[1])
            changed = [i for i in range(len(after)) if after[i] != fx.base[i]]
            ref_res = ref_new = ref_gone = None
            if union_ok:
                ref_res = invoke(ref, name, factory)
                ref_after = flat(ref)
                ref_new, ref_gone = diff_paths(ref_base, ref_after)
            # R1: a member other than the write filesystem never gains or changes anything; it may lose a path
            #     only when the call removes that path from the union
            for i in changed:
                if i == w:
                    continue
                new, gone = diff_paths(fx.base[i], after[i])
                if new:
                    bad.append(("a member other than the write filesystem was written to (%s)" % name, ctx, res,
                                dict(member=i, paths=new)))
                elif union_ok and [p for p in gone if p not in ref_gone]:
                    bad.append(("a member other than the write filesystem lost a path the call does not remove (%s)"
                                % name, ctx, res, dict(member=i, paths=gone, union_removes=ref_gone)))
            sig = "%s, path exists: %s" % (name, sit[1])
            if union_ok:
                ref_fails = not ref_res.startswith("ok:")
                attempted = set(ref.attempted)
                ref.attempted.clear()
            if w is not None:
                twin_res = invoke(twin, name, factory)
                twin_after = flat(twin)
                if union_ok:
                    attempted |= twin.attempted
                twin.attempted.clear()
            if not union_ok:
                # a file and a directory collide in the union: only the rules that need no union reference
                if w is None and res.startswith("ok:") and any(diff_paths(fx.base[i], after[i])[0] for i in changed):
                    bad.append(("write succeeded without a write filesystem", ctx, res, changed))
            elif not attempted:
                # R0: the call does not try to create, write or remove anything on the union: it is a query and the
                #     union (first member in model order that has the path) answers it; nothing changes
                allowed = [ref_res]
                if ref_fails and any(("/" + p) not in ref_base for p in used_paths(name, vi)):
                    allowed.append("err:ResourceNotFound")      # no member has the path: nobody to delegate to
                if ref_fails and w is None:
                    allowed.append("err:ResourceReadOnly")
                if res not in allowed:
                    bad.append(("a query is not answered by the highest-priority member that has the path (%s)" % sig,
                                ctx, res, dict(on_the_union=ref_res)))
                elif changed:
                    bad.append(("a query changed a member", ctx, res, changed))
            elif w is None:
                # R2: without a write filesystem a creating / writing call is refused with ResourceReadOnly
                if not ref_fails and ref_new and res != "err:ResourceReadOnly":
                    bad.append(("creating/writing call without a write filesystem did not raise ResourceReadOnly (%s)"
                                % sig, ctx, res, dict(on_the_union=ref_res, would_write=ref_new)))
                elif res.startswith("ok:") and res != ref_res:
                    bad.append(("answer without a write filesystem is not the union's (%s)" % sig, ctx, res,
                                dict(on_the_union=ref_res)))
            else:
                # R3: a creating / writing call is carried out by the write filesystem as if it were called directly,
                #     or - for the parts that read - has the union's outcome with the result in the write filesystem
                as_twin = res == twin_res and after[w] == twin_after
                if ref_fails:
                    as_union = res == ref_res and after[w] == fx.base[w]
                else:
                    as_union = res == ref_res and all(
                        p in after[w] and after[w][p][0] == ref_after[p][0] and
                        after[w][p][1] in (ref_after[p][1], twin_after.get(p, (None, None))[1]) for p in ref_new)
                all_fail = ref_fails and not twin_res.startswith("ok:")
                if all_fail:
                    if res.startswith("ok:") or after[w] != fx.base[w]:
                        bad.append(("a call that fails on the union and on the write filesystem succeeded (%s)" % sig,
                                    ctx, res, dict(on_the_union=ref_res, on_the_write_fs_alone=twin_res)))
                elif not (as_twin or as_union):
                    bad.append(("a creating/writing call was not carried out by the write filesystem (%s)" % sig,
                                ctx, res, dict(on_the_union=ref_res, on_the_write_fs_alone=twin_res,
                                               union_would_write=ref_new,
                                               write_fs_changes=diff_paths(fx.base[w], after[w]),
                                               write_fs_alone_changes=diff_paths(twin_base, twin_after))))
            if w is not None and twin_after != twin_base:
                twin = None
            if union_ok and flat(ref) != ref_base:
                ref = None
            if changed:
                fx.build()
        fx.mf.close()
    return dict(fixtures=len(fixtures), calls=stats["calls"], methods=len(stats["methods"]),
                methods_skipped_no_path=sorted(skipped), situations=len(stats["situations"]),
                file_directory_collision_fixtures=stats["conflicts"], argument_variants=len(calls))


# --------------------------------------------------------------------------- MultiFS: add_fs() interleaved with use
#
# add_fs after 0 / 1 / several calls, every priority relation (<, =, >) between the late member and the existing
# ones, write=True / False, the same paths present in old and new members.  Oracle: the documented rule evaluated
# on the CURRENT configuration - the member order comes from the extracted model (`route order` on the priorities
# added so far), reads are the first holder's own answer, listings the de-duplicated union, which / iterate_fs /
# get_fs must name what the reads observe, writes land in the member of the latest add_fs(write=True) - and a
# freshly built MultiFS over the very same member objects must give the same answers.

CFG_PATHS = ["shared", "top0", "top1", T, ANC, BELOW, "nope"]
CFG_PATH_OPS = ("readbytes", "getinfo", "exists", "isdir", "which")
CFG_DIRS = ["/", ANC]


def cfg_keys():
    keys = [(n, p) for p in CFG_PATHS for n in CFG_PATH_OPS]
    keys += [(n, d) for d in CFG_DIRS for n in ("listdir", "scandir")]
    keys += [("which-w", "shared"), ("which-w", "nope"), ("iterate_fs", None), ("get_fs", None), ("walk", None)]
    return keys


def cfg_actual(mf, key, members, n_total):
    """One observation on a MultiFS, rendered (member objects are rendered as their index)."""
    n, p = key
    ident = dict((id(m), i) for i, m in enumerate(members))

    def who(pair):
        name, f = pair
        return "%s=%s" % (name, ident.get(id(f), "?" if f is not None else None))
    try:
        if n == "which":
            return "ok:" + who(mf.which(p))
        if n == "which-w":
            return "ok:" + who(mf.which(p, "w"))
        if n == "iterate_fs":
            return "ok:" + ",".join(who(x) for x in mf.iterate_fs())
        if n == "get_fs":
            out = []
            for i in range(n_total):
                try:
                    out.append(who(("m%d" % i, mf.get_fs("m%d" % i))))
                except KeyError:
                    out.append("m%d:KeyError" % i)
            return "ok:" + ",".join(out)
        if n == "walk":
            return "ok:" + ",".join(sorted(mf.walk.files()) + sorted(mf.walk.dirs()))
        if n == "listdir":
            return "ok:" + ",".join(sorted(mf.listdir(p)))
        if n == "scandir":
            return "ok:" + ",".join(sorted("%s/%s" % (i.name, i.is_dir) for i in mf.scandir(p)))
    except Exception as e:  # noqa
        return common.exc_name(e)
    return fsops.execute(mf, (n, p))


def cfg_expected(key, members, added, order, write):
    """The documented answer from the members themselves; None when the rule does not fix it (file/directory
    collisions across members in listings, walk)."""
    n, p = key
    if n == "iterate_fs":
        return "ok:" + ",".join("m%d=%d" % (i, i) for i in order)
    if n == "get_fs":
        return "ok:" + ",".join(("m%d=%d" % (i, i)) if i in added else "m%d:KeyError" % i for i in range(len(members)))
    if n == "which-w":
        return "ok:" + ("None=None" if write is None else "m%d=%d" % (write, write))
    if n == "walk":
        return None
    if n in ("listdir", "scandir"):
        kinds = [("D" if members[i].isdir(p) else "F") for i in order if members[i].exists(p)]
        if not kinds:
            return "err:ResourceNotFound"
        if "F" in kinds:
            return None
        names = {}
        for i in order:
            if members[i].exists(p):
                for info in members[i].scandir(p):
                    names.setdefault(info.name, info.is_dir)
        if n == "listdir":
            return "ok:" + ",".join(sorted(names))
        return "ok:" + ",".join(sorted("%s/%s" % kv for kv in names.items()))
    holders = [i for i in order if members[i].exists(p)]
    if n == "which":
        return "ok:" + ("m%d=%d" % (holders[0], holders[0]) if holders else "None=None")
    if not holders:
        return "ok:F" if n in ("exists", "isdir", "isfile") else "err:ResourceNotFound"
    return fsops.execute(members[holders[0]], (n, p))


def multi_config_fixtures(rnd, thorough):
    """[(priorities, write flags, gaps)]: gaps[k] = what happens between add k and add k+1 (0 calls, 1 call,
    the whole battery)."""
    prio_values = (-1, 0, 1)
    out = []
    for n in (2, 3, 4):
        every = []
        for prios in itertools.product(prio_values, repeat=n):
            write_sets = [()] + [(i,) for i in range(n)] + [tuple(range(n)), (0, n - 1)]
            for ws in sorted(set(write_sets)):
                for gaps in itertools.product(GAPS, repeat=n - 1):
                    if any(gaps):
                        every.append((list(prios), [i in ws for i in range(n)], list(gaps)))
        if n == 2 or thorough and n == 3:
            out += every
        else:
            out += rnd.sample(every, {3: 130, 4: 30}[n] if not thorough else 1500)
    if thorough:
        for _ in range(300):
            n = rnd.randint(2, 5)
            out.append(([rnd.choice([-7, -1, 0, 0, 1, 5]) for _ in range(n)], [rnd.random() < 0.4 for _ in range(n)],
                        [rnd.choice(GAPS) for _ in range(n - 1)]))
    return out


def multi_config_sweep(rnd, thorough, bad):
    from fs.multifs import MultiFS
    from fs.memoryfs import MemoryFS
    fixtures = multi_config_fixtures(rnd, thorough)
    keys = cfg_keys()
    lines = set()
    for prios, writes, gaps in fixtures:
        for k in range(1, len(prios) + 1):
            lines.add(order_line(prios[:k]))
    model_prefetch(sorted(lines))
    stats = dict(observations=0, adds_after_use=0, relations=set(), write_probes=0, fresh_comparisons=0)
    for prios, writes, gaps in fixtures:
        n = len(prios)
        states = [rnd.choice(MEMBER_STATES) for _ in range(n)]
        members = []
        for i in range(n):
            m = MemoryFS()
            fill_member(m, states[i], i)
            members.append(m)
        mf = MultiFS(auto_close=False)
        write = None
        used = 0
        ctx0 = dict(priorities=prios, write_flags=writes, members=states,
                    calls_between_adds=["whole battery" if g == 3 else g for g in gaps])
        failed = False
        for k in range(n):
            mf.add_fs("m%d" % k, members[k], write=writes[k], priority=prios[k])
            if writes[k]:
                write = k
            if k and used:
                stats["adds_after_use"] += 1
                top = max(prios[:k])
                stats["relations"].add(("<" if prios[k] < min(prios[:k]) else ">" if prios[k] > top else
                                        "=" if prios[k] == top else "between", writes[k]))
            added = list(range(k + 1))
            order = parse_nats(model_ask(order_line(prios[:k + 1])))
            gap = gaps[k] if k < n - 1 else 3
            todo = [] if gap == 0 else [rnd.choice(keys)] if gap == 1 else keys
            ctx = dict(ctx0, members_added_so_far=k + 1, calls_made_before_this_add=used, model_order=order,
                       write_member=write)
            seen_now = {}
            for key in todo:
                used += 1
                stats["observations"] += 1
                got = seen_now[key] = cfg_actual(mf, key, members, n)
                exp = cfg_expected(key, members, added, order, write)
                if exp is not None and got != exp:
                    what = "reads" if key[0] in CFG_PATH_OPS[:4] else "listings" if key[0] in ("listdir", "scandir") \
                        else key[0]
                    bad.append(("MultiFS %s do not follow the current configuration (add_fs interleaved with calls)" % what,
                                dict(ctx, call=list(key)), got, dict(expected=exp)))
                    failed = True
                    break
            if failed:
                break
            if gap == 3:
                # a freshly built MultiFS over the very same members answers the same
                fresh = MultiFS(auto_close=False)
                for i in added:
                    fresh.add_fs("m%d" % i, members[i], write=writes[i], priority=prios[i])
                stats["fresh_comparisons"] += 1
                for key in keys:
                    a, b = seen_now[key], cfg_actual(fresh, key, members, n)
                    if a != b:
                        bad.append(("a MultiFS configured while in use differs from a freshly built one with the same "
                                    "members", dict(ctx, call=list(key)), a, dict(freshly_built=b)))
                        failed = True
                        break
                fresh.close()
                if failed:
                    break
                # a write lands in the member of the latest add_fs(write=True) and nowhere else
                before = [flat(m) for m in members]
                o = ("writebytes", "new%d" % k, b"N")
                res = fsops.execute(mf, o)
                used += 1
                stats["write_probes"] += 1
                changed = [i for i, m in enumerate(members) if flat(m) != before[i]]
                if write is None:
                    okay = res == "err:ResourceReadOnly" and not changed
                else:
                    okay = res == "ok:U" and changed == [write] and members[write].readbytes("new%d" % k) == b"N"
                if not okay:
                    bad.append(("after add_fs() on a MultiFS already in use, a write does not go to the current write "
                                "filesystem", dict(ctx, call=o), res, dict(changed_members=changed)))
                    break
        mf.close()
        for m in members:
            m.close()
    return dict(fixtures=len(fixtures), observations=stats["observations"], adds_after_first_use=stats["adds_after_use"],
                late_member_priority_relation_x_write=sorted("%s/write=%s" % r for r in stats["relations"]),
                write_probes=stats["write_probes"], fresh_composite_comparisons=stats["fresh_comparisons"],
                calls_between_adds=["0", "1", "whole battery (%d observations)" % len(keys)])


# --------------------------------------------------------------------------- OS-backed members
#
# Members of the sweeps above are MemoryFS, where everything that is not data / metadata (system paths, URLs,
# links, descriptions, path validation, the os-level fast path of fs.move.move_file) has one trivial answer.
# Here OSFS / TempFS / SubFS(OSFS) members are mixed with MemoryFS ones and every such method is compared with the
# routed member's own answer for the relative path (member and relative path from the extracted routing model).

OS_KINDS = ("os", "temp", "ossub")
QUERIES = [("getsyspath",), ("getospath",), ("hassyspath",), ("geturl", "download"), ("geturl", "fs"),
           ("geturl", "bogus"), ("hasurl", "download"), ("hasurl", "fs"), ("hasurl", "bogus"), ("desc",),
           ("validatepath",), ("islink",), ("getinfo-ns",)]


def make_member(kind, work, idx, rnd, decoys=()):
    """A pre-filled member of the given kind; OS-backed ones also get a symlink and (decoys) a directory that is
    spelled like the mount point with files named like the real ones."""
    import os
    from fs.memoryfs import MemoryFS
    from fs.osfs import OSFS
    from fs.tempfs import TempFS
    tag = str(idx)
    holder = None
    if kind == "mem":
        m = MemoryFS()
    elif kind == "os":
        d = os.path.join(work, "m" + tag)
        os.mkdir(d)
        m = OSFS(d)
    elif kind == "temp":
        m = TempFS(identifier="verif" + tag, temp_dir=work)
    else:
        d = os.path.join(work, "s" + tag)
        os.mkdir(d)
        holder = OSFS(d)
        holder.makedir("inner")
        m = holder.opendir("inner")
    prefill(m, rnd, tag)
    m.writebytes("top" + tag, tag.encode())
    m.writebytes("shared", tag.encode())
    m.writebytes("mv" + tag, b"move-me-" + tag.encode())
    m.writebytes("mw" + tag, b"move-me-too-" + tag.encode())
    for rel in decoys:
        rel = rel.strip("/")
        if rel:
            m.makedirs(rel, recreate=True)
            for n in ("top" + tag, "shared", "mv" + tag):
                m.writebytes(rel + "/" + n, b"decoy")
    if kind != "mem":
        os.symlink("top" + tag, os.path.join(m.getsyspath("/"), "lnk" + tag))
    return m, holder


def store_files(store):
    """path -> bytes of every file (None for a directory) of a member, asked of the member itself."""
    out = {}
    for path, info in store.walk.info():
        out[path] = None if info.is_dir else store.readbytes(path)
    return out


def q_call(fsobj, q, path, rename=None):
    try:
        if q[0] == "getinfo-ns":
            raw = fsobj.getinfo(path, namespaces=["details", "access", "link"]).raw
            raw = dict((k, dict(v)) for k, v in raw.items())
            if rename:
                raw["basic"]["name"] = rename
            return "ok:" + repr(sorted((k, sorted(v.items(), key=repr)) for k, v in raw.items()))
        if q[0] in ("geturl", "hasurl"):
            return "ok:" + repr(getattr(fsobj, q[0])(path, purpose=q[1]))
        return "ok:" + repr(getattr(fsobj, q[0])(path))
    except Exception as e:  # noqa
        return common.exc_name(e)


def desc_ok(text, routed, others, rel):
    """A description names the filesystem the path is routed to (or is that filesystem's own description) and no
    other one."""
    if not text.startswith("ok:"):
        return False
    try:
        own = "ok:" + repr(routed.desc(rel))
    except Exception:  # noqa
        own = None
    if text != own and str(routed) not in text:
        return False
    return not any(str(o) != str(routed) and str(o) in text for o in others)


def compare_query(label, comp_name, q, got, exp, ctx, bad):
    if got != exp:
        bad.append(("a method that is neither data nor metadata is not answered by the routed filesystem (%s.%s)"
                    % (comp_name, q[0]), dict(ctx, call=[q[0], label] + list(q[1:])), got, dict(expected=exp)))
        return False
    return True


def normal_abs(path):
    import fs.path as P
    return "ok:" + repr(P.abspath(P.normpath(path)))


def os_mount_fixtures(rnd, thorough):
    fixtures = []
    for _ in range(3 if thorough else 1):
        for t in MOUNT_TARGETS:
            for kind in OS_KINDS:
                others = [x for x in MOUNT_TARGETS if x != t]
                rnd.shuffle(others)
                k = rnd.choice([0, 1, 2, 2])
                targets = [t] + others[:k]
                kinds = [kind] + [rnd.choice(("mem", "os", "temp", "mem")) for _ in range(k)]
                pairs = list(zip(targets, kinds))
                rnd.shuffle(pairs)
                fixtures.append(pairs)
    return fixtures


def plan_os_mount_fixture(pairs, rnd, thorough):
    """(accepted indices, live mount points, spelled call paths, model lines needed)."""
    args = [t for t, _k in pairs]
    ok = parse_nats(model_ask(mountable_line(args)))
    live = [args[i] for i in ok]
    paths = call_targets(live)
    for i, t in zip(ok, live):
        b, tag = t.rstrip("/"), str(i)
        paths += [b + "/lnk" + tag, b + "/mv" + tag, b + "/a\0b", b + t + "/top" + tag, b + "/top" + tag]
    if not thorough:
        paths = rnd.sample(paths, min(len(paths), 30)) + [t.rstrip("/") + "/top%d" % i for i, t in zip(ok, live)]
    spelled = []
    for pth in paths:
        cc = rnd.choice(STAYING) if rnd.random() < 0.25 and "\0" not in pth else "abs"
        spelled.append(SPELL[cc](pth))
    lines = [route_line(live, pth) for pth in spelled]
    for n, (i, t) in enumerate(zip(ok, live)):
        b, tag, dstb = t.rstrip("/"), str(i), live[(n + 1) % len(live)].rstrip("/")
        lines += [route_line(live, x) for x in (b + "/mv" + tag, dstb + "/in" + tag, dstb + "/mw-in" + tag)]
    return ok, live, spelled, lines


class MoveChecker(object):
    """Runs a file move and compares every store (each member, the default tree, the outside OSFS) with the
    expected effect: the file leaves the routed source, arrives at the routed destination, nothing else changes."""
    def __init__(self, stores, names, ctx, bad, stats):
        self.stores, self.names, self.ctx, self.bad, self.stats = stores, names, ctx, bad, stats
        self.state = [store_files(s_) for s_ in stores]

    def index(self, store):
        return [i for i, s_ in enumerate(self.stores) if s_ is store][0]

    def check(self, what, thunk, src_store, src_rel, dst_store, dst_rel, refused=None):
        import fs.path as P
        data = src_store.readbytes(src_rel)
        try:
            thunk()
            res = "ok"
        except Exception as e:  # noqa
            res = common.exc_name(e)
        self.stats["moves"] += 1
        want = [dict(b) for b in self.state]
        if refused is None:
            want[self.index(src_store)].pop(P.abspath(src_rel), None)
            want[self.index(dst_store)][P.abspath(dst_rel)] = data
        after = self.state = [store_files(s_) for s_ in self.stores]
        if res != (refused or "ok") or after != want:
            diffs = {}
            for si, (a, w) in enumerate(zip(after, want)):
                d = sorted(p_ for p_ in set(a) | set(w) if a.get(p_, "-") != w.get(p_, "-"))
                if d:
                    diffs[self.names[si]] = d
            self.bad.append(("moving a file through a composite with OS-backed members does not move it between the "
                             "routed filesystems (%s)" % what.split(":")[0], dict(self.ctx, call=what), res,
                             dict(expected_outcome=refused or "ok", paths_that_differ_from_the_expected_effect=diffs)))


def run_os_mount_fixture(pairs, plan, rnd, thorough, bad, stats):
    import os
    import shutil
    import tempfile
    import fs.path as P
    from fs.mountfs import MountFS
    from fs.osfs import OSFS
    from fs.move import move_file
    ok, live, spelled, _lines = plan
    work = os.path.realpath(tempfile.mkdtemp(prefix="pyfs2verif_c17_"))
    opened = []
    try:
        mf = MountFS()
        opened.append(mf)
        members, kinds = [], []
        for i in ok:
            t, kind = pairs[i]
            m, holder = make_member(kind, work, i, rnd, decoys=[x for x in MOUNT_TARGETS if x != "/"])
            opened += [m] + ([holder] if holder is not None else [])
            mf.mount(t, m)
            members.append(m)
            kinds.append(kind)
        ctx = dict(mounts=[[t, k] for t, k in zip(live, kinds)])
        for pth in spelled:
            route = parse_route(model_ask(route_line(live, pth)))
            if route == "err":
                continue
            if route is None:
                routed, rel, rename = mf.default_fs, pth, None
            else:
                routed, rel = members[route[0]], route[1]
                rename = P.basename(P.abspath(P.normpath(pth))) if rel in ("", "/") else None
                stats["kinds"].add(kinds[route[0]])
            c2 = dict(ctx, routed=("default" if route is None else list(route)))
            for q in QUERIES:
                stats["queries"] += 1
                stats["methods"].add(q[0])
                got = q_call(mf, q, pth)
                if q[0] == "desc":
                    try:
                        exists = "err:ResourceNotFound" if not routed.exists(rel) else None
                    except Exception as e:  # noqa
                        exists = common.exc_name(e)
                    others = [m for m in members if m is not routed] + ([mf.default_fs] if route is not None else [])
                    if exists is not None:
                        compare_query(pth, "MountFS", q, got, exists, c2, bad)
                    elif not desc_ok(got, routed if route is not None else mf, others, rel) and \
                            not (route is None and desc_ok(got, mf.default_fs, others, rel)):
                        compare_query(pth, "MountFS", q, got, "ok:<a text naming %s>" % routed, c2, bad)
                    continue
                exp = q_call(routed, q, rel, rename)
                if q[0] == "validatepath" and exp.startswith("ok:"):
                    exp = normal_abs(pth)
                compare_query(pth, "MountFS", q, got, exp, c2, bad)
        # ---- moving files between members: the os-level fast path of fs.move.move_file (and MountFS.move)
        out = OSFS(os.path.join(work, "out"), create=True)
        opened.append(out)
        mc = MoveChecker(members + [mf.default_fs, out], ["member %d" % i for i in ok] + ["default", "out"], ctx, bad, stats)
        for n, (i, t, m) in enumerate(zip(ok, live, members)):
            b, tag, dstb = t.rstrip("/"), str(i), live[(n + 1) % len(live)].rstrip("/")
            src, dst, src2, dst2 = b + "/mv" + tag, dstb + "/in" + tag, b + "/mw" + tag, dstb + "/mw-in" + tag
            # is the member reachable at its mount point?
            r = parse_route(model_ask(route_line(live, src)))
            if r in (None, "err") or members[r[0]] is not m or r[1] != "mv" + tag:
                continue
            mc.check("move_file(MountFS -> OSFS): %s" % src, lambda: move_file(mf, src, out, "got" + tag),
                     m, "mv" + tag, out, "got" + tag)
            r2 = parse_route(model_ask(route_line(live, dst)))
            if r2 not in (None, "err"):
                mc.check("move_file(OSFS -> MountFS): %s" % dst, lambda: move_file(out, "got" + tag, mf, dst),
                         out, "got" + tag, members[r2[0]], r2[1])
            r3 = parse_route(model_ask(route_line(live, dst2)))
            if r3 not in (None, "err"):
                mc.check("MountFS.move: %s -> %s" % (src2, dst2), lambda: mf.move(src2, dst2),
                         m, "mw" + tag, members[r3[0]], r3[1])
    finally:
        for o in reversed(opened):
            try:
                o.close()
            except Exception:  # noqa
                pass
        shutil.rmtree(work, ignore_errors=True)


def os_multi_fixtures(rnd, thorough):
    fixtures = []
    for _ in range(3 if thorough else 1):
        for kind in OS_KINDS:
            for n in (2, 3):
                for write in [None] + list(range(n)):
                    kinds = [rnd.choice(("mem", "os", "temp", "ossub")) for _ in range(n)]
                    kinds[rnd.randrange(n)] = kind
                    prios = [rnd.choice([0, 0, 1, -1]) for _ in range(n)]
                    fixtures.append((kinds, prios, write))
    if not thorough:
        fixtures = rnd.sample(fixtures, 12)
    return fixtures


def run_os_multi_fixture(fx, rnd, thorough, bad, stats):
    import os
    import shutil
    import tempfile
    import fs.path as P
    from fs.multifs import MultiFS
    from fs.osfs import OSFS
    from fs.move import move_file
    kinds, prios, write = fx
    work = os.path.realpath(tempfile.mkdtemp(prefix="pyfs2verif_c17_"))
    opened = []
    try:
        mf = MultiFS()
        opened.append(mf)
        members = []
        for i, kind in enumerate(kinds):
            m, holder = make_member(kind, work, i, rnd)
            opened += [m] + ([holder] if holder is not None else [])
            members.append(m)
            mf.add_fs("m%d" % i, m, write=(write == i), priority=prios[i])
        order = parse_nats(model_ask(order_line(prios)))
        ctx = dict(members=kinds, priorities=prios, write=write, model_order=order)
        paths = ["shared", "/", "nope", "a", "a/f0", "ab/f1", "c", "x/f2", "a\0b", "zz/../shared", "/shared/", "./top0"]
        for i in range(len(kinds)):
            paths += ["top%d" % i, "lnk%d" % i, "mv%d" % i]
        for pth in paths:
            try:
                holders = [i for i in order if members[i].exists(pth)]
            except Exception:  # noqa
                holders = []
            c2 = dict(ctx, first_holder=holders[0] if holders else None)
            for q in QUERIES:
                stats["queries"] += 1
                stats["methods"].add(q[0])
                got = q_call(mf, q, pth)
                if holders:
                    stats["kinds"].add(kinds[holders[0]])
                if q[0] == "validatepath":
                    if write is None:
                        continue
                    exp = q_call(members[write], q, pth)
                    exp = normal_abs(pth) if exp.startswith("ok:") else exp
                elif not holders:
                    if "\0" in pth:
                        continue
                    exp = "ok:False" if q[0] in ("hassyspath", "hasurl") else "err:ResourceNotFound"
                elif q[0] == "desc":
                    if not members[holders[0]].hassyspath(pth):
                        if not got.startswith("ok:"):
                            compare_query(pth, "MultiFS", q, got, "ok:<a description>", c2, bad)
                        continue
                    exp = q_call(members[holders[0]], q, pth)
                else:
                    exp = q_call(members[holders[0]], q, pth)
                compare_query(pth, "MultiFS", q, got, exp, c2, bad)
        # ---- fs.move.move_file out of / into the MultiFS
        out = OSFS(os.path.join(work, "out"), create=True)
        opened.append(out)
        mc = MoveChecker(members + [out], ["member %d" % i for i in range(len(members))] + ["out"], ctx, bad, stats)
        check_move = mc.check
        for i, m in enumerate(members):
            tag = str(i)
            check_move("move_file(MultiFS -> OSFS): mv%s" % tag, lambda: move_file(mf, "mv" + tag, out, "got" + tag),
                       m, "mv" + tag, out, "got" + tag)
            # into the MultiFS: a new name, and a name that exists in every member - both are writes
            for dst in ("in" + tag, "shared"):
                how = "move_file(OSFS -> MultiFS, a %s): %s" % ("new name" if dst != "shared" else
                                                               "name that exists in the members", dst)
                out.writebytes("o" + tag, b"from-outside-" + tag.encode())
                mc.state[-1]["/o" + tag] = b"from-outside-" + tag.encode()
                if write is None:
                    check_move(how, lambda: move_file(out, "o" + tag, mf, dst),
                               out, "o" + tag, out, dst, refused="err:ResourceReadOnly")
                else:
                    check_move(how, lambda: move_file(out, "o" + tag, mf, dst),
                               out, "o" + tag, members[write], dst)
    finally:
        for o in reversed(opened):
            try:
                o.close()
            except Exception:  # noqa
                pass
        shutil.rmtree(work, ignore_errors=True)


def os_member_sweep(rnd, thorough, bad):
    stats = dict(queries=0, moves=0, methods=set(), kinds=set())
    mfx = os_mount_fixtures(rnd, thorough)
    model_prefetch([mountable_line([t for t, _k in pairs]) for pairs in mfx])
    plans = [plan_os_mount_fixture(pairs, rnd, thorough) for pairs in mfx]
    model_prefetch([l for pl in plans for l in pl[3]])
    for pairs, plan in zip(mfx, plans):
        run_os_mount_fixture(pairs, plan, rnd, thorough, bad, stats)
    mount_queries, mount_moves = stats["queries"], stats["moves"]
    ufx = os_multi_fixtures(rnd, thorough)
    model_prefetch([order_line(f[1]) for f in ufx])
    for fx in ufx:
        run_os_multi_fixture(fx, rnd, thorough, bad, stats)
    return dict(mountfs_fixtures=len(mfx), multifs_fixtures=len(ufx), member_kinds=["mem"] + list(OS_KINDS),
                routed_member_kinds_reached=sorted(stats["kinds"]), methods=sorted(stats["methods"]),
                mountfs_queries=mount_queries, multifs_queries=stats["queries"] - mount_queries,
                mountfs_file_moves=mount_moves, multifs_file_moves=stats["moves"] - mount_moves)


def fsops_strip(s):
    import re
    return re.sub(r"\|(N|Si-?\d+)\)", ")", s)


def run(report):
    proof = common.preflight(report)
    rnd = random.Random(report.seed + 17)
    thorough = report.tier == "thorough"
    bad = []
    total = 0
    nontrivial = set()
    # ---- MountFS
    mcases = mount_cases(rnd, 500 if thorough else 90, thorough)
    # the model is asked everything in two batches (which mounts are accepted; then every route)
    model_prefetch([mountable_line(c[0]) for c in mcases] + [route_line([], mp) for c in mcases for mp in c[0]])
    lines = []
    for case in mcases:
        live = [case[0][i] for i in parse_nats(model_ask(mountable_line(case[0])))]
        lines += [route_line(live, p) for o in case[1] for p in paths_of(o)]
    model_prefetch(lines)
    for ci, case in enumerate(mcases):
        mps = case[0]
        accepted_model = model_ask(mountable_line(mps))
        accepted, refusals, out = run_mount_case(case, report.seed * 1000 + ci)
        if accepted != parse_nats(accepted_model):
            bad.append(("mount acceptance differs from the model (overlap rule)", mps, accepted, accepted_model))
            continue
        for i, err in refusals:
            exp = "err:MountError" if model_ask(route_line([], mps[i])).startswith("ok:") else "err:IllegalBackReference"
            if err != exp:
                bad.append(("mount(): acceptance of a mount point differs from the rule on its normalised path",
                            dict(mounts=mps, mount_point=mps[i]), err, dict(expected=exp)))
        live = [mps[i] for i in accepted]
        for st in out:
            total += 1
            o = st["op"]
            routes = [parse_route(model_route(live, p)) for p in paths_of(o)]
            if "err" in routes:
                continue
            below = set()
            expected_members = set(accepted[r[0]] for r in routes if r is not None)
            # a recursive call on a directory also reaches the filesystems mounted below it
            import fs.path as P
            for p_arg in paths_of(o):
                try:
                    base = P.abspath(P.normpath(p_arg))
                except Exception:
                    continue
                for idx, mp in zip(accepted, live):
                    if P.isbase(base, P.abspath(P.normpath(mp))):
                        below.add(idx)
            nontrivial.add((tuple(mps), o[0], tuple(sorted(expected_members))))
            # essential calls: only the routed member(s) may receive calls or change
            compound = o[0] in ("movedir", "copydir", "removetree", "makedirs", "move", "copy")
            recursive = o[0] in ("movedir", "copydir", "removetree")
            allowed = expected_members | (below if recursive else set())
            stray = [t for t in st["touched"] if t not in allowed]
            stray_changed = [c for c in st["changed"] if c not in allowed]
            if stray_changed or (stray and not compound and o[0] not in ("listdir", "scandir", "isempty")):
                bad.append(("a filesystem other than the routed one was touched", dict(mounts=mps, call=o),
                            st["outcome"], dict(expected=sorted(expected_members), touched=st["touched"],
                                                changed=st["changed"], log=st["log"][:10])))
            # the path handed to the member is the path made relative to the mount
            if not compound and len(routes) == 1 and routes[0] is not None:
                k, rel = routes[0]
                mine = [e for e in st["log"] if e[0] == accepted[k]]
                if mine:
                    import fs.path as P
                    got = mine[0][2]
                    try:
                        same = P.relpath(P.normpath(got)) == rel
                    except Exception:
                        same = False
                    if not same:
                        bad.append(("member received a path that is not the path relative to its mount",
                                    dict(mounts=mps, call=o), st["outcome"], dict(received=got, expected=rel)))
            if not compound and len(routes) == 1 and routes[0] is not None and st["outcome"].startswith("ok:") and \
                    accepted[routes[0][0]] not in st["touched"]:
                bad.append(("the routed filesystem never received the call", dict(mounts=mps, call=o),
                            st["outcome"], dict(routed=routes[0], touched=st["touched"])))
            if all(r is not None for r in routes) and st["default_changed"] and o[0] not in ("makedirs",):
                bad.append(("a call routed to a mount changed the default filesystem", dict(mounts=mps, call=o),
                            st["outcome"], None))
    # ---- MountFS: mount-point spelling classes x call-path spelling classes (twin oracle)
    spell_cov = spelling_sweep(rnd, report.seed, thorough, bad)
    total += spell_cov["calls"] + spell_cov["mounts"]
    # ---- MountFS: mount() after first use, on paths that already have content in the default tree
    cfg_rnd = random.Random(report.seed + 1717)      # own stream: the sweeps above / below keep theirs
    mconf_cov = mount_config_sweep(cfg_rnd, report.seed, thorough, bad)
    total += mconf_cov["calls"] + mconf_cov["mounts"]
    # ---- MultiFS
    mtotal = 0
    mcs = [multi_case(rnd) for _ in range(700 if thorough else 140)]
    model_prefetch([order_line(c[0]) for c in mcs])
    for ci, case in enumerate(mcs):
        steps, b, order = run_multi_case(case, report.seed * 2000 + ci)
        mtotal += steps
        nontrivial.add(("multi", tuple(case[0]), case[1]))
        for x in b:
            bad.append((x[0], dict(priorities=case[0], write=case[1], call=x[1]), x[2], x[3]))
    total += mtotal
    # ---- MultiFS: every FS method x where the path and its ancestors live
    state_cov = multi_state_sweep(rnd, thorough, bad)
    total += state_cov["calls"]
    # ---- MultiFS: add_fs() interleaved with calls (0 / 1 / many calls before a member is added)
    uconf_cov = multi_config_sweep(cfg_rnd, thorough, bad)
    total += uconf_cov["observations"] + uconf_cov["write_probes"]
    # ---- OSFS / TempFS / SubFS(OSFS) members: system paths, URLs, links, descriptions, validation, file moves
    os_cov = os_member_sweep(cfg_rnd, thorough, bad)
    total += os_cov["mountfs_queries"] + os_cov["multifs_queries"] + os_cov["mountfs_file_moves"] + os_cov["multifs_file_moves"]
    seen = set()
    pending_seen = {}
    for why, ctx, outc, extra in bad:
        sig = why
        known = report.known_match(sig)
        if known:
            report.known_finding(known)
            continue
        if sig in PENDING_FINDINGS:
            pending_seen[sig] = pending_seen.get(sig, 0) + 1
            continue
        if sig in seen or len(seen) >= 8:
            continue
        seen.add(sig)
        report.violation(dict(kind="misrouted", why=why, context=json.loads(json.dumps(ctx, default=repr)),
                              outcome=outc, detail=json.loads(json.dumps(extra, default=repr)),
                              theorem="Props/C17.v"))
    cov = dict(evaluations=total, distinct_nontrivial=len(nontrivial),
               rule="MountFS: every ordered set of <= 3 mount points from {/a, /ab, /a/b, /c, /} (half of them written "
                    "in a non-normal spelling) with pre-filled recording members x random histories (odd spellings) - "
                    "expected member and relative path from the extracted routing model; plus every mount-point "
                    "spelling class x every call-path spelling class with the routed member's own answer as oracle; "
                    "MultiFS: 1-4 members, priorities from {0,0,1,-1}, any write layer or none x random histories; "
                    "plus every public FS method x where the path / its ancestors live x 2-3 members x write member "
                    "or none; configuration interleaved with use: mount() after 0/1/several calls on paths that already "
                    "have content in the default tree, add_fs() after 0/1/many calls with every priority relation x "
                    "write flag (oracle: the rule on the CURRENT configuration = a freshly built composite); OSFS / "
                    "TempFS / SubFS(OSFS) members mixed with MemoryFS ones: getsyspath, getospath, hassyspath, geturl, "
                    "hasurl, desc, validatepath, islink, getinfo(link/access) against the routed member's own answer, "
                    "file moves (fs.move.move_file, MountFS.move) against the expected effect on every store; "
                    "non-trivial = distinct (configuration, call kind, routed members)",
               samples=[dict(mounts=mcases[0][0], history=[list(map(str, o)) for o in mcases[0][1]][:4])],
               disagreements_checked=len(bad), multifs_steps=mtotal,
               mount_spelling_sweep=spell_cov, multifs_member_state_sweep=state_cov,
               mountfs_mount_interleaved_with_calls=mconf_cov, multifs_add_fs_interleaved_with_calls=uconf_cov,
               os_backed_members_sweep=os_cov,
               spelling_classes=[n for n, _ in SPELLINGS],
               pending_findings_seen=pending_seen,
               traces_validated_against_impl=total - len(bad))
    # state models of MultiFS / MountFS over the MemoryFS model (Route/Composite*.v): outcome and every member tree per call
    import h_composite
    cov.update(h_composite.run_composite_checks(report, random.Random(report.seed + 1700), report.tier))
    return report.finish(proof, cov, assumptions=[
        "derived calls (move/copy/movedir/copydir/removetree/makedirs) may touch every member their path arguments "
        "route to; members are MemoryFS instances behind recording WrapFS proxies",
        "spelling sweep: the model (Route.v mount_add / mount_delegate, which normalise the mount point) says which "
        "mounts are accepted and where a call goes; the expected outcome and effect are those of the same call made "
        "directly on an identically filled twin of the routed member with the relative path; the default tree is "
        "expected to contain the normalised mount points (computed with fs.path.normpath, checked against the model "
        "by C12); a refused mount must raise MountError (inside an existing mount) or IllegalBackReference (above "
        "the root) - the exception classes are taken from the documentation, the model only says accepted / refused",
        "member-state sweep: the routing model only gives the member order (route order); the union reference is "
        "that order materialised into one plain MemoryFS in Python, the write-filesystem reference is a twin of the "
        "write member. A call is a query when it attempts none of the documented mutating primitives (makedir, "
        "openbin in a writing mode, setinfo, remove, removedir) on either reference: it must give the union's answer "
        "(ResourceNotFound also accepted when no member has the path). Otherwise it must behave exactly like the "
        "same call on the write filesystem alone, or have the union's outcome with every created path present in "
        "the write filesystem; when both references fail only 'fails and changes nothing' is required (which error "
        "is not a routing matter); without a write filesystem a call that would create or change something must "
        "raise ResourceReadOnly; members other than the write filesystem may only lose paths the call removes from "
        "the union. Fixtures where a file and a directory collide across members are run with the member-change "
        "rules only (no plain filesystem can represent that union)",
        "configuration interleaved with use: the member order after each add_fs is the extracted `route order` of "
        "the priorities added so far, the mounts in force at each call are those accepted so far (`route mountable` / "
        "`route mount`); expected answers are the members' own (first holder / routed twin); a freshly built "
        "MultiFS over the same member objects is a second reference. Calls made before a mount never create a "
        "FILE at or above a later mount point (mount() then fails after registering the mount - modelled in "
        "Composite.v mount_mount, not a routing matter). add_fs with a name that is already in use is not driven",
        "OS-backed members: the oracle of a non-data method is the routed member's own answer for the relative "
        "path (MountFS: member and path from `route mount`; MultiFS: first holder in `route order`, no holder = "
        "ResourceNotFound / False); validatepath must return the normalised absolute path when the member accepts "
        "the path; desc must name the routed filesystem (or be its own description) and no other member; getmeta "
        "is the composite's own and is not compared; a moved file must leave the routed source store and arrive in "
        "the routed destination store (MultiFS: the write filesystem, ResourceReadOnly without one) with every other "
        "file of every store unchanged"])


def replay(report, path):
    with open(path) as fh:
        d = json.load(fh)
    if d.get("kind") == "composite-differs-from-model":
        import h_composite
        return h_composite.replay_composite(d)
    print(json.dumps(d, indent=1)[:3000])
    return 1
