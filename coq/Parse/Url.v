(* C20 — FS URL splitting: a scanner model of fs/opener/parse.py.

   The regular expression (re.VERBOSE, neither DOTALL nor MULTILINE)

       ^(.*?)://(?:(?:(.*?)@(.*?))|(.*?))(?:!(.*?)$)*$

   is used with [match].  What it does was determined by experiment on CPython's [re]
   (harness/h_parse.py re-validates this model against the real regex on every run):

   * [.] never matches '\n' and [$] matches at the end of the string or just before a
     '\n' that is the last character.  Hence a string matches only if, after dropping at
     most ONE trailing '\n', it contains no '\n' at all; the dropped newline belongs to
     no group.
   * group 1 (protocol) is lazy: it is the text before the FIRST "://".  It may be empty
     ("://x" has protocol "").  Trying a later "://" can never help, because the only
     reason for the remainder to fail is a newline, which a longer group 1 cannot cross.
   * the alternation tries the credentials branch first, and group 2 is lazy: as soon as
     an '@' occurs ANYWHERE after the "://", the text before the FIRST '@' is the
     credentials group, whatever it contains ('!', '?', '/', ...).
   * group 3 / group 4 (resource and query) are lazy and are followed by the optional
     "!path$": they end at the first '!' (after the '@' when there are credentials);
     everything after that '!' is the path, which may itself contain '!' and '@'.
     The starred group can iterate at most once.

   parse_fs_url then tests [credentials is None]: without an '@' there are no credentials;
   otherwise credentials.partition(":") gives user and password (password "" when there is
   no ':'; an EMPTY credentials group, as in "x://@host", gives user "" and password "").
   url.partition("?") gives resource and query string.  (Before the repair the test was
   [if not credentials], which sent the empty group to the branch where url2 is None and
   raised AttributeError.)  This file keeps all pieces raw (still percent-encoded);
   unquote / parse_qs are applied by the harness on both sides. *)
From Coq Require Import List NArith Bool Lia Ascii String.
Import ListNotations.
From PyFS Require Import Base.PyStr Base.Outcome.
Local Open Scope N_scope.

Definition c_colon : char := 58.
Definition c_at : char := 64.
Definition c_bang : char := 33.
Definition c_qm : char := 63.
(* "://" *)
Definition sep : str := [58; 47; 47].

Definition of_string (s : string) : str := map N_of_ascii (list_ascii_of_string s).

(* s.partition(c) for a one-character separator: None when c does not occur *)
Fixpoint cut_c (c : char) (s : str) : option (str * str) :=
  match s with
  | [] => None
  | x :: t =>
    if ceqb c x then Some ([], t)
    else match cut_c c t with
         | Some (a, b) => Some (x :: a, b)
         | None => None
         end
  end.

(* split at the first "://" *)
Fixpoint cut_sep (s : str) : option (str * str) :=
  match s with
  | [] => None
  | x :: t =>
    if starts_with sep s then Some ([], skipn 3 s)
    else match cut_sep t with
         | Some (a, b) => Some (x :: a, b)
         | None => None
         end
  end.

Fixpoint contains_sep (s : str) : bool :=
  match s with
  | [] => false
  | _ :: t => starts_with sep s || contains_sep t
  end.

(* drop one trailing newline: what the final [$] tolerates *)
Fixpoint chomp (s : str) : str :=
  match s with
  | [] => []
  | x :: t => match t with
              | [] => if ceqb newline x then [] else [x]
              | _ :: _ => x :: chomp t
              end
  end.

(* the groups of a successful match; g_url is group 3 with credentials, group 4 without *)
Record groups := mk_groups {
  g_proto : str;
  g_creds : option str;
  g_url : str;
  g_path : option str }.

Definition cut_path (proto : str) (creds : option str) (s : str) : groups :=
  match cut_c c_bang s with
  | Some (u, p) => mk_groups proto creds u (Some p)
  | None => mk_groups proto creds s None
  end.

Definition url_match (s : str) : option groups :=
  let s' := chomp s in
  if has_char newline s' then None
  else match cut_sep s' with
       | None => None
       | Some (proto, rest) =>
         match cut_c c_at rest with
         | Some (creds, after) => Some (cut_path proto (Some creds) after)
         | None => Some (cut_path proto None rest)
         end
       end.

(* the raw components parse_fs_url works with before unquoting *)
Record parts := mk_parts {
  p_proto : str;
  p_creds : option (str * str);     (* raw user, raw password *)
  p_resource : str;
  p_params : option str;            (* raw query string, None without '?' *)
  p_path : option str }.

Definition partition_c (c : char) (s : str) : str * option str :=
  match cut_c c s with
  | Some (a, b) => (a, Some b)
  | None => (s, None)
  end.

Definition finish (g : groups) (creds : option (str * str)) : parts :=
  let (res, q) := partition_c c_qm (g_url g) in
  mk_parts (g_proto g) creds res q (g_path g).

Definition url_parse (s : str) : outcome parts :=
  match url_match s with
  | None => Err ParseError
  | Some g =>
    match g_creds g with
    | None => Ok (finish g None)
    | Some cr =>
      let (u, p) := partition_c c_colon cr in
      Ok (finish g (Some (u, match p with Some p => p | None => [] end)))
    end
  end.

Definition url_split (s : str) : option parts :=
  match url_parse s with Ok p => Some p | _ => None end.

(* ---- the builder -------------------------------------------------------------- *)

Definition creds_part (creds : option (str * str)) : str :=
  match creds with
  | Some (u, p) => u ++ [c_colon] ++ p ++ [c_at]
  | None => []
  end.

Definition q_part (params : option str) : str :=
  match params with Some q => c_qm :: q | None => [] end.

Definition bang_part (path : option str) : str :=
  match path with Some p => c_bang :: p | None => [] end.

Definition build_url (proto : str) (creds : option (str * str)) (resource : str)
           (params path : option str) : str :=
  proto ++ sep ++ creds_part creds ++ (resource ++ q_part params) ++ bang_part path.

(* user name without password: "user@" *)
Definition build_url_user (proto user resource : str) (params path : option str) : str :=
  proto ++ sep ++ (user ++ [c_at]) ++ (resource ++ q_part params) ++ bang_part path.

Definition opt_has (c : char) (o : option str) : bool :=
  match o with Some s => has_char c s | None => false end.

(* side conditions of the round trip, all boolean:
   protocol: no "://", no newline;
   raw user: no '@' ':' newline;  raw password: no '@' newline;
   resource: no '!' '?' newline;  query: no '!' newline;  path: no newline;
   and WITHOUT credentials no '@' in resource, query or path. *)
Definition build_ok (proto : str) (creds : option (str * str)) (resource : str)
           (params path : option str) : bool :=
  negb (contains_sep proto) && negb (has_char newline proto)
  && match creds with
     | Some (u, p) =>
       negb (has_char c_at u) && negb (has_char c_colon u) && negb (has_char newline u)
       && negb (has_char c_at p) && negb (has_char newline p)
     | None =>
       negb (has_char c_at resource) && negb (opt_has c_at params) && negb (opt_has c_at path)
     end
  && negb (has_char c_bang resource) && negb (has_char c_qm resource)
  && negb (has_char newline resource)
  && negb (opt_has c_bang params) && negb (opt_has newline params)
  && negb (opt_has newline path).

(* ---- decidable equality of results, for the generated cross-check files --------- *)

Definition ostr_eqb (a b : option str) : bool :=
  match a, b with
  | Some x, Some y => str_eqb x y
  | None, None => true
  | _, _ => false
  end.

Definition parts_eqb (a b : parts) : bool :=
  str_eqb (p_proto a) (p_proto b)
  && match p_creds a, p_creds b with
     | Some (u, p), Some (u', p') => str_eqb u u' && str_eqb p p'
     | None, None => true
     | _, _ => false
     end
  && str_eqb (p_resource a) (p_resource b)
  && ostr_eqb (p_params a) (p_params b)
  && ostr_eqb (p_path a) (p_path b).

(* expected outcome as written by the harness: 0 = ParseError, 2 = parts; any other code (an
   exception of the real code) agrees with nothing *)
Definition parse_agrees (s : str) (code : N) (p : parts) : bool :=
  match url_parse s, code with
  | Err ParseError, 0 => true
  | Ok q, 2 => parts_eqb q p
  | _, _ => false
  end.
