(* C20 — proofs about the URL scanner (Parse/Url.v) and the MLSD time decoder
   (Parse/FtpTime.v). *)
From Coq Require Import List NArith ZArith Bool Lia String.
Import ListNotations.
From PyFS Require Import Base.PyStr Base.Outcome Parse.Url Parse.FtpTime.
Local Open Scope N_scope.

(* ---- scanning lemmas ------------------------------------------------------------ *)

Lemma cut_c_app c a b : has_char c a = false -> cut_c c (a ++ c :: b) = Some (a, b).
Proof.
  induction a as [|x a IH]; simpl; intro H.
  - now rewrite ceqb_refl.
  - apply orb_false_iff in H as [H1 H2]. rewrite H1. now rewrite IH.
Qed.

Lemma cut_c_none c s : has_char c s = false -> cut_c c s = None.
Proof.
  induction s as [|x s IH]; simpl; intro H; [reflexivity|].
  apply orb_false_iff in H as [H1 H2]. rewrite H1. now rewrite IH.
Qed.

Lemma cut_c_some c s a b : cut_c c s = Some (a, b) -> s = a ++ c :: b /\ has_char c a = false.
Proof.
  revert a; induction s as [|x s IH]; simpl; intros a H; [discriminate|].
  destruct (ceqb c x) eqn:E.
  - inversion H; subst. apply ceqb_eq in E; subst. now split.
  - destruct (cut_c c s) as [[a' b']|]; [|discriminate].
    inversion H; subst. destruct (IH a' eq_refl) as [-> H2]. split; [reflexivity|].
    simpl. now rewrite E.
Qed.

Lemma chomp_id s : has_char newline s = false -> chomp s = s.
Proof.
  induction s as [|x t IH]; [reflexivity|].
  intro H. simpl in H. apply orb_false_iff in H as [H1 H2].
  destruct t as [|y t].
  - simpl. now rewrite H1.
  - change (chomp (x :: y :: t)) with (x :: chomp (y :: t)). now rewrite IH.
Qed.

Lemma starts_sep_app p r :
  p <> [] -> starts_with sep p = false -> starts_with sep (p ++ sep ++ r) = false.
Proof.
  intros Hne H. unfold sep in *.
  destruct p as [|a [|b [|c p]]]; [congruence| | |].
  - cbn [starts_with app]. change (ceqb 47 58) with false.
    cbn [andb]. now rewrite !andb_false_r.
  - cbn [starts_with app]. change (ceqb 47 58) with false.
    cbn [andb]. now rewrite !andb_false_r.
  - cbn [starts_with app] in *. exact H.
Qed.

Lemma cut_sep_build p r : contains_sep p = false -> cut_sep (p ++ sep ++ r) = Some (p, r).
Proof.
  induction p as [|x p IH]; intro H.
  - reflexivity.
  - change (contains_sep (x :: p)) with (starts_with sep (x :: p) || contains_sep p) in H.
    apply orb_false_iff in H as [H1 H2].
    change ((x :: p) ++ sep ++ r) with (x :: (p ++ sep ++ r)).
    assert (E : starts_with sep (x :: (p ++ sep ++ r)) = false)
      by (apply (starts_sep_app (x :: p) r); [discriminate|exact H1]).
    unfold cut_sep; fold cut_sep. rewrite E. now rewrite (IH H2).
Qed.

Lemma cut_sep_some s : forall a b,
  cut_sep s = Some (a, b) -> s = a ++ sep ++ b /\ contains_sep a = false.
Proof.
  induction s as [|x s IH]; intros a b H; [discriminate|].
  unfold cut_sep in H; fold cut_sep in H.
  destruct (starts_with sep (x :: s)) eqn:E.
  - apply starts_with_iff in E as [t E]. rewrite E in *.
    cbn [sep skipn app] in H. inversion H; subst. now split.
  - destruct (cut_sep s) as [[a' b']|]; [|discriminate].
    inversion H; subst. destruct (IH a' b eq_refl) as [-> H2]. split; [reflexivity|].
    change (contains_sep (x :: a')) with (starts_with sep (x :: a') || contains_sep a').
    rewrite H2, orb_false_r.
    destruct (starts_with sep (x :: a')) eqn:E'; [|reflexivity].
    apply starts_with_iff in E' as [t E'].
    change (x :: a' ++ sep ++ b) with ((x :: a') ++ sep ++ b) in E. rewrite E' in E.
    rewrite <- app_assoc in E. now rewrite starts_with_app in E.
Qed.

(* ---- totality ------------------------------------------------------------------- *)

(* The model is a total function and never leaves through a foreign exception: the result is
   the parts or ParseError. *)
Theorem url_split_total : forall s,
  url_parse s = Err ParseError \/ exists p, url_parse s = Ok p.
Proof.
  intro s. unfold url_parse.
  destruct (url_match s) as [g|]; [|now left].
  right. destruct (g_creds g) as [cr|]; [|eauto].
  destruct (partition_c c_colon cr); eauto.
Qed.

Corollary url_never_crashes : forall s k, url_parse s <> Crash k.
Proof.
  intros s k. destruct (url_split_total s) as [H|[p H]]; rewrite H; discriminate.
Qed.

(* ParseError exactly when the regex does not match *)
Theorem url_parse_error_iff : forall s,
  url_parse s = Err ParseError <-> url_match s = None.
Proof.
  intro s. unfold url_parse. destruct (url_match s) as [g|]; [|now split].
  split; [|discriminate].
  destruct (g_creds g) as [cr|]; [destruct (partition_c c_colon cr)|]; discriminate.
Qed.

(* "x://@host": the empty credentials group gives the empty user name and password *)
Theorem url_empty_credentials :
  url_split (of_string "x://@host"%string)
  = Some (mk_parts (of_string "x"%string) (Some ([], [])) (of_string "host"%string) None None).
Proof. vm_compute. reflexivity. Qed.

(* every match has a newline-free protocol without "://" and the groups tile the input *)
Theorem url_match_sound : forall s g,
  url_match s = Some g ->
  contains_sep (g_proto g) = false /\ has_char newline (g_proto g) = false
  /\ exists rest, chomp s = g_proto g ++ sep ++ rest.
Proof.
  intros s g. unfold url_match.
  destruct (has_char newline (chomp s)) eqn:Hn; [discriminate|].
  destruct (cut_sep (chomp s)) as [[proto rest]|] eqn:Hc; [|discriminate].
  apply cut_sep_some in Hc as [Hs Hp].
  assert (Hnp : has_char newline proto = false).
  { rewrite Hs, has_char_app in Hn. now apply orb_false_iff in Hn as [Hn _]. }
  assert (G : forall cr t, g = cut_path proto cr t -> g_proto g = proto).
  { intros cr t ->. unfold cut_path. destruct (cut_c c_bang t) as [[? ?]|]; reflexivity. }
  intro H.
  assert (Hg : g_proto g = proto).
  { destruct (cut_c c_at rest) as [[cr after]|]; injection H as H1; symmetry in H1;
      exact (G _ _ H1). }
  rewrite Hg. repeat split; auto. now exists rest.
Qed.

(* ---- round trip ----------------------------------------------------------------- *)

Lemma cut_path_build proto cr U path :
  has_char c_bang U = false ->
  cut_path proto cr (U ++ bang_part path) = mk_groups proto cr U path.
Proof.
  intro H. unfold cut_path. destruct path as [p|]; simpl bang_part.
  - now rewrite cut_c_app.
  - rewrite app_nil_r. now rewrite cut_c_none.
Qed.

Lemma finish_build proto gc resource params path cr :
  has_char c_qm resource = false ->
  finish (mk_groups proto gc (resource ++ q_part params) path) cr
  = mk_parts proto cr resource params path.
Proof.
  intro H. unfold finish, partition_c. simpl g_url.
  destruct params as [q|]; simpl q_part.
  - now rewrite cut_c_app.
  - rewrite app_nil_r. now rewrite cut_c_none.
Qed.

Lemma has_q_part c params :
  ceqb c c_qm = false -> has_char c (q_part params) = opt_has c params.
Proof. intro H. destruct params; simpl; [now rewrite H|reflexivity]. Qed.

Lemma has_bang_part c path :
  ceqb c c_bang = false -> has_char c (bang_part path) = opt_has c path.
Proof. intro H. destruct path; simpl; [now rewrite H|reflexivity]. Qed.

(* parse (build parts) = parts, for all components satisfying build_ok *)
Theorem url_split_build : forall proto creds resource params path,
  build_ok proto creds resource params path = true ->
  url_split (build_url proto creds resource params path)
  = Some (mk_parts proto creds resource params path).
Proof.
  intros proto creds resource params path H.
  unfold build_ok in H.
  destruct creds as [[u p]|];
    rewrite !andb_true_iff, !negb_true_iff in H;
    destruct H as [[[[[[[[Hsep Hpn] Hc] Hrb] Hrq] Hrn] Hqb] Hqn] Hxn];
    set (U := resource ++ q_part params);
    assert (HU : has_char c_bang U = false)
      by (unfold U; rewrite has_char_app, has_q_part by reflexivity; now rewrite Hrb, Hqb).
  - (* with credentials *)
    destruct Hc as [[[[Hua Huc] Hun] Hpa] Hpnl].
    assert (Hrest : creds_part (Some (u, p)) ++ U ++ bang_part path
                    = (u ++ c_colon :: p) ++ c_at :: (U ++ bang_part path)).
    { unfold creds_part. rewrite <- !app_assoc. reflexivity. }
    assert (Hcr : has_char c_at (u ++ c_colon :: p) = false).
    { rewrite has_char_app. cbn [has_char existsb]. fold (has_char c_at p).
      change (ceqb c_at c_colon) with false. now rewrite Hua, Hpa. }
    assert (Hnl : has_char newline (build_url proto (Some (u, p)) resource params path) = false).
    { unfold build_url. fold U. rewrite Hrest.
      rewrite !has_char_app. cbn [has_char existsb].
      fold (has_char newline p). fold (has_char newline (U ++ bang_part path)).
      change (ceqb newline c_colon) with false. change (ceqb newline c_at) with false.
      change (existsb (ceqb newline) sep) with false.
      unfold U. rewrite !has_char_app, has_q_part, has_bang_part by reflexivity.
      now rewrite Hpn, Hun, Hpnl, Hrn, Hqn, Hxn. }
    unfold url_split, url_parse, url_match.
    rewrite (chomp_id _ Hnl), Hnl.
    unfold build_url. fold U. rewrite (cut_sep_build _ _ Hsep).
    rewrite Hrest, (cut_c_app _ _ _ Hcr), (cut_path_build _ _ _ _ HU).
    cbn [g_creds].
    unfold partition_c. rewrite (cut_c_app _ _ _ Huc).
    unfold U. now rewrite finish_build.
  - (* without credentials *)
    destruct Hc as [[Hra Hqa] Hxa].
    assert (Hat : has_char c_at (U ++ bang_part path) = false).
    { unfold U. rewrite !has_char_app, has_q_part, has_bang_part by reflexivity.
      now rewrite Hra, Hqa, Hxa. }
    assert (Hnl : has_char newline (build_url proto None resource params path) = false).
    { unfold build_url. fold U. cbn [creds_part]. rewrite app_nil_l.
      rewrite !has_char_app.
      change (has_char newline sep) with false.
      unfold U. rewrite !has_char_app, has_q_part, has_bang_part by reflexivity.
      now rewrite Hpn, Hrn, Hqn, Hxn. }
    unfold url_split, url_parse, url_match.
    rewrite (chomp_id _ Hnl), Hnl.
    unfold build_url. fold U. cbn [creds_part]. rewrite app_nil_l.
    rewrite (cut_sep_build _ _ Hsep).
    rewrite (cut_c_none _ _ Hat), (cut_path_build _ _ _ _ HU).
    cbn [g_creds]. unfold U. now rewrite finish_build.
Qed.

(* "user@" without a password: the parser reports the empty password *)
Theorem url_split_build_user : forall proto user resource params path,
  negb (contains_sep proto) && negb (has_char newline proto)
  && negb (has_char c_at user) && negb (has_char c_colon user) && negb (has_char newline user)
  && negb (has_char c_bang resource) && negb (has_char c_qm resource)
  && negb (has_char newline resource)
  && negb (opt_has c_bang params) && negb (opt_has newline params)
  && negb (opt_has newline path) = true ->
  url_split (build_url_user proto user resource params path)
  = Some (mk_parts proto (Some (user, [])) resource params path).
Proof.
  intros proto user resource params path H.
  rewrite !andb_true_iff, !negb_true_iff in H.
  destruct H as [[[[[[[[[[Hsep Hpn] Hua] Huc] Hun] Hrb] Hrq] Hrn] Hqb] Hqn] Hxn].
  set (U := resource ++ q_part params).
  assert (HU : has_char c_bang U = false)
    by (unfold U; rewrite has_char_app, has_q_part by reflexivity; now rewrite Hrb, Hqb).
  assert (Hrest : (user ++ [c_at]) ++ U ++ bang_part path
                  = user ++ c_at :: (U ++ bang_part path)).
  { rewrite <- !app_assoc. reflexivity. }
  assert (Hnl : has_char newline (build_url_user proto user resource params path) = false).
  { unfold build_url_user. fold U. rewrite Hrest.
    rewrite !has_char_app. cbn [has_char existsb].
    fold (has_char newline (U ++ bang_part path)).
    change (ceqb newline c_at) with false.
    change (existsb (ceqb newline) sep) with false.
    unfold U. rewrite !has_char_app, has_q_part, has_bang_part by reflexivity.
    now rewrite Hpn, Hun, Hrn, Hqn, Hxn. }
  unfold url_split, url_parse, url_match.
  rewrite (chomp_id _ Hnl), Hnl.
  unfold build_url_user. fold U. rewrite (cut_sep_build _ _ Hsep).
  rewrite Hrest, (cut_c_app _ _ _ Hua), (cut_path_build _ _ _ _ HU).
  cbn [g_creds].
  unfold partition_c. rewrite (cut_c_none _ _ Huc).
  unfold U. now rewrite finish_build.
Qed.

(* The '@' side condition of the round trip cannot be dropped: a URL WITHOUT credentials
   whose sub-path contains '@' satisfies every other side condition, yet the scanner (like
   the regex) reports credentials.  Witness: zip://a.zip!/x@y. *)
Theorem url_at_in_path_refuted :
  exists proto resource path,
    contains_sep proto = false /\ has_char newline proto = false
    /\ has_char c_at resource = false /\ has_char c_bang resource = false
    /\ has_char c_qm resource = false /\ has_char newline resource = false
    /\ has_char newline path = false /\ has_char c_at path = true
    /\ url_split (build_url proto None resource None (Some path))
       <> Some (mk_parts proto None resource None (Some path))
    /\ exists user rest,
         url_split (build_url proto None resource None (Some path))
         = Some (mk_parts proto (Some (user, [])) rest None None)
         /\ has_char c_bang user = true.
Proof.
  exists (of_string "zip"%string), (of_string "a.zip"%string), (of_string "/x@y"%string).
  repeat (split; [vm_compute; reflexivity|]).
  split; [vm_compute; discriminate|].
  exists (of_string "a.zip!/x"%string), (of_string "y"%string).
  split; vm_compute; reflexivity.
Qed.

(* ---- MLSD time ---------------------------------------------------------------- *)

(* the checked decoder returns Some only for in-range fields *)
Theorem ftp_time_range : forall s f,
  ftp_time_decode s = Some f ->
  1 <= f_year f /\ 1 <= f_month f <= 12 /\ 1 <= f_day f <= 31
  /\ f_hour f < 24 /\ f_min f < 60 /\ f_sec f < 62.
Proof.
  intros s f. unfold ftp_time_decode.
  destruct (ftp_time_fields s) as [g|]; [|discriminate].
  destruct (in_range g) eqn:E; [|discriminate].
  intro H; inversion H; subst. unfold in_range in E.
  rewrite !andb_true_iff in E.
  destruct E as [[[[[[[E1 E2] E3] E4] E5] E6] E7] E8].
  apply N.leb_le in E1, E2, E3, E4, E5. apply N.ltb_lt in E6, E7, E8.
  repeat split; assumption.
Qed.

(* on everything the checked decoder accepts, the code as written returns the timegm value *)
Theorem ftp_time_decode_impl : forall s f,
  ftp_time_decode s = Some f -> ftp_time_impl s = Ok (Some (timegm f)).
Proof.
  intros s f. unfold ftp_time_decode, ftp_time_impl.
  destruct (ftp_time_fields s) as [g|]; [|discriminate].
  destruct (in_range g) eqn:E; [|discriminate].
  intro H; inversion H; subst. unfold in_range in E.
  rewrite !andb_true_iff in E.
  destruct E as [[[[[[[E1 E2] E3] _] _] _] _] _].
  unfold timegm_ok. now rewrite E1, E2, E3.
Qed.

(* the code as written never raises; it returns a value only when date(year, month, 1)
   exists (year >= 1, month in 1..12) and then the timegm value *)
Theorem ftp_time_total : forall s,
  ftp_time_impl s = Ok None
  \/ exists f, ftp_time_fields s = Some f
              /\ (1 <= f_year f /\ 1 <= f_month f <= 12)
              /\ ftp_time_impl s = Ok (Some (timegm f)).
Proof.
  intro s. unfold ftp_time_impl.
  destruct (ftp_time_fields s) as [f|]; [|now left].
  destruct (timegm_ok f) eqn:E; [|now left].
  right. exists f. unfold timegm_ok in E. rewrite !andb_true_iff in E.
  destruct E as [[E1 E2] E3]. apply N.leb_le in E1, E2, E3. repeat split; auto.
Qed.

Corollary ftp_time_never_crashes : forall s k, ftp_time_impl s <> Crash k.
Proof.
  intros s k. destruct (ftp_time_total s) as [H|[f [_ [_ H]]]]; rewrite H; discriminate.
Qed.

(* month 13 (the former ValueError) is skipped by the code and by the checked decoder *)
Theorem ftp_time_month13 :
  ftp_time_impl (of_string "20201301000000"%string) = Ok None
  /\ ftp_time_decode (of_string "20201301000000"%string) = None
  /\ ftp_time_impl (of_string "00000101000000"%string) = Ok None.
Proof. repeat split; vm_compute; reflexivity. Qed.

(* a few fixed points of the calendar arithmetic *)
Theorem ftp_time_examples :
  ftp_time_impl (of_string "19700101000000"%string) = Ok (Some 0%Z)
  /\ ftp_time_impl (of_string "20200229123456.789"%string) = Ok (Some 1582979696%Z)
  /\ ftp_time_impl (of_string "2020010100000"%string) = Ok (Some 1577836800%Z)
  /\ ftp_time_impl (of_string "202001010000"%string) = Ok None.
Proof. repeat split; vm_compute; reflexivity. Qed.
