(* C20 — FTPFS._parse_ftp_time (fs/ftpfs.py): the six fixed-width decimal fields of an
   MLSD "modify=YYYYMMDDHHMMSS[.sss]" value.

       try:
           tm_year = int(t[0:4]); tm_month = int(t[4:6]); ... tm_sec = int(t[12:14])
           epoch_time = calendar.timegm((tm_year, tm_month, tm_day, tm_hour, tm_min, tm_sec))
       except ValueError:
           return None
       return epoch_time

   calendar.timegm builds datetime.date(year, month, 1) and adds day, hour, minute and
   second arithmetically: it raises ValueError when year = 0 or month is not in 1..12 (now
   inside the try, so the result is None; before the repair the call was outside the try and
   the ValueError escaped from the MLSD parser) and silently accepts any day / hour / minute /
   second.

   Scope of the model: the fields are decoded as ASCII decimal digits.  Python's int()
   additionally accepts surrounding white space, a sign, '_' between digits and non-ASCII
   decimal digits; the harness cross-checks this model only on strings over ASCII digits
   and characters int() rejects everywhere. *)
From Coq Require Import List NArith ZArith Bool Lia.
Import ListNotations.
From PyFS Require Import Base.PyStr Base.Outcome.
Local Open Scope N_scope.

Definition digit_val (c : char) : option N :=
  if (48 <=? c) && (c <=? 57) then Some (c - 48) else None.

Fixpoint digits_val (acc : N) (s : str) : option N :=
  match s with
  | [] => Some acc
  | c :: t => match digit_val c with
              | Some d => digits_val (10 * acc + d) t
              | None => None
              end
  end.

(* int(s) for ASCII digit strings; int('') raises ValueError *)
Definition int_field (s : str) : option N :=
  match s with [] => None | _ :: _ => digits_val 0 s end.

(* Python s[a:b] for 0 <= a <= b (clipped to the string) *)
Definition slice (a b : nat) (s : str) : str := firstn (b - a) (skipn a s).

Record fields := mk_fields {
  f_year : N; f_month : N; f_day : N; f_hour : N; f_min : N; f_sec : N }.

Definition ftp_time_fields (s : str) : option fields :=
  match int_field (slice 0 4 s), int_field (slice 4 6 s), int_field (slice 6 8 s),
        int_field (slice 8 10 s), int_field (slice 10 12 s), int_field (slice 12 14 s) with
  | Some y, Some mo, Some d, Some h, Some mi, Some sc => Some (mk_fields y mo d h mi sc)
  | _, _, _, _, _, _ => None
  end.

(* the range check a total parser needs (seconds up to 61 as in struct_time) *)
Definition in_range (f : fields) : bool :=
  (1 <=? f_year f) && (1 <=? f_month f) && (f_month f <=? 12)
  && (1 <=? f_day f) && (f_day f <=? 31)
  && (f_hour f <? 24) && (f_min f <? 60) && (f_sec f <? 62).

(* the checked decoder: Some only for in-range fields *)
Definition ftp_time_decode (s : str) : option fields :=
  match ftp_time_fields s with
  | Some f => if in_range f then Some f else None
  | None => None
  end.

(* ---- calendar.timegm ---------------------------------------------------------- *)
Local Open Scope Z_scope.

Definition is_leap (y : Z) : bool :=
  ((y mod 4 =? 0) && negb (y mod 100 =? 0)) || (y mod 400 =? 0).

Definition days_before_year (y : Z) : Z :=
  let y1 := y - 1 in y1 * 365 + y1 / 4 - y1 / 100 + y1 / 400.

Definition days_before_month (y m : Z) : Z :=
  nth (Z.to_nat (m - 1)) [0; 31; 59; 90; 120; 151; 181; 212; 243; 273; 304; 334] 0
  + (if (2 <? m) && is_leap y then 1 else 0).

(* datetime.date(y, m, d).toordinal() *)
Definition ordinal (y m d : Z) : Z := days_before_year y + days_before_month y m + d.

Definition epoch_ord : Z := 719163.   (* date(1970, 1, 1).toordinal() *)

Definition timegm (f : fields) : Z :=
  let days := ordinal (Z.of_N (f_year f)) (Z.of_N (f_month f)) 1 - epoch_ord
              + Z.of_N (f_day f) - 1 in
  ((days * 24 + Z.of_N (f_hour f)) * 60 + Z.of_N (f_min f)) * 60 + Z.of_N (f_sec f).

(* what timegm accepts: date(year, month, 1) must exist (year <= 9999 holds for 4 digits) *)
Definition timegm_ok (f : fields) : bool :=
  ((1 <=? f_year f) && (1 <=? f_month f) && (f_month f <=? 12))%N.

(* the code as written: Ok None = returns None (also when timegm raises ValueError) *)
Definition ftp_time_impl (s : str) : outcome (option Z) :=
  match ftp_time_fields s with
  | None => Ok None
  | Some f => if timegm_ok f then Ok (Some (timegm f)) else Ok None
  end.

(* expected outcome as written by the harness: 0 = None, 2 = Some v; any other code (an
   exception of the real code) agrees with nothing *)
Definition time_agrees (s : str) (code : N) (v : Z) : bool :=
  match ftp_time_impl s, code with
  | Ok None, 0%N => true
  | Ok (Some w), 2%N => Z.eqb w v
  | _, _ => false
  end.
