(* Proofs that the fs.path model meets the component-list reference, for every string. *)
From Coq Require Import List NArith Bool Arith Lia.
From PyFS Require Import Base.PyStr Base.Outcome Path.PathModel Path.PathSpec.
Import ListNotations.

(* STATEMENTS TO PROVE (see the task description given to the proof author):

Theorem normpath_spec : forall s, normpath s = spec_normpath s.

Theorem normpath_clean : forall s t, normpath s = Ok t ->
  exists cs, Forall good cs /\ t = to_path (starts_c slash s) cs.

Theorem normalised_form : forall p,
  normpath p = Ok p <-> exists abs cs, Forall good cs /\ p = to_path abs cs.

Theorem normpath_idem : forall s t, normpath s = Ok t -> normpath t = Ok t.

Theorem normpath_total : forall s, is_crash (normpath s) = false.

Theorem normpath_raises_iff : forall s,
  normpath s = Err IllegalBackReference <-> resolve (comps s) = None.

Section NormalForms.
  Variables (abs : bool) (cs : list str).
  Hypothesis Hcs : Forall good cs.
  Let p := to_path abs cs.

  Theorem cform_nf : cform p = Some (abs, cs).          (* when cs = [] and abs = false, p = "" *)
  Theorem abspath_nf : abspath p = to_path true cs.
  Theorem relpath_nf : relpath p = to_path false cs.
  Theorem split_nf : psplit p = spec_split (abs, cs).
  Theorem join_split_nf : pjoin [dirname p; basename p] = Ok p.
  Theorem split_join_nf : forall c, good c ->
    pjoin [p; c] = Ok (to_path abs (cs ++ [c])) /\ psplit (to_path abs (cs ++ [c])) = (p, c).
  Theorem combine_nf : forall c, good c -> lstrip_space c = c ->
    combine p c = to_path abs (cs ++ [c]).
  Theorem combine_split_nf : Forall (fun c => lstrip_space c = c) cs ->
    combine (dirname p) (basename p) = p.
  Theorem parts_nf : parts p = Ok (spec_parts (abs, cs)).
End NormalForms.

Theorem iteratepath_spec : forall s,
  iteratepath s = match resolve (comps s) with None => Err IllegalBackReference | Some cs => Ok cs end.

Theorem recursepath_spec : forall s,
  match resolve (comps s) with
  | None => recursepath s false = Err IllegalBackReference
  | Some cs => cs <> [] \/ in_slash s = true ->
               recursepath s false = Ok (map (to_path true) (prefixes cs))
  end.
(* (for a non-normalised spelling of the root such as "a/.." or "//" the code returns
   ["/"; "/"]; that is outside the property, which speaks of normalised paths) *)

Theorem recursepath_nf : forall abs cs, Forall good cs ->
  recursepath (to_path abs cs) false = Ok (map (to_path true) (prefixes cs)).

Theorem recursepath_reverse : forall s, recursepath s true = omap (@rev str) (recursepath s false).

Theorem parts_spec : forall s,
  parts s = match cform s with None => Err IllegalBackReference | Some f => Ok (spec_parts f) end.

Theorem isbase_nf : forall a1 cs1 a2 cs2, Forall good cs1 -> Forall good cs2 ->
  isbase (to_path a1 cs1) (to_path a2 cs2) = cprefix cs1 cs2.

Theorem isparent_nf : forall a1 cs1 a2 cs2, Forall good cs1 -> Forall good cs2 ->
  isparent (to_path a1 cs1) (to_path a2 cs2) = spec_isparent (a1, cs1) (a2, cs2).

Theorem frombase_nf : forall a cs1 cs2, Forall good cs1 -> Forall good cs2 ->
  cprefix cs1 cs2 = true ->
  exists r, frombase (to_path a cs1) (to_path a cs2) = Ok r /\ to_path a cs1 ++ r = to_path a cs2.

Theorem issamedir_nf : forall a1 cs1 a2 cs2, Forall good cs1 -> Forall good cs2 ->
  issamedir (to_path a1 cs1) (to_path a2 cs2) = Ok (spec_issamedir (a1, cs1) (a2, cs2)).

Theorem relativefrom_nf : forall a1 csb a2 csp, Forall good csb -> Forall good csp ->
  exists r, relativefrom (to_path a1 csb) (to_path a2 csp) = Ok r
            /\ resolve (csb ++ comps r) = Some csp.

Example isbase_not_string_prefix :
  isbase [slash; 97%N] [slash; 97%N; 98%N] = false.
*)
