(* Proofs that the fs.path model meets the component-list reference, for every string. *)
From Coq Require Import List NArith Bool Arith Lia.
From PyFS Require Import Base.PyStr Base.Outcome Path.PathModel Path.PathSpec.
Import ListNotations.

(* ------------------------------------------------------------------ *)
(* Generic list / string lemmas                                        *)
(* ------------------------------------------------------------------ *)

Lemma ceqb_sym a b : ceqb a b = ceqb b a.
Proof. unfold ceqb. apply N.eqb_sym. Qed.

Lemma app_cons_ne {A} (l : list A) x r : l ++ x :: r <> [].
Proof. destruct l; discriminate. Qed.

Lemma snoc_ne {A} (l : list A) x : l ++ [x] <> [].
Proof. apply app_cons_ne. Qed.

Lemma existsb_false_Forall {A} (f : A -> bool) l :
  existsb f l = false -> Forall (fun x => f x = false) l.
Proof.
  induction l as [|x l IH]; simpl; intro H; [constructor|].
  apply orb_false_iff in H as [H1 H2]. constructor; [exact H1|apply IH; exact H2].
Qed.

Lemma join_snoc sep l x : l <> [] -> join sep (l ++ [x]) = join sep l ++ sep ++ x.
Proof.
  induction l as [|y l IH]; [congruence|]. intros _.
  destruct l as [|z l].
  - reflexivity.
  - change ((y :: z :: l) ++ [x]) with (y :: ((z :: l) ++ [x])).
    rewrite join_cons by apply snoc_ne.
    rewrite IH by discriminate. rewrite (join_cons sep y (z :: l)) by discriminate.
    rewrite <- !app_assoc. reflexivity.
Qed.

(* every component followed by a slash *)
Definition cat (l : list str) : str := flat_map (fun c => c ++ [slash]) l.

Lemma cat_cons c l : cat (c :: l) = c ++ slash :: cat l.
Proof. unfold cat. simpl. rewrite <- app_assoc. reflexivity. Qed.

Lemma cat_app a b : cat (a ++ b) = cat a ++ cat b.
Proof. unfold cat. apply flat_map_app. Qed.

Lemma join_snoc_cat l x : join [slash] (l ++ [x]) = cat l ++ x.
Proof.
  induction l as [|y l IH]; [reflexivity|].
  change ((y :: l) ++ [x]) with (y :: (l ++ [x])).
  rewrite join_cons by apply snoc_ne. rewrite IH, cat_cons.
  rewrite <- app_assoc. reflexivity.
Qed.

Lemma join_cat l : l <> [] -> join [slash] l ++ [slash] = cat l.
Proof.
  intro Hn. destruct (exists_last Hn) as [l' [x E]]. subst l.
  rewrite join_snoc_cat, cat_app, <- app_assoc. f_equal.
  unfold cat. simpl. rewrite app_nil_r. reflexivity.
Qed.

Lemma join_head sep c l : exists t, join sep (c :: l) = c ++ t.
Proof.
  destruct l as [|d l].
  - exists []. simpl. rewrite app_nil_r. reflexivity.
  - exists (sep ++ join sep (d :: l)). reflexivity.
Qed.

Lemma ends_c_snoc_false c s x : ceqb x c = false -> ends_c c (s ++ [x]) = false.
Proof. intro H. rewrite ends_c_app. exact H. Qed.

(* ------------------------------------------------------------------ *)
(* good components                                                     *)
(* ------------------------------------------------------------------ *)

Lemma good_ne c : good c -> c <> [].
Proof. intros [H _]. exact H. Qed.

Lemma good_noslash c : good c -> has_char slash c = false.
Proof. intros [_ [_ [_ H]]]. exact H. Qed.

Lemma good_flags c : good c -> c_empty c = false /\ c_dot c = false /\ c_dotdot c = false.
Proof.
  intros [H1 [H2 [H3 _]]]. repeat split.
  - destruct c; [congruence|reflexivity].
  - apply str_eqb_neq. exact H2.
  - apply str_eqb_neq. exact H3.
Qed.

Lemma good_head c : good c -> exists x t, c = x :: t /\ ceqb x slash = false.
Proof.
  intros [H1 [_ [_ H4]]]. destruct c as [|x t]; [congruence|].
  exists x, t. split; [reflexivity|].
  simpl in H4. apply orb_false_iff in H4 as [H4 _]. rewrite ceqb_sym. exact H4.
Qed.

Lemma good_last c : good c -> exists t x, c = t ++ [x] /\ ceqb x slash = false.
Proof.
  intros [H1 [_ [_ H4]]]. destruct (exists_last H1) as [t [x E]]. subst c.
  exists t, x. split; [reflexivity|].
  rewrite has_char_app in H4. apply orb_false_iff in H4 as [_ H4].
  simpl in H4. apply orb_false_iff in H4 as [H4 _]. rewrite ceqb_sym. exact H4.
Qed.

Lemma Forall_good_noslash l : Forall good l -> noslash slash l.
Proof. unfold noslash. apply Forall_impl. intros c. apply good_noslash. Qed.

Lemma good_starts c x : good c -> starts_c slash (c ++ x) = false.
Proof. intro H. destruct (good_head c H) as [y [t [E Hy]]]. subst c. exact Hy. Qed.

Lemma good_lstrip c x : good c -> lstrip_c slash (c ++ x) = c ++ x.
Proof.
  intro H. destruct (good_head c H) as [y [t [E Hy]]]. subst c. simpl. rewrite Hy. reflexivity.
Qed.

(* ------------------------------------------------------------------ *)
(* to_path on good component lists                                     *)
(* ------------------------------------------------------------------ *)

Lemma join_good_starts l x : Forall good l -> l <> [] ->
  starts_c slash (join [slash] l ++ x) = false.
Proof.
  intros Hg Hn. destruct l as [|c l]; [congruence|].
  inversion Hg as [|? ? Hc Hl]; subst.
  destruct (join_head [slash] c l) as [t Et]. rewrite Et, <- app_assoc.
  apply good_starts. exact Hc.
Qed.

Lemma join_good_lstrip l : Forall good l -> lstrip_c slash (join [slash] l) = join [slash] l.
Proof.
  intros Hg. destruct l as [|c l]; [reflexivity|].
  inversion Hg as [|? ? Hc Hl]; subst.
  destruct (join_head [slash] c l) as [t Et]. rewrite Et.
  apply good_lstrip. exact Hc.
Qed.

Lemma starts_c_to_path_app abs l x : Forall good l -> l <> [] ->
  starts_c slash (to_path abs l ++ x) = abs.
Proof.
  intros Hg Hn. unfold to_path. destruct abs.
  - reflexivity.
  - simpl. apply join_good_starts; assumption.
Qed.

Lemma starts_c_to_path abs l : Forall good l -> starts_c slash (to_path abs l) = abs.
Proof.
  intros Hg. destruct l as [|c l].
  - destruct abs; reflexivity.
  - rewrite <- (app_nil_r (to_path abs (c :: l))).
    apply starts_c_to_path_app; [exact Hg|discriminate].
Qed.

Lemma ends_c_to_path abs l : Forall good l -> l <> [] -> ends_c slash (to_path abs l) = false.
Proof.
  intros Hg Hn. destruct (exists_last Hn) as [l' [c E]]. subst l.
  apply Forall_app in Hg as [_ Hc]. inversion Hc as [|? ? Hc' _]; subst.
  destruct (good_last c Hc') as [t [x [E Hx]]]. subst c.
  unfold to_path. rewrite join_snoc_cat. rewrite !app_assoc.
  apply ends_c_snoc_false. exact Hx.
Qed.

Lemma rstrip_to_path abs l : Forall good l -> l <> [] ->
  rstrip_c slash (to_path abs l) = to_path abs l.
Proof. intros Hg Hn. apply rstrip_c_noend. apply ends_c_to_path; assumption. Qed.

Lemma rstrip_join_good l : Forall good l -> rstrip_c slash (join [slash] l) = join [slash] l.
Proof.
  intros Hg. destruct l as [|c l]; [reflexivity|].
  apply (rstrip_to_path false (c :: l)); [exact Hg|discriminate].
Qed.

Lemma to_path_ne abs l : l <> [] -> Forall good l -> to_path abs l <> [].
Proof.
  intros Hn Hg E. destruct l as [|c l]; [congruence|].
  inversion Hg as [|? ? Hc Hl]; subst.
  unfold to_path in E. apply app_eq_nil in E as [_ E].
  destruct (join_head [slash] c l) as [t Et]. rewrite Et in E.
  apply app_eq_nil in E as [E _]. apply (good_ne c Hc). exact E.
Qed.

Lemma join_good_empty l : Forall good l -> is_empty (join [slash] l) = true -> l = [].
Proof.
  intros Hg H. destruct l as [|c l]; [reflexivity|].
  exfalso. apply (to_path_ne false (c :: l)); [discriminate|exact Hg|].
  change (join [slash] (c :: l) = []).
  destruct (join [slash] (c :: l)) as [|y t]; [reflexivity|discriminate].
Qed.

Lemma to_path_snoc abs l c : l <> [] -> to_path abs (l ++ [c]) = to_path abs l ++ slash :: c.
Proof.
  intro Hn. unfold to_path. rewrite join_snoc by exact Hn. rewrite <- app_assoc. reflexivity.
Qed.

Lemma split_to_path abs l : Forall good l -> l <> [] ->
  split_on slash (to_path abs l) = (if abs then [[]] else []) ++ l.
Proof.
  intros Hg Hn. unfold to_path. destruct abs.
  - change ([slash] ++ join [slash] l) with (slash :: join [slash] l).
    simpl. rewrite split_join; [reflexivity|exact Hn|apply Forall_good_noslash; exact Hg].
  - simpl. apply split_join; [exact Hn|apply Forall_good_noslash; exact Hg].
Qed.

(* ------------------------------------------------------------------ *)
(* resolution                                                          *)
(* ------------------------------------------------------------------ *)

Lemma resolve_good l Y st : Forall good l ->
  resolve_stack (l ++ Y) st = resolve_stack Y (rev l ++ st).
Proof.
  revert st. induction l as [|c l IH]; intros st Hg; [reflexivity|].
  inversion Hg as [|? ? Hc Hl]; subst.
  destruct (good_flags c Hc) as [F1 [F2 F3]].
  simpl. rewrite F1, F2, F3. simpl. rewrite IH by exact Hl.
  rewrite <- app_assoc. reflexivity.
Qed.

Lemma resolve_good_all l st : Forall good l -> resolve_stack l st = Some (rev st ++ l).
Proof.
  intro Hg. rewrite <- (app_nil_r l) at 1. rewrite resolve_good by exact Hg.
  simpl. rewrite rev_app_distr, rev_involutive. reflexivity.
Qed.

Lemma resolve_snoc_empty X st : resolve_stack (X ++ [[]]) st = resolve_stack X st.
Proof.
  revert st. induction X as [|c X IH]; intros st; [reflexivity|].
  simpl. destruct (c_empty c || c_dot c); [apply IH|].
  destruct (c_dotdot c); [|apply IH].
  destruct st as [|s st]; [reflexivity|apply IH].
Qed.

Lemma resolve_stack_good cs : forall st r,
  noslash slash cs -> Forall good st -> resolve_stack cs st = Some r -> Forall good r.
Proof.
  induction cs as [|c cs IH]; intros st r Hns Hst H.
  - simpl in H. inversion H; subst. apply Forall_rev. exact Hst.
  - inversion Hns as [|? ? Hc Hcs]; subst. simpl in H.
    destruct (c_empty c || c_dot c) eqn:E1; [apply (IH st r); assumption|].
    destruct (c_dotdot c) eqn:E2.
    + destruct st as [|s st]; [discriminate|].
      inversion Hst; subst. apply (IH st r); assumption.
    + apply (IH (c :: st) r); [assumption| |assumption].
      constructor; [|assumption].
      apply orb_false_iff in E1 as [E0 E1].
      repeat split.
      * intro; subst; discriminate.
      * apply str_eqb_neq. exact E1.
      * apply str_eqb_neq. exact E2.
      * exact Hc.
Qed.

(* ------------------------------------------------------------------ *)
(* normpath: slow path                                                 *)
(* ------------------------------------------------------------------ *)

Lemma norm_loop_resolve cs : forall st, norm_loop cs (rev st) = resolve_stack cs st.
Proof.
  induction cs as [|c cs IH]; intros st.
  - reflexivity.
  - destruct c as [|x c'].
    + simpl. apply IH.
    + cbn [norm_loop resolve_stack].
      unfold in_dotdot. change (is_empty (x :: c')) with false.
      change (c_empty (x :: c')) with false. cbn [orb].
      change (is_dot (x :: c')) with (c_dot (x :: c')).
      change (is_dotdot (x :: c')) with (c_dotdot (x :: c')).
      destruct (c_dot (x :: c')) eqn:Ed.
      * apply str_eqb_eq in Ed. rewrite Ed.
        change (c_dotdot [dot]) with false. cbn [orb]. apply IH.
      * destruct (c_dotdot (x :: c')) eqn:Edd; cbn [orb].
        -- destruct st as [|s st]; [reflexivity|].
           simpl rev. destruct (rev st ++ [s]) as [|a b] eqn:E.
           ++ exfalso. exact (snoc_ne _ _ E).
           ++ rewrite <- E. rewrite removelast_app1. apply IH.
        -- change (rev st ++ [x :: c']) with (rev ((x :: c') :: st)). apply IH.
Qed.

(* ------------------------------------------------------------------ *)
(* normpath: fast path                                                 *)
(* ------------------------------------------------------------------ *)

Definition pregood (c : str) : Prop := is_dots c = false /\ has_char slash c = false.

Lemma pregood_good c : pregood c -> c <> [] -> good c.
Proof.
  intros [Hd Hs] Hn. unfold is_dots in Hd. apply orb_false_iff in Hd as [H1 H2].
  repeat split.
  - exact Hn.
  - apply str_eqb_neq. exact H1.
  - apply str_eqb_neq. exact H2.
  - exact Hs.
Qed.

Lemma middle_empty_snoc l x : middle_empty (l ++ [x]) = existsb is_empty l.
Proof.
  induction l as [|a l IH]; [reflexivity|].
  simpl app. destruct (l ++ [x]) as [|b t] eqn:E.
  - exfalso. exact (snoc_ne _ _ E).
  - change (middle_empty (a :: b :: t)) with (is_empty a || middle_empty (b :: t)).
    simpl existsb. rewrite <- IH. reflexivity.
Qed.

Lemma Forall_good_mid mid :
  Forall pregood mid -> existsb is_empty mid = false -> Forall good mid.
Proof.
  induction mid as [|c mid IH]; intros Hp He; [constructor|].
  inversion Hp as [|? ? Hc Hm]; subst. simpl in He.
  apply orb_false_iff in He as [He1 He2].
  constructor; [|apply IH; assumption].
  apply pregood_good; [exact Hc|]. intro; subst; discriminate.
Qed.

Lemma fast_decomp cs :
  cs <> [] -> cs <> [[]] -> cs <> [[];[]] -> Forall pregood cs -> middle_empty (tl cs) = false ->
  exists (abs : bool) l (trail : bool), l <> [] /\ Forall good l /\
    cs = (if abs then [[]] else []) ++ l ++ (if trail then [[]] else []).
Proof.
  intros Hn H1 H2 Hpg Hmid.
  destruct cs as [|c0 rest]; [congruence|]. simpl in Hmid.
  inversion Hpg as [|? ? Hc0 Hrest]; subst.
  destruct rest as [|r1 rest'].
  - exists false, [c0], false. split; [discriminate|]. split; [|reflexivity].
    constructor; [|constructor]. apply pregood_good; [exact Hc0|]. intro; subst; congruence.
  - assert (Hne : r1 :: rest' <> []) by discriminate.
    destruct (exists_last Hne) as [mid [cl E]]. rewrite E in *. clear E Hne r1 rest'.
    rewrite middle_empty_snoc in Hmid.
    apply Forall_app in Hrest as [Hpm Hpl]. inversion Hpl as [|? ? Hcl _]; subst.
    pose proof (Forall_good_mid mid Hpm Hmid) as Hgm.
    destruct c0 as [|x0 c0']; destruct cl as [|xl cl'].
    + exists true, mid, true. split; [|split; [exact Hgm|reflexivity]].
      intro; subst. apply H2. reflexivity.
    + exists true, (mid ++ [xl :: cl']), false.
      split; [apply snoc_ne|]. split.
      * apply Forall_app. split; [exact Hgm|]. constructor; [|constructor].
        apply pregood_good; [exact Hcl|discriminate].
      * rewrite app_nil_r. reflexivity.
    + exists false, ((x0 :: c0') :: mid), true. split; [discriminate|]. split.
      * constructor; [|exact Hgm]. apply pregood_good; [exact Hc0|discriminate].
      * reflexivity.
    + exists false, ((x0 :: c0') :: mid ++ [xl :: cl']), false. split; [discriminate|]. split.
      * constructor; [apply pregood_good; [exact Hc0|discriminate]|].
        apply Forall_app. split; [exact Hgm|]. constructor; [|constructor].
        apply pregood_good; [exact Hcl|discriminate].
      * rewrite app_nil_r. reflexivity.
Qed.

Lemma join_decomp (abs : bool) l (trail : bool) : l <> [] ->
  join [slash] ((if abs then [[]] else []) ++ l ++ (if trail then [[]] else []))
  = to_path abs l ++ (if trail then [slash] else []).
Proof.
  intro Hn. unfold to_path.
  assert (Ht : join [slash] (l ++ (if trail then [[]] else []))
               = join [slash] l ++ (if trail then [slash] else [])).
  { destruct trail.
    - rewrite join_snoc by exact Hn. rewrite app_nil_r. reflexivity.
    - rewrite !app_nil_r. reflexivity. }
  destruct abs.
  - change ([[]] ++ l ++ (if trail then [[]] else []))
      with ([] :: (l ++ (if trail then [[]] else []))).
    rewrite join_cons.
    + rewrite Ht. simpl. reflexivity.
    + destruct l; [congruence|discriminate].
  - simpl. exact Ht.
Qed.

Lemma in_slash_true p : in_slash p = true -> p = [] \/ p = [slash].
Proof.
  unfold in_slash. intro H. apply orb_true_iff in H as [H|H].
  - left. destruct p; [reflexivity|discriminate].
  - right. apply str_eqb_eq in H. exact H.
Qed.

Lemma in_slash_false p : in_slash p = false -> p <> [] /\ p <> [slash].
Proof.
  unfold in_slash. intro H. apply orb_false_iff in H as [H1 H2]. split.
  - intro; subst; discriminate.
  - apply str_eqb_neq in H2. exact H2.
Qed.

Lemma resolve_decomp (abs : bool) l (trail : bool) : Forall good l ->
  resolve ((if abs then [[]] else []) ++ l ++ (if trail then [[]] else [])) = Some l.
Proof.
  intro Hg. unfold resolve.
  assert (H : resolve_stack (l ++ (if trail then [[]] else [])) [] = Some l).
  { rewrite resolve_good by exact Hg. rewrite app_nil_r.
    destruct trail; simpl; rewrite rev_involutive; reflexivity. }
  destruct abs; simpl; exact H.
Qed.

Lemma fast_path p : in_slash p = false -> requires_normalization p = false ->
  spec_normpath p = Ok (rstrip_c slash p).
Proof.
  intros Hin Hreq. apply in_slash_false in Hin as [Hp1 Hp2].
  unfold requires_normalization in Hreq.
  apply orb_false_iff in Hreq as [Hreq Hmid]. apply orb_false_iff in Hreq as [Hdots _].
  pose proof (join_split slash p) as Hj.
  pose proof (split_on_noslash slash p) as Hns.
  pose proof (split_on_nonnil slash p) as Hnn.
  unfold spec_normpath, comps.
  remember (split_on slash p) as cs eqn:Ecs.
  assert (Hpg : Forall pregood cs).
  { apply existsb_false_Forall in Hdots. unfold noslash in Hns.
    clear - Hdots Hns. induction cs as [|c cs IH]; [constructor|].
    inversion Hdots; subst. inversion Hns; subst.
    constructor; [split; assumption|apply IH; assumption]. }
  assert (H1 : cs <> [[]]). { intro Hc. apply Hp1. rewrite <- Hj, Hc. reflexivity. }
  assert (H2 : cs <> [[];[]]). { intro Hc. apply Hp2. rewrite <- Hj, Hc. reflexivity. }
  destruct (fast_decomp cs Hnn H1 H2 Hpg Hmid) as [abs [l [trail [Hln [Hlg Ecs']]]]].
  rewrite Ecs'. rewrite resolve_decomp by exact Hlg.
  rewrite <- Hj. rewrite Ecs'. rewrite join_decomp by exact Hln.
  rewrite starts_c_to_path_app by assumption.
  f_equal. destruct trail.
  - rewrite rstrip_c_app_slash. symmetry. apply rstrip_to_path; assumption.
  - rewrite app_nil_r. symmetry. apply rstrip_to_path; assumption.
Qed.

Theorem normpath_spec : forall s, normpath s = spec_normpath s.
Proof.
  intro s. unfold normpath.
  destruct (in_slash s) eqn:Ein.
  - apply in_slash_true in Ein as [E|E]; subst s; reflexivity.
  - destruct (requires_normalization s) eqn:Ereq; cbn [negb].
    + unfold spec_normpath, resolve, comps.
      change (norm_loop (split_on slash s) []) with (norm_loop (split_on slash s) (rev [])).
      rewrite norm_loop_resolve.
      destruct (resolve_stack (split_on slash s) []) as [r|]; reflexivity.
    + symmetry. apply fast_path; assumption.
Qed.

(* ------------------------------------------------------------------ *)
(* consequences of normpath_spec                                       *)
(* ------------------------------------------------------------------ *)

Lemma resolve_abs (abs : bool) l : Forall good l ->
  resolve ((if abs then [[]] else []) ++ l) = Some l.
Proof.
  intro Hg. unfold resolve. destruct abs; simpl; rewrite resolve_good_all by exact Hg; reflexivity.
Qed.

Lemma cform_nf_gen abs cs : Forall good cs -> cform (to_path abs cs) = Some (abs, cs).
Proof.
  intro Hg. destruct cs as [|c cs'].
  - destruct abs; reflexivity.
  - unfold cform, comps.
    rewrite split_to_path by first [exact Hg|discriminate].
    rewrite resolve_abs by exact Hg.
    rewrite starts_c_to_path by exact Hg. reflexivity.
Qed.

Lemma spec_normpath_cform s : spec_normpath s =
  match cform s with
  | None => Err IllegalBackReference
  | Some f => Ok (to_path (fst f) (snd f))
  end.
Proof. unfold spec_normpath, cform. destruct (resolve (comps s)); reflexivity. Qed.

Lemma normpath_nf abs cs : Forall good cs -> normpath (to_path abs cs) = Ok (to_path abs cs).
Proof.
  intro Hg. rewrite normpath_spec, spec_normpath_cform, cform_nf_gen by exact Hg. reflexivity.
Qed.

Lemma resolve_comps_good s cs : resolve (comps s) = Some cs -> Forall good cs.
Proof.
  intro E. apply (resolve_stack_good (comps s) [] cs);
    [apply split_on_noslash|constructor|exact E].
Qed.

Theorem normpath_clean : forall s t, normpath s = Ok t ->
  exists cs, Forall good cs /\ t = to_path (starts_c slash s) cs.
Proof.
  intros s t H. rewrite normpath_spec in H. unfold spec_normpath in H.
  destruct (resolve (comps s)) as [cs|] eqn:E; [|discriminate].
  inversion H; subst. exists cs. split; [|reflexivity].
  apply (resolve_comps_good s). exact E.
Qed.

Theorem normalised_form : forall p,
  normpath p = Ok p <-> exists abs cs, Forall good cs /\ p = to_path abs cs.
Proof.
  intro p. split.
  - intro H. destruct (normpath_clean p p H) as [cs [Hg E]].
    exists (starts_c slash p), cs. split; assumption.
  - intros [abs [cs [Hg E]]]. subst p. apply normpath_nf. exact Hg.
Qed.

Theorem normpath_idem : forall s t, normpath s = Ok t -> normpath t = Ok t.
Proof.
  intros s t H. destruct (normpath_clean s t H) as [cs [Hg E]]. subst t.
  apply normpath_nf. exact Hg.
Qed.

Theorem normpath_total : forall s, is_crash (normpath s) = false.
Proof.
  intro s. rewrite normpath_spec. unfold spec_normpath.
  destruct (resolve (comps s)); reflexivity.
Qed.

Theorem normpath_raises_iff : forall s,
  normpath s = Err IllegalBackReference <-> resolve (comps s) = None.
Proof.
  intro s. rewrite normpath_spec. unfold spec_normpath.
  destruct (resolve (comps s)); split; intro H; try reflexivity; discriminate.
Qed.

(* ------------------------------------------------------------------ *)
(* operations on normal forms (general statements)                     *)
(* ------------------------------------------------------------------ *)

Lemma list_snoc_case {A} (l : list A) : l = [] \/ exists d c, l = d ++ [c].
Proof.
  destruct l as [|x l]; [left; reflexivity|right].
  assert (Hn : x :: l <> []) by discriminate.
  destruct (exists_last Hn) as [d [c E]]. exists d, c. exact E.
Qed.

Lemma good_lstrip0 c : good c -> lstrip_c slash c = c.
Proof. intro H. rewrite <- (app_nil_r c). apply good_lstrip. exact H. Qed.

Lemma abspath_nf_gen abs cs : Forall good cs -> abspath (to_path abs cs) = to_path true cs.
Proof.
  intro Hg. unfold abspath. rewrite starts_c_to_path by exact Hg. destruct abs; reflexivity.
Qed.

Lemma relpath_nf_gen abs cs : Forall good cs -> relpath (to_path abs cs) = to_path false cs.
Proof.
  intro Hg. unfold relpath, to_path. destruct abs.
  - change (lstrip_c slash ([slash] ++ join [slash] cs)) with (lstrip_c slash (join [slash] cs)).
    apply join_good_lstrip. exact Hg.
  - apply join_good_lstrip. exact Hg.
Qed.

Lemma is_empty_to_path abs cs : cs <> [] -> Forall good cs -> is_empty (to_path abs cs) = false.
Proof.
  intros Hn Hg. pose proof (to_path_ne abs cs Hn Hg) as H.
  destruct (to_path abs cs); [congruence|reflexivity].
Qed.

Lemma psplit_snoc abs cs c : Forall good cs -> good c ->
  psplit (to_path abs (cs ++ [c])) = (to_path abs cs, c).
Proof.
  intros Hg Hc. pose proof (good_noslash c Hc) as Hns.
  destruct cs as [|d0 d'].
  - unfold psplit. destruct abs.
    + change (to_path true ([] ++ [c])) with ([] ++ slash :: c).
      rewrite rsplit1_app by exact Hns. reflexivity.
    + change (to_path false ([] ++ [c])) with c.
      apply rsplit1_none in Hns. rewrite Hns. reflexivity.
  - rewrite to_path_snoc by discriminate. unfold psplit.
    rewrite rsplit1_app by exact Hns.
    rewrite is_empty_to_path by first [discriminate|exact Hg]. reflexivity.
Qed.

Lemma split_nf_gen abs cs : Forall good cs -> psplit (to_path abs cs) = spec_split (abs, cs).
Proof.
  intro Hg. destruct (list_snoc_case cs) as [E|[d [c E]]]; subst cs.
  - destruct abs; reflexivity.
  - apply Forall_app in Hg as [Hd Hc]. inversion Hc as [|? ? Hc' _]; subst.
    rewrite psplit_snoc by assumption.
    unfold spec_split. cbn [fst snd]. rewrite rev_app_distr. simpl.
    rewrite rev_involutive. reflexivity.
Qed.

Lemma join_scan_two p c : p <> [] -> good c ->
  join_scan [p; c] false [] = (starts_c slash p, [p; c]).
Proof.
  intros Hp Hc. destruct p as [|x t]; [congruence|].
  destruct (good_head c Hc) as [y [t' [E Hy]]]. subst c.
  simpl. destruct (ceqb x slash); rewrite Hy; reflexivity.
Qed.

Lemma pjoin_eq ps absolute rel : join_scan ps false [] = (absolute, rel) ->
  pjoin ps = let* path := normpath (join s_slash rel) in
             Ok (if absolute then abspath path else path).
Proof. intro H. unfold pjoin. rewrite H. reflexivity. Qed.

Lemma pjoin_two_nf abs cs c : Forall good cs -> good c ->
  pjoin [to_path abs cs; c] = Ok (to_path abs (cs ++ [c])).
Proof.
  intros Hg Hc.
  assert (Hgc : Forall good (cs ++ [c])).
  { apply Forall_app. split; [exact Hg|]. constructor; [exact Hc|constructor]. }
  destruct cs as [|d0 d'].
  - destruct abs.
    + destruct (good_head c Hc) as [y [t' [E Hy]]].
      change (to_path true []) with [slash].
      assert (Ejs : join_scan [[slash]; c] false [] = (true, [[slash]; c])).
      { subst c. simpl. rewrite Hy. reflexivity. }
      erewrite pjoin_eq by exact Ejs.
      change (join s_slash [[slash]; c]) with (slash :: slash :: c).
      rewrite normpath_spec. unfold spec_normpath, comps.
      assert (Es : split_on slash (slash :: slash :: c) = [[]; []; c]).
      { simpl. rewrite split_on_nochar by (apply good_noslash; exact Hc). reflexivity. }
      rewrite Es. unfold resolve.
      change (resolve_stack [[]; []; c] []) with (resolve_stack [c] []).
      rewrite resolve_good_all by (constructor; [exact Hc|constructor]).
      reflexivity.
    + destruct (good_head c Hc) as [y [t' [E Hy]]].
      change (to_path false []) with (@nil char).
      assert (Ejs : join_scan [[]; c] false [] = (false, [c])).
      { subst c. simpl. rewrite Hy. reflexivity. }
      erewrite pjoin_eq by exact Ejs. change (join s_slash [c]) with (to_path false [c]).
      rewrite normpath_nf by (constructor; [exact Hc|constructor]). reflexivity.
  - assert (Ejs : join_scan [to_path abs (d0 :: d'); c] false []
                  = (abs, [to_path abs (d0 :: d'); c])).
    { rewrite join_scan_two; [|apply to_path_ne; [discriminate|exact Hg]|exact Hc].
      rewrite starts_c_to_path by exact Hg. reflexivity. }
    erewrite pjoin_eq by exact Ejs.
    change (join s_slash [to_path abs (d0 :: d'); c])
      with (to_path abs (d0 :: d') ++ slash :: c).
    rewrite <- to_path_snoc by discriminate.
    rewrite normpath_nf by exact Hgc. cbn [bind].
    destruct abs; [|reflexivity].
    rewrite abspath_nf_gen by exact Hgc. reflexivity.
Qed.

Lemma join_split_nf_gen abs cs : Forall good cs ->
  pjoin [dirname (to_path abs cs); basename (to_path abs cs)] = Ok (to_path abs cs).
Proof.
  intro Hg. destruct (list_snoc_case cs) as [E|[d [c E]]]; subst cs.
  - destruct abs; reflexivity.
  - apply Forall_app in Hg as [Hd Hc]. inversion Hc as [|? ? Hc' _]; subst.
    unfold dirname, basename. rewrite psplit_snoc by assumption. cbn [fst snd].
    apply pjoin_two_nf; assumption.
Qed.

Lemma combine_nf_gen abs cs c : Forall good cs -> good c -> lstrip_space c = c ->
  combine (to_path abs cs) c = to_path abs (cs ++ [c]).
Proof.
  intros Hg Hc Hsp. unfold combine. destruct cs as [|d0 d'].
  - destruct abs.
    + change (to_path true []) with [slash]. cbn [is_empty].
      change (rstrip_c slash [slash]) with (@nil char).
      rewrite good_lstrip0 by exact Hc. reflexivity.
    + change (to_path false []) with (@nil char). cbn [is_empty].
      rewrite Hsp. reflexivity.
  - rewrite is_empty_to_path by first [discriminate|exact Hg].
    rewrite rstrip_to_path by first [discriminate|exact Hg].
    rewrite good_lstrip0 by exact Hc.
    rewrite to_path_snoc by discriminate. reflexivity.
Qed.

Lemma combine_split_nf_gen abs cs : Forall good cs ->
  Forall (fun c => lstrip_space c = c) cs ->
  combine (dirname (to_path abs cs)) (basename (to_path abs cs)) = to_path abs cs.
Proof.
  intros Hg Hsp. destruct (list_snoc_case cs) as [E|[d [c E]]]; subst cs.
  - destruct abs; reflexivity.
  - apply Forall_app in Hg as [Hd Hc]. inversion Hc as [|? ? Hc' _]; subst.
    apply Forall_app in Hsp as [_ Hspc]. inversion Hspc as [|? ? Hspc' _]; subst.
    unfold dirname, basename. rewrite psplit_snoc by assumption. cbn [fst snd].
    apply combine_nf_gen; assumption.
Qed.

Definition parts_body (n : str) : list str :=
  let components := strip_c slash n in
  let head := if starts_c slash n then s_slash else s_dotslash in
  if is_empty components then [head] else head :: split_on slash components.

Lemma parts_unfold p : parts p = let* n := normpath p in Ok (parts_body n).
Proof. reflexivity. Qed.

Lemma parts_body_nf abs cs : Forall good cs ->
  parts_body (to_path abs cs) = spec_parts (abs, cs).
Proof.
  intro Hg. unfold parts_body, strip_c.
  change (lstrip_c slash (to_path abs cs)) with (relpath (to_path abs cs)).
  rewrite relpath_nf_gen by exact Hg.
  change (to_path false cs) with (join [slash] cs).
  rewrite rstrip_join_good by exact Hg.
  rewrite starts_c_to_path by exact Hg.
  unfold spec_parts. cbn [fst snd].
  destruct cs as [|c cs'].
  - destruct abs; reflexivity.
  - destruct (is_empty (join [slash] (c :: cs'))) eqn:E.
    + apply join_good_empty in E; [discriminate|exact Hg].
    + rewrite split_join; [destruct abs; reflexivity|discriminate|].
      apply Forall_good_noslash. exact Hg.
Qed.

Lemma parts_nf_gen abs cs : Forall good cs ->
  parts (to_path abs cs) = Ok (spec_parts (abs, cs)).
Proof.
  intro Hg. rewrite parts_unfold. rewrite normpath_nf by exact Hg. cbn [bind].
  rewrite parts_body_nf by exact Hg. reflexivity.
Qed.

Section NormalForms.
  Variables (abs : bool) (cs : list str).
  Hypothesis Hcs : Forall good cs.
  Let p := to_path abs cs.

  Theorem cform_nf : cform p = Some (abs, cs).
  Proof. apply cform_nf_gen. exact Hcs. Qed.

  Theorem abspath_nf : abspath p = to_path true cs.
  Proof. apply abspath_nf_gen. exact Hcs. Qed.

  Theorem relpath_nf : relpath p = to_path false cs.
  Proof. apply relpath_nf_gen. exact Hcs. Qed.

  Theorem split_nf : psplit p = spec_split (abs, cs).
  Proof. apply split_nf_gen. exact Hcs. Qed.

  Theorem join_split_nf : pjoin [dirname p; basename p] = Ok p.
  Proof. apply join_split_nf_gen. exact Hcs. Qed.

  Theorem split_join_nf : forall c, good c ->
    pjoin [p; c] = Ok (to_path abs (cs ++ [c])) /\ psplit (to_path abs (cs ++ [c])) = (p, c).
  Proof.
    intros c Hc. split.
    - apply pjoin_two_nf; assumption.
    - apply psplit_snoc; assumption.
  Qed.

  Theorem combine_nf : forall c, good c -> lstrip_space c = c ->
    combine p c = to_path abs (cs ++ [c]).
  Proof. intros c Hc Hsp. apply combine_nf_gen; assumption. Qed.

  Theorem combine_split_nf : Forall (fun c => lstrip_space c = c) cs ->
    combine (dirname p) (basename p) = p.
  Proof. intro Hsp. apply combine_split_nf_gen; assumption. Qed.

  Theorem parts_nf : parts p = Ok (spec_parts (abs, cs)).
  Proof. apply parts_nf_gen. exact Hcs. Qed.
End NormalForms.

(* ------------------------------------------------------------------ *)
(* iteratepath                                                         *)
(* ------------------------------------------------------------------ *)

Lemma is_empty_join_good c cs : Forall good (c :: cs) -> is_empty (join [slash] (c :: cs)) = false.
Proof.
  intro Hg. destruct (is_empty (join [slash] (c :: cs))) eqn:E; [|reflexivity].
  apply join_good_empty in E; [discriminate|exact Hg].
Qed.

Lemma resolve_comps_nf abs cs : Forall good cs -> resolve (comps (to_path abs cs)) = Some cs.
Proof.
  intro Hg. pose proof (cform_nf_gen abs cs Hg) as H. unfold cform in H.
  destruct (resolve (comps (to_path abs cs))) as [r|]; [|discriminate].
  inversion H; subst. reflexivity.
Qed.

Theorem iteratepath_spec : forall s,
  iteratepath s = match resolve (comps s) with None => Err IllegalBackReference | Some cs => Ok cs end.
Proof.
  intro s. unfold iteratepath. rewrite normpath_spec. unfold spec_normpath.
  destruct (resolve (comps s)) as [cs|] eqn:E; [|reflexivity].
  pose proof (resolve_comps_good s cs E) as Hg.
  cbn [bind]. rewrite relpath_nf_gen by exact Hg.
  change (to_path false cs) with (join [slash] cs).
  destruct cs as [|c cs']; [reflexivity|].
  rewrite is_empty_join_good by exact Hg.
  rewrite split_join; [reflexivity|discriminate|apply Forall_good_noslash; exact Hg].
Qed.

Lemma iteratepath_nf abs cs : Forall good cs -> iteratepath (to_path abs cs) = Ok cs.
Proof. intro Hg. rewrite iteratepath_spec, resolve_comps_nf by exact Hg. reflexivity. Qed.

(* ------------------------------------------------------------------ *)
(* recursepath                                                         *)
(* ------------------------------------------------------------------ *)

Fixpoint rp_res (done todo : list str) : list str :=
  match todo with
  | [] => []
  | c :: t => to_path true (done ++ [c]) :: rp_res (done ++ [c]) t
  end.

Lemma prefixes_rp todo : forall done,
  map (to_path true) (map (app done) (prefixes todo)) = to_path true done :: rp_res done todo.
Proof.
  induction todo as [|c t IH]; intro done; simpl.
  - rewrite app_nil_r. reflexivity.
  - rewrite app_nil_r. f_equal. rewrite <- IH. f_equal.
    rewrite map_map. apply map_ext. intro k. rewrite <- app_assoc. reflexivity.
Qed.

Lemma prefixes_rp0 todo :
  map (to_path true) (prefixes todo) = to_path true [] :: rp_res [] todo.
Proof.
  rewrite <- (prefixes_rp todo []). f_equal.
  symmetry. erewrite map_ext; [apply map_id|]. intro k. reflexivity.
Qed.

Lemma find_c_app c z : has_char slash c = false -> find_c slash (c ++ slash :: z) = Some (length c).
Proof.
  induction c as [|x c IH]; intro H.
  - reflexivity.
  - change (has_char slash (x :: c)) with (ceqb slash x || has_char slash c) in H.
    apply orb_false_iff in H as [H1 H2]. rewrite ceqb_sym in H1.
    cbn [app find_c]. rewrite H1. rewrite IH by exact H2. reflexivity.
Qed.

Lemma firstn_len_app {A} (a b : list A) : firstn (length a) (a ++ b) = a.
Proof. rewrite firstn_app, firstn_all, Nat.sub_diag, firstn_O, app_nil_r. reflexivity. Qed.

Lemma skipn_len_app {A} (a b : list A) : skipn (length a) (a ++ b) = b.
Proof. rewrite skipn_app, skipn_all, Nat.sub_diag. reflexivity. Qed.

Lemma cat_length_ge l : length l <= length (cat l).
Proof.
  induction l as [|c l IH]; [simpl; lia|].
  rewrite cat_cons, app_length. simpl. lia.
Qed.

Lemma cat_snoc done c : cat (done ++ [c]) = cat done ++ c ++ [slash].
Proof. rewrite cat_app, cat_cons. reflexivity. Qed.

Lemma rp_loop_cat todo : forall fuel done acc,
  noslash slash todo -> length todo < fuel ->
  rp_loop fuel (slash :: cat done ++ cat todo) (S (length (cat done))) acc
  = Ok (acc ++ rp_res done todo).
Proof.
  induction todo as [|c t IH]; intros fuel done acc Hns Hf;
    (destruct fuel as [|f]; [simpl in Hf; lia|]).
  - cbn [rp_loop]. change (cat []) with (@nil char). rewrite app_nil_r.
    cbn [length]. rewrite Nat.ltb_irrefl. simpl. rewrite app_nil_r. reflexivity.
  - inversion Hns as [|? ? Hc Ht]; subst.
    cbn [rp_loop].
    assert (Hlt : S (length (cat done)) <? length (slash :: cat done ++ cat (c :: t)) = true).
    { apply Nat.ltb_lt. cbn [length]. rewrite app_length, cat_cons, app_length. simpl. lia. }
    rewrite Hlt.
    assert (Hskip : skipn (S (length (cat done))) (slash :: cat done ++ cat (c :: t))
                    = c ++ slash :: cat t).
    { cbn [skipn]. rewrite skipn_len_app. apply cat_cons. }
    rewrite Hskip. rewrite find_c_app by exact Hc.
    assert (Hfirst : firstn (S (length (cat done)) + length c)
                       (slash :: cat done ++ cat (c :: t)) = to_path true (done ++ [c])).
    { cbn [Nat.add firstn]. unfold to_path. rewrite join_snoc_cat. rewrite cat_cons.
      rewrite (app_assoc (cat done) c). rewrite <- app_length. rewrite firstn_len_app.
      reflexivity. }
    rewrite Hfirst.
    assert (Epos : S (S (length (cat done)) + length c) = S (length (cat (done ++ [c])))).
    { rewrite cat_snoc, !app_length. simpl. lia. }
    rewrite Epos.
    assert (Epath : slash :: cat done ++ cat (c :: t) = slash :: cat (done ++ [c]) ++ cat t).
    { rewrite cat_snoc, cat_cons. rewrite <- !app_assoc. reflexivity. }
    rewrite Epath.
    rewrite IH; [|exact Ht|simpl in Hf; lia].
    cbn [rp_res]. rewrite <- app_assoc. reflexivity.
Qed.

Theorem recursepath_spec : forall s,
  match resolve (comps s) with
  | None => recursepath s false = Err IllegalBackReference
  | Some cs => cs <> [] \/ in_slash s = true ->
               recursepath s false = Ok (map (to_path true) (prefixes cs))
  end.
Proof.
  intro s. unfold recursepath.
  destruct (in_slash s) eqn:Ein.
  - apply in_slash_true in Ein as [E|E]; subst s; simpl; intros _; reflexivity.
  - rewrite normpath_spec. unfold spec_normpath.
    destruct (resolve (comps s)) as [cs|] eqn:E; [|reflexivity].
    intros [Hn|Hn]; [|discriminate].
    pose proof (resolve_comps_good s cs E) as Hg.
    cbn [bind]. rewrite abspath_nf_gen by exact Hg.
    assert (Epath : to_path true cs ++ s_slash = slash :: cat [] ++ cat cs).
    { unfold to_path. rewrite <- app_assoc.
      change (join [slash] cs ++ s_slash) with (join [slash] cs ++ [slash]).
      rewrite join_cat by exact Hn. reflexivity. }
    rewrite Epath.
    pose proof (rp_loop_cat cs (S (length (slash :: cat [] ++ cat cs))) [] [s_slash]
                  (Forall_good_noslash cs Hg)) as H.
    change (S (length (cat []))) with 1 in H.
    rewrite H.
    + cbn [bind]. rewrite prefixes_rp0. reflexivity.
    + pose proof (cat_length_ge cs) as Hl. simpl. lia.
Qed.

Theorem recursepath_nf : forall abs cs, Forall good cs ->
  recursepath (to_path abs cs) false = Ok (map (to_path true) (prefixes cs)).
Proof.
  intros abs cs Hg. pose proof (recursepath_spec (to_path abs cs)) as H.
  rewrite resolve_comps_nf in H by exact Hg. apply H.
  destruct cs as [|c cs']; [right; destruct abs; reflexivity|left; discriminate].
Qed.

Theorem recursepath_reverse : forall s, recursepath s true = omap (@rev str) (recursepath s false).
Proof.
  intro s. unfold recursepath. destruct (in_slash s); [reflexivity|].
  destruct (normpath s) as [n|e|k]; cbn [bind omap]; try reflexivity.
  destruct (rp_loop (S (length (abspath n ++ s_slash))) (abspath n ++ s_slash) 1 [s_slash])
    as [ps|e|k]; reflexivity.
Qed.

Theorem parts_spec : forall s,
  parts s = match cform s with None => Err IllegalBackReference | Some f => Ok (spec_parts f) end.
Proof.
  intro s. rewrite parts_unfold, normpath_spec. unfold spec_normpath, cform.
  destruct (resolve (comps s)) as [cs|] eqn:E; [|reflexivity].
  cbn [bind]. rewrite parts_body_nf by (apply (resolve_comps_good s); exact E). reflexivity.
Qed.

(* ------------------------------------------------------------------ *)
(* isbase                                                              *)
(* ------------------------------------------------------------------ *)

Lemma forcedir_abs cs : Forall good cs -> forcedir (to_path true cs) = slash :: cat cs.
Proof.
  intro Hg. destruct cs as [|c cs']; [reflexivity|].
  unfold forcedir. rewrite ends_c_to_path by first [exact Hg|discriminate].
  unfold to_path. rewrite <- app_assoc.
  change (join [slash] (c :: cs') ++ s_slash) with (join [slash] (c :: cs') ++ [slash]).
  rewrite join_cat by discriminate. reflexivity.
Qed.

Lemma noslash_head x t : has_char slash (x :: t) = false ->
  ceqb x slash = false /\ has_char slash t = false.
Proof.
  change (has_char slash (x :: t)) with (ceqb slash x || has_char slash t).
  intro H. apply orb_false_iff in H as [H1 H2]. rewrite ceqb_sym in H1. split; assumption.
Qed.

Lemma starts_with_comp x : forall y A B,
  has_char slash x = false -> has_char slash y = false ->
  starts_with (x ++ slash :: A) (y ++ slash :: B) = str_eqb x y && starts_with A B.
Proof.
  induction x as [|a x IH]; intros y A B Hx Hy.
  - destruct y as [|b y].
    + cbn [app starts_with str_eqb]. rewrite ceqb_refl. reflexivity.
    + apply noslash_head in Hy as [Hb _].
      cbn [app starts_with str_eqb]. rewrite ceqb_sym, Hb. reflexivity.
  - apply noslash_head in Hx as [Ha Hx].
    destruct y as [|b y].
    + cbn [app starts_with str_eqb]. rewrite Ha. reflexivity.
    + apply noslash_head in Hy as [_ Hy].
      cbn [app starts_with str_eqb]. rewrite IH by assumption.
      rewrite andb_assoc. reflexivity.
Qed.

Lemma starts_with_cat cs1 : forall cs2, noslash slash cs1 -> noslash slash cs2 ->
  starts_with (cat cs1) (cat cs2) = cprefix cs1 cs2.
Proof.
  induction cs1 as [|x cs1 IH]; intros cs2 H1 H2; [reflexivity|].
  inversion H1 as [|? ? Hx H1']; subst.
  destruct cs2 as [|y cs2].
  - rewrite cat_cons. change (cat []) with (@nil char).
    destruct x; reflexivity.
  - inversion H2 as [|? ? Hy H2']; subst.
    rewrite !cat_cons. rewrite starts_with_comp by assumption.
    rewrite IH by assumption. reflexivity.
Qed.

Theorem isbase_nf : forall a1 cs1 a2 cs2, Forall good cs1 -> Forall good cs2 ->
  isbase (to_path a1 cs1) (to_path a2 cs2) = cprefix cs1 cs2.
Proof.
  intros a1 cs1 a2 cs2 H1 H2. unfold isbase.
  rewrite !abspath_nf_gen by assumption. rewrite !forcedir_abs by assumption.
  cbn [starts_with]. rewrite ceqb_refl. cbn [andb].
  apply starts_with_cat; apply Forall_good_noslash; assumption.
Qed.

(* ------------------------------------------------------------------ *)
(* isparent / frombase                                                 *)
(* ------------------------------------------------------------------ *)

Lemma zipchk_cprefix a : forall b,
  (if length b <? length a then false else zip_all_eq a b) = cprefix a b.
Proof.
  induction a as [|x a IH]; intros b.
  - destruct b; reflexivity.
  - destruct b as [|y b]; [reflexivity|].
    cbn [length zip_all_eq cprefix]. rewrite <- IH.
    change (S (length b) <? S (length a)) with (length b <? length a).
    destruct (length b <? length a); [rewrite andb_false_r|]; reflexivity.
Qed.

Lemma isparent_cprefix p1 p2 :
  isparent p1 p2 = cprefix (rev (pop_empty_rev (rev (split_on slash p1)))) (split_on slash p2).
Proof. unfold isparent. apply zipchk_cprefix. Qed.

Lemma bits1_cons (abs : bool) cs : Forall good cs -> cs <> [] ->
  rev (pop_empty_rev (rev (split_on slash (to_path abs cs)))) = (if abs then [[]] else []) ++ cs.
Proof.
  intros Hg Hn. rewrite split_to_path by assumption.
  destruct (exists_last Hn) as [d [c E]]. subst cs.
  apply Forall_app in Hg as [_ Hc]. inversion Hc as [|? ? Hc' _]; subst.
  rewrite app_assoc. rewrite rev_app_distr. cbn [rev app].
  destruct c as [|x c']; [exfalso; apply (good_ne [] Hc'); reflexivity|].
  cbn [pop_empty_rev is_empty]. cbn [rev]. rewrite rev_involutive. reflexivity.
Qed.

Lemma split_nf_cases (abs : bool) cs : Forall good cs ->
  split_on slash (to_path abs cs)
  = match cs with
    | [] => if abs then [[]; []] else [[]]
    | _ => (if abs then [[]] else []) ++ cs
    end.
Proof.
  intro Hg. destruct cs as [|c cs'].
  - destruct abs; reflexivity.
  - apply split_to_path; [exact Hg|discriminate].
Qed.

Lemma str_eqb_nil_r c : c <> [] -> str_eqb c [] = false.
Proof. intro H. destruct c; [congruence|reflexivity]. Qed.

Lemma str_eqb_nil_l c : c <> [] -> str_eqb [] c = false.
Proof. intro H. destruct c; [congruence|reflexivity]. Qed.

Theorem isparent_nf : forall a1 cs1 a2 cs2, Forall good cs1 -> Forall good cs2 ->
  isparent (to_path a1 cs1) (to_path a2 cs2) = spec_isparent (a1, cs1) (a2, cs2).
Proof.
  intros a1 cs1 a2 cs2 H1 H2. rewrite isparent_cprefix.
  unfold spec_isparent. cbn [fst snd].
  destruct cs1 as [|c cs1'].
  - destruct a1; reflexivity.
  - rewrite bits1_cons by first [exact H1|discriminate].
    rewrite split_nf_cases by exact H2.
    inversion H1 as [|? ? Hc _]; subst. pose proof (good_ne c Hc) as Hcn.
    destruct cs2 as [|d cs2'].
    + destruct a1, a2; cbn [app cprefix]; rewrite ?str_eqb_refl, ?str_eqb_nil_r by exact Hcn;
        reflexivity.
    + inversion H2 as [|? ? Hd _]; subst. pose proof (good_ne d Hd) as Hdn.
      destruct a1, a2; cbn [app cprefix Bool.eqb].
      * rewrite str_eqb_refl, andb_true_r. reflexivity.
      * rewrite str_eqb_nil_l by exact Hdn. rewrite andb_false_r. reflexivity.
      * rewrite str_eqb_nil_r by exact Hcn. rewrite andb_false_r. reflexivity.
      * rewrite andb_true_r. reflexivity.
Qed.

Lemma cprefix_app a : forall b, cprefix a b = true -> exists t, b = a ++ t.
Proof.
  induction a as [|x a IH]; intros b H.
  - exists b. reflexivity.
  - destruct b as [|y b]; [discriminate|].
    cbn [cprefix] in H. apply andb_true_iff in H as [Hxy H].
    apply str_eqb_eq in Hxy. subst y.
    destruct (IH b H) as [t E]. subst b. exists t. reflexivity.
Qed.

Lemma join_app_prefix sep a : forall b, exists r, join sep (a ++ b) = join sep a ++ r.
Proof.
  induction a as [|x a IH]; intros b.
  - exists (join sep b). reflexivity.
  - destruct a as [|y a].
    + destruct (join_head sep x b) as [t E]. exists t. exact E.
    + destruct (IH b) as [r E].
      exists r. change ((x :: y :: a) ++ b) with (x :: ((y :: a) ++ b)).
      rewrite join_cons by discriminate. rewrite E.
      rewrite (join_cons sep x (y :: a)) by discriminate.
      rewrite <- !app_assoc. reflexivity.
Qed.

Theorem frombase_nf : forall a cs1 cs2, Forall good cs1 -> Forall good cs2 ->
  cprefix cs1 cs2 = true ->
  exists r, frombase (to_path a cs1) (to_path a cs2) = Ok r /\ to_path a cs1 ++ r = to_path a cs2.
Proof.
  intros a cs1 cs2 H1 H2 Hp. unfold frombase.
  rewrite isparent_nf by assumption. unfold spec_isparent. cbn [fst snd].
  rewrite Hp. rewrite eqb_reflx.
  assert (Et : (match cs1 with [] => true | _ :: _ => true end) = true) by (destruct cs1; reflexivity).
  rewrite Et. cbn [andb].
  destruct (cprefix_app cs1 cs2 Hp) as [t E]. subst cs2.
  destruct (join_app_prefix [slash] cs1 t) as [r Er].
  assert (E : to_path a (cs1 ++ t) = to_path a cs1 ++ r).
  { unfold to_path. rewrite Er. rewrite app_assoc. reflexivity. }
  exists (skipn (length (to_path a cs1)) (to_path a (cs1 ++ t))). split; [reflexivity|].
  rewrite E. rewrite skipn_len_app. reflexivity.
Qed.

(* ------------------------------------------------------------------ *)
(* issamedir / relativefrom                                            *)
(* ------------------------------------------------------------------ *)

Theorem issamedir_nf : forall a1 cs1 a2 cs2, Forall good cs1 -> Forall good cs2 ->
  issamedir (to_path a1 cs1) (to_path a2 cs2) = Ok (spec_issamedir (a1, cs1) (a2, cs2)).
Proof.
  intros a1 cs1 a2 cs2 H1 H2. unfold issamedir.
  rewrite !normpath_nf by assumption. cbn [bind].
  unfold dirname. rewrite !split_nf_gen by assumption. reflexivity.
Qed.

Lemma common_len_le a : forall b, common_len a b <= length a.
Proof.
  induction a as [|x a IH]; intros b; [simpl; lia|].
  destruct b as [|y b]; [simpl; lia|].
  cbn [common_len]. destruct (str_eqb x y); [|lia].
  specialize (IH b). simpl. lia.
Qed.

Lemma common_len_firstn a : forall b,
  firstn (common_len a b) a = firstn (common_len a b) b.
Proof.
  induction a as [|x a IH]; intros b; [destruct b; reflexivity|].
  destruct b as [|y b]; [reflexivity|].
  cbn [common_len]. destruct (str_eqb x y) eqn:E; [|reflexivity].
  apply str_eqb_eq in E. subst y. cbn [firstn]. rewrite IH. reflexivity.
Qed.

Lemma resolve_pops k : forall rest st, k <= length st ->
  resolve_stack (repeat s_dotdot k ++ rest) st = resolve_stack rest (skipn k st).
Proof.
  induction k as [|k IH]; intros rest st Hk; [reflexivity|].
  destruct st as [|s st]; [simpl in Hk; lia|].
  cbn [repeat app resolve_stack skipn].
  change (c_empty s_dotdot || c_dot s_dotdot) with false.
  change (c_dotdot s_dotdot) with true. cbn iota.
  apply IH. simpl in Hk. lia.
Qed.

Lemma resolve_comps_join X L : noslash slash L ->
  resolve (X ++ comps (join [slash] L)) = resolve (X ++ L).
Proof.
  intro Hns. unfold resolve, comps. destruct L as [|c L'].
  - change (split_on slash (join [slash] [])) with [@nil char].
    rewrite resolve_snoc_empty, app_nil_r. reflexivity.
  - rewrite split_join; [reflexivity|discriminate|exact Hns].
Qed.

Lemma Forall_skipn_good n cs : Forall good cs -> Forall good (skipn n cs).
Proof.
  intro Hg. rewrite <- (firstn_skipn n cs) in Hg. apply Forall_app in Hg as [_ H]. exact H.
Qed.

Theorem relativefrom_nf : forall a1 csb a2 csp, Forall good csb -> Forall good csp ->
  exists r, relativefrom (to_path a1 csb) (to_path a2 csp) = Ok r
            /\ resolve (csb ++ comps r) = Some csp.
Proof.
  intros a1 csb a2 csp Hb Hp. unfold relativefrom.
  rewrite !iteratepath_nf by assumption. cbn [bind].
  eexists. split; [reflexivity|].
  remember (common_len csb csp) as n eqn:En.
  pose proof (common_len_le csb csp) as Hle. rewrite <- En in Hle.
  pose proof (common_len_firstn csb csp) as Hfn. rewrite <- En in Hfn.
  pose proof (Forall_skipn_good n csp Hp) as Hrest.
  change (join s_slash (repeat s_dotdot (length csb - n) ++ skipn n csp))
    with (join [slash] (repeat s_dotdot (length csb - n) ++ skipn n csp)).
  rewrite resolve_comps_join.
  - unfold resolve. rewrite resolve_good by exact Hb. rewrite app_nil_r.
    rewrite resolve_pops by (rewrite rev_length; lia).
    rewrite skipn_rev.
    replace (length csb - (length csb - n)) with n by lia.
    rewrite resolve_good_all by exact Hrest.
    rewrite rev_involutive, Hfn, firstn_skipn. reflexivity.
  - unfold noslash. apply Forall_app. split.
    + apply Forall_forall. intros y Hy. apply repeat_spec in Hy. subst y. reflexivity.
    + apply Forall_good_noslash. exact Hrest.
Qed.

Example isbase_not_string_prefix :
  isbase [slash; 97%N] [slash; 97%N; 98%N] = false.
Proof. reflexivity. Qed.
