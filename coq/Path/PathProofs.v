(* Proofs that the fs.path model meets the component-list reference, for every string. *)
From Coq Require Import List NArith Bool Arith Lia.
From PyFS Require Import Base.PyStr Base.Outcome Path.PathModel Path.PathSpec.
Import ListNotations.

(* ------------------------------------------------------------------ *)
(* Generic list / string lemmas                                        *)
(* ------------------------------------------------------------------ *)

Lemma ceqb_sym a b : ceqb a b = ceqb b a.
Proof. unfold ceqb. apply N.eqb_sym. Qed.

Lemma app_cons_ne {A} (l : list A) x r : l ++ x :: r <> [].
Proof. destruct l; discriminate. Qed.

Lemma snoc_ne {A} (l : list A) x : l ++ [x] <> [].
Proof. apply app_cons_ne. Qed.

Lemma existsb_false_Forall {A} (f : A -> bool) l :
  existsb f l = false -> Forall (fun x => f x = false) l.
Proof.
  induction l as [|x l IH]; simpl; intro H; [constructor|].
  apply orb_false_iff in H as [H1 H2]. constructor; [exact H1|apply IH; exact H2].
Qed.

Lemma join_snoc sep l x : l <> [] -> join sep (l ++ [x]) = join sep l ++ sep ++ x.
Proof.
  induction l as [|y l IH]; [congruence|]. intros _.
  destruct l as [|z l].
  - reflexivity.
  - change ((y :: z :: l) ++ [x]) with (y :: ((z :: l) ++ [x])).
    rewrite join_cons by apply snoc_ne.
    rewrite IH by discriminate. rewrite (join_cons sep y (z :: l)) by discriminate.
    rewrite <- !app_assoc. reflexivity.
Qed.

(* every component followed by a slash *)
Definition cat (l : list str) : str := flat_map (fun c => c ++ [slash]) l.

Lemma cat_cons c l : cat (c :: l) = c ++ slash :: cat l.
Proof. unfold cat. simpl. rewrite <- app_assoc. reflexivity. Qed.

Lemma cat_app a b : cat (a ++ b) = cat a ++ cat b.
Proof. unfold cat. apply flat_map_app. Qed.

Lemma join_snoc_cat l x : join [slash] (l ++ [x]) = cat l ++ x.
Proof.
  induction l as [|y l IH]; [reflexivity|].
  change ((y :: l) ++ [x]) with (y :: (l ++ [x])).
  rewrite join_cons by apply snoc_ne. rewrite IH, cat_cons.
  rewrite <- app_assoc. reflexivity.
Qed.

Lemma join_cat l : l <> [] -> join [slash] l ++ [slash] = cat l.
Proof.
  intro Hn. destruct (exists_last Hn) as [l' [x E]]. subst l.
  rewrite join_snoc_cat, cat_app, <- app_assoc. f_equal.
  unfold cat. simpl. rewrite app_nil_r. reflexivity.
Qed.

Lemma join_head sep c l : exists t, join sep (c :: l) = c ++ t.
Proof.
  destruct l as [|d l].
  - exists []. simpl. rewrite app_nil_r. reflexivity.
  - exists (sep ++ join sep (d :: l)). reflexivity.
Qed.

Lemma ends_c_snoc_false c s x : ceqb x c = false -> ends_c c (s ++ [x]) = false.
Proof. intro H. rewrite ends_c_app. exact H. Qed.

(* ------------------------------------------------------------------ *)
(* good components                                                     *)
(* ------------------------------------------------------------------ *)

Lemma good_ne c : good c -> c <> [].
Proof. intros [H _]. exact H. Qed.

Lemma good_noslash c : good c -> has_char slash c = false.
Proof. intros [_ [_ [_ H]]]. exact H. Qed.

Lemma good_flags c : good c -> c_empty c = false /\ c_dot c = false /\ c_dotdot c = false.
Proof.
  intros [H1 [H2 [H3 _]]]. repeat split.
  - destruct c; [congruence|reflexivity].
  - apply str_eqb_neq. exact H2.
  - apply str_eqb_neq. exact H3.
Qed.

Lemma good_head c : good c -> exists x t, c = x :: t /\ ceqb x slash = false.
Proof.
  intros [H1 [_ [_ H4]]]. destruct c as [|x t]; [congruence|].
  exists x, t. split; [reflexivity|].
  simpl in H4. apply orb_false_iff in H4 as [H4 _]. rewrite ceqb_sym. exact H4.
Qed.

Lemma good_last c : good c -> exists t x, c = t ++ [x] /\ ceqb x slash = false.
Proof.
  intros [H1 [_ [_ H4]]]. destruct (exists_last H1) as [t [x E]]. subst c.
  exists t, x. split; [reflexivity|].
  rewrite has_char_app in H4. apply orb_false_iff in H4 as [_ H4].
  simpl in H4. apply orb_false_iff in H4 as [H4 _]. rewrite ceqb_sym. exact H4.
Qed.

Lemma Forall_good_noslash l : Forall good l -> noslash slash l.
Proof. unfold noslash. apply Forall_impl. intros c. apply good_noslash. Qed.

Lemma good_starts c x : good c -> starts_c slash (c ++ x) = false.
Proof. intro H. destruct (good_head c H) as [y [t [E Hy]]]. subst c. exact Hy. Qed.

Lemma good_lstrip c x : good c -> lstrip_c slash (c ++ x) = c ++ x.
Proof.
  intro H. destruct (good_head c H) as [y [t [E Hy]]]. subst c. simpl. rewrite Hy. reflexivity.
Qed.

(* ------------------------------------------------------------------ *)
(* to_path on good component lists                                     *)
(* ------------------------------------------------------------------ *)

Lemma join_good_starts l x : Forall good l -> l <> [] ->
  starts_c slash (join [slash] l ++ x) = false.
Proof.
  intros Hg Hn. destruct l as [|c l]; [congruence|].
  inversion Hg as [|? ? Hc Hl]; subst.
  destruct (join_head [slash] c l) as [t Et]. rewrite Et, <- app_assoc.
  apply good_starts. exact Hc.
Qed.

Lemma join_good_lstrip l : Forall good l -> lstrip_c slash (join [slash] l) = join [slash] l.
Proof.
  intros Hg. destruct l as [|c l]; [reflexivity|].
  inversion Hg as [|? ? Hc Hl]; subst.
  destruct (join_head [slash] c l) as [t Et]. rewrite Et.
  apply good_lstrip. exact Hc.
Qed.

Lemma starts_c_to_path_app abs l x : Forall good l -> l <> [] ->
  starts_c slash (to_path abs l ++ x) = abs.
Proof.
  intros Hg Hn. unfold to_path. destruct abs.
  - reflexivity.
  - simpl. apply join_good_starts; assumption.
Qed.

Lemma starts_c_to_path abs l : Forall good l -> starts_c slash (to_path abs l) = abs.
Proof.
  intros Hg. destruct l as [|c l].
  - destruct abs; reflexivity.
  - rewrite <- (app_nil_r (to_path abs (c :: l))).
    apply starts_c_to_path_app; [exact Hg|discriminate].
Qed.

Lemma ends_c_to_path abs l : Forall good l -> l <> [] -> ends_c slash (to_path abs l) = false.
Proof.
  intros Hg Hn. destruct (exists_last Hn) as [l' [c E]]. subst l.
  apply Forall_app in Hg as [_ Hc]. inversion Hc as [|? ? Hc' _]; subst.
  destruct (good_last c Hc') as [t [x [E Hx]]]. subst c.
  unfold to_path. rewrite join_snoc_cat. rewrite !app_assoc.
  apply ends_c_snoc_false. exact Hx.
Qed.

Lemma rstrip_to_path abs l : Forall good l -> l <> [] ->
  rstrip_c slash (to_path abs l) = to_path abs l.
Proof. intros Hg Hn. apply rstrip_c_noend. apply ends_c_to_path; assumption. Qed.

Lemma rstrip_join_good l : Forall good l -> rstrip_c slash (join [slash] l) = join [slash] l.
Proof.
  intros Hg. destruct l as [|c l]; [reflexivity|].
  apply (rstrip_to_path false (c :: l)); [exact Hg|discriminate].
Qed.

Lemma to_path_ne abs l : l <> [] -> Forall good l -> to_path abs l <> [].
Proof.
  intros Hn Hg E. destruct l as [|c l]; [congruence|].
  inversion Hg as [|? ? Hc Hl]; subst.
  unfold to_path in E. apply app_eq_nil in E as [_ E].
  destruct (join_head [slash] c l) as [t Et]. rewrite Et in E.
  apply app_eq_nil in E as [E _]. apply (good_ne c Hc). exact E.
Qed.

Lemma join_good_empty l : Forall good l -> is_empty (join [slash] l) = true -> l = [].
Proof.
  intros Hg H. destruct l as [|c l]; [reflexivity|].
  exfalso. apply (to_path_ne false (c :: l)); [discriminate|exact Hg|].
  change (join [slash] (c :: l) = []).
  destruct (join [slash] (c :: l)) as [|y t]; [reflexivity|discriminate].
Qed.

Lemma to_path_snoc abs l c : l <> [] -> to_path abs (l ++ [c]) = to_path abs l ++ slash :: c.
Proof.
  intro Hn. unfold to_path. rewrite join_snoc by exact Hn. rewrite <- app_assoc. reflexivity.
Qed.

Lemma split_to_path abs l : Forall good l -> l <> [] ->
  split_on slash (to_path abs l) = (if abs then [[]] else []) ++ l.
Proof.
  intros Hg Hn. unfold to_path. destruct abs.
  - change ([slash] ++ join [slash] l) with (slash :: join [slash] l).
    simpl. rewrite split_join; [reflexivity|exact Hn|apply Forall_good_noslash; exact Hg].
  - simpl. apply split_join; [exact Hn|apply Forall_good_noslash; exact Hg].
Qed.

(* ------------------------------------------------------------------ *)
(* resolution                                                          *)
(* ------------------------------------------------------------------ *)

Lemma resolve_good l Y st : Forall good l ->
  resolve_stack (l ++ Y) st = resolve_stack Y (rev l ++ st).
Proof.
  revert st. induction l as [|c l IH]; intros st Hg; [reflexivity|].
  inversion Hg as [|? ? Hc Hl]; subst.
  destruct (good_flags c Hc) as [F1 [F2 F3]].
  simpl. rewrite F1, F2, F3. simpl. rewrite IH by exact Hl.
  rewrite <- app_assoc. reflexivity.
Qed.

Lemma resolve_good_all l st : Forall good l -> resolve_stack l st = Some (rev st ++ l).
Proof.
  intro Hg. rewrite <- (app_nil_r l) at 1. rewrite resolve_good by exact Hg.
  simpl. rewrite rev_app_distr, rev_involutive. reflexivity.
Qed.

Lemma resolve_snoc_empty X st : resolve_stack (X ++ [[]]) st = resolve_stack X st.
Proof.
  revert st. induction X as [|c X IH]; intros st; [reflexivity|].
  simpl. destruct (c_empty c || c_dot c); [apply IH|].
  destruct (c_dotdot c); [|apply IH].
  destruct st as [|s st]; [reflexivity|apply IH].
Qed.

Lemma resolve_stack_good cs : forall st r,
  noslash slash cs -> Forall good st -> resolve_stack cs st = Some r -> Forall good r.
Proof.
  induction cs as [|c cs IH]; intros st r Hns Hst H.
  - simpl in H. inversion H; subst. apply Forall_rev. exact Hst.
  - inversion Hns as [|? ? Hc Hcs]; subst. simpl in H.
    destruct (c_empty c || c_dot c) eqn:E1; [apply (IH st r); assumption|].
    destruct (c_dotdot c) eqn:E2.
    + destruct st as [|s st]; [discriminate|].
      inversion Hst; subst. apply (IH st r); assumption.
    + apply (IH (c :: st) r); [assumption| |assumption].
      constructor; [|assumption].
      apply orb_false_iff in E1 as [E0 E1].
      repeat split.
      * intro; subst; discriminate.
      * apply str_eqb_neq. exact E1.
      * apply str_eqb_neq. exact E2.
      * exact Hc.
Qed.

(* ------------------------------------------------------------------ *)
(* normpath: slow path                                                 *)
(* ------------------------------------------------------------------ *)

Lemma norm_loop_resolve cs : forall st, norm_loop cs (rev st) = resolve_stack cs st.
Proof.
  induction cs as [|c cs IH]; intros st.
  - reflexivity.
  - destruct c as [|x c'].
    + simpl. apply IH.
    + cbn [norm_loop resolve_stack].
      unfold in_dotdot. change (is_empty (x :: c')) with false.
      change (c_empty (x :: c')) with false. cbn [orb].
      change (is_dot (x :: c')) with (c_dot (x :: c')).
      change (is_dotdot (x :: c')) with (c_dotdot (x :: c')).
      destruct (c_dot (x :: c')) eqn:Ed.
      * apply str_eqb_eq in Ed. rewrite Ed.
        change (c_dotdot [dot]) with false. cbn [orb]. apply IH.
      * destruct (c_dotdot (x :: c')) eqn:Edd; cbn [orb].
        -- destruct st as [|s st]; [reflexivity|].
           simpl rev. destruct (rev st ++ [s]) as [|a b] eqn:E.
           ++ exfalso. exact (snoc_ne _ _ E).
           ++ rewrite <- E. rewrite removelast_app1. apply IH.
        -- change (rev st ++ [x :: c']) with (rev ((x :: c') :: st)). apply IH.
Qed.

(* ------------------------------------------------------------------ *)
(* normpath: fast path                                                 *)
(* ------------------------------------------------------------------ *)

Definition pregood (c : str) : Prop := is_dots c = false /\ has_char slash c = false.

Lemma pregood_good c : pregood c -> c <> [] -> good c.
Proof.
  intros [Hd Hs] Hn. unfold is_dots in Hd. apply orb_false_iff in Hd as [H1 H2].
  repeat split.
  - exact Hn.
  - apply str_eqb_neq. exact H1.
  - apply str_eqb_neq. exact H2.
  - exact Hs.
Qed.

Lemma middle_empty_snoc l x : middle_empty (l ++ [x]) = existsb is_empty l.
Proof.
  induction l as [|a l IH]; [reflexivity|].
  simpl app. destruct (l ++ [x]) as [|b t] eqn:E.
  - exfalso. exact (snoc_ne _ _ E).
  - change (middle_empty (a :: b :: t)) with (is_empty a || middle_empty (b :: t)).
    simpl existsb. rewrite <- IH. reflexivity.
Qed.

Lemma Forall_good_mid mid :
  Forall pregood mid -> existsb is_empty mid = false -> Forall good mid.
Proof.
  induction mid as [|c mid IH]; intros Hp He; [constructor|].
  inversion Hp as [|? ? Hc Hm]; subst. simpl in He.
  apply orb_false_iff in He as [He1 He2].
  constructor; [|apply IH; assumption].
  apply pregood_good; [exact Hc|]. intro; subst; discriminate.
Qed.

Lemma fast_decomp cs :
  cs <> [] -> cs <> [[]] -> cs <> [[];[]] -> Forall pregood cs -> middle_empty (tl cs) = false ->
  exists (abs : bool) l (trail : bool), l <> [] /\ Forall good l /\
    cs = (if abs then [[]] else []) ++ l ++ (if trail then [[]] else []).
Proof.
  intros Hn H1 H2 Hpg Hmid.
  destruct cs as [|c0 rest]; [congruence|]. simpl in Hmid.
  inversion Hpg as [|? ? Hc0 Hrest]; subst.
  destruct rest as [|r1 rest'].
  - exists false, [c0], false. split; [discriminate|]. split; [|reflexivity].
    constructor; [|constructor]. apply pregood_good; [exact Hc0|]. intro; subst; congruence.
  - assert (Hne : r1 :: rest' <> []) by discriminate.
    destruct (exists_last Hne) as [mid [cl E]]. rewrite E in *. clear E Hne r1 rest'.
    rewrite middle_empty_snoc in Hmid.
    apply Forall_app in Hrest as [Hpm Hpl]. inversion Hpl as [|? ? Hcl _]; subst.
    pose proof (Forall_good_mid mid Hpm Hmid) as Hgm.
    destruct c0 as [|x0 c0']; destruct cl as [|xl cl'].
    + exists true, mid, true. split; [|split; [exact Hgm|reflexivity]].
      intro; subst. apply H2. reflexivity.
    + exists true, (mid ++ [xl :: cl']), false.
      split; [apply snoc_ne|]. split.
      * apply Forall_app. split; [exact Hgm|]. constructor; [|constructor].
        apply pregood_good; [exact Hcl|discriminate].
      * rewrite app_nil_r. reflexivity.
    + exists false, ((x0 :: c0') :: mid), true. split; [discriminate|]. split.
      * constructor; [|exact Hgm]. apply pregood_good; [exact Hc0|discriminate].
      * reflexivity.
    + exists false, ((x0 :: c0') :: mid ++ [xl :: cl']), false. split; [discriminate|]. split.
      * constructor; [apply pregood_good; [exact Hc0|discriminate]|].
        apply Forall_app. split; [exact Hgm|]. constructor; [|constructor].
        apply pregood_good; [exact Hcl|discriminate].
      * rewrite app_nil_r. reflexivity.
Qed.

Lemma join_decomp (abs : bool) l (trail : bool) : l <> [] ->
  join [slash] ((if abs then [[]] else []) ++ l ++ (if trail then [[]] else []))
  = to_path abs l ++ (if trail then [slash] else []).
Proof.
  intro Hn. unfold to_path.
  assert (Ht : join [slash] (l ++ (if trail then [[]] else []))
               = join [slash] l ++ (if trail then [slash] else [])).
  { destruct trail.
    - rewrite join_snoc by exact Hn. rewrite app_nil_r. reflexivity.
    - rewrite !app_nil_r. reflexivity. }
  destruct abs.
  - change ([[]] ++ l ++ (if trail then [[]] else []))
      with ([] :: (l ++ (if trail then [[]] else []))).
    rewrite join_cons.
    + rewrite Ht. simpl. reflexivity.
    + destruct l; [congruence|discriminate].
  - simpl. exact Ht.
Qed.

Lemma in_slash_true p : in_slash p = true -> p = [] \/ p = [slash].
Proof.
  unfold in_slash. intro H. apply orb_true_iff in H as [H|H].
  - left. destruct p; [reflexivity|discriminate].
  - right. apply str_eqb_eq in H. exact H.
Qed.

Lemma in_slash_false p : in_slash p = false -> p <> [] /\ p <> [slash].
Proof.
  unfold in_slash. intro H. apply orb_false_iff in H as [H1 H2]. split.
  - intro; subst; discriminate.
  - apply str_eqb_neq in H2. exact H2.
Qed.

Lemma resolve_decomp (abs : bool) l (trail : bool) : Forall good l ->
  resolve ((if abs then [[]] else []) ++ l ++ (if trail then [[]] else [])) = Some l.
Proof.
  intro Hg. unfold resolve.
  assert (H : resolve_stack (l ++ (if trail then [[]] else [])) [] = Some l).
  { rewrite resolve_good by exact Hg. rewrite app_nil_r.
    destruct trail; simpl; rewrite rev_involutive; reflexivity. }
  destruct abs; simpl; exact H.
Qed.

Lemma fast_path p : in_slash p = false -> requires_normalization p = false ->
  spec_normpath p = Ok (rstrip_c slash p).
Proof.
  intros Hin Hreq. apply in_slash_false in Hin as [Hp1 Hp2].
  unfold requires_normalization in Hreq.
  apply orb_false_iff in Hreq as [Hreq Hmid]. apply orb_false_iff in Hreq as [Hdots _].
  pose proof (join_split slash p) as Hj.
  pose proof (split_on_noslash slash p) as Hns.
  pose proof (split_on_nonnil slash p) as Hnn.
  unfold spec_normpath, comps.
  remember (split_on slash p) as cs eqn:Ecs.
  assert (Hpg : Forall pregood cs).
  { apply existsb_false_Forall in Hdots. unfold noslash in Hns.
    clear - Hdots Hns. induction cs as [|c cs IH]; [constructor|].
    inversion Hdots; subst. inversion Hns; subst.
    constructor; [split; assumption|apply IH; assumption]. }
  assert (H1 : cs <> [[]]). { intro Hc. apply Hp1. rewrite <- Hj, Hc. reflexivity. }
  assert (H2 : cs <> [[];[]]). { intro Hc. apply Hp2. rewrite <- Hj, Hc. reflexivity. }
  destruct (fast_decomp cs Hnn H1 H2 Hpg Hmid) as [abs [l [trail [Hln [Hlg Ecs']]]]].
  rewrite Ecs'. rewrite resolve_decomp by exact Hlg.
  rewrite <- Hj. rewrite Ecs'. rewrite join_decomp by exact Hln.
  rewrite starts_c_to_path_app by assumption.
  f_equal. destruct trail.
  - rewrite rstrip_c_app_slash. symmetry. apply rstrip_to_path; assumption.
  - rewrite app_nil_r. symmetry. apply rstrip_to_path; assumption.
Qed.

Theorem normpath_spec : forall s, normpath s = spec_normpath s.
Proof.
  intro s. unfold normpath.
  destruct (in_slash s) eqn:Ein.
  - apply in_slash_true in Ein as [E|E]; subst s; reflexivity.
  - destruct (requires_normalization s) eqn:Ereq; cbn [negb].
    + unfold spec_normpath, resolve, comps.
      change (norm_loop (split_on slash s) []) with (norm_loop (split_on slash s) (rev [])).
      rewrite norm_loop_resolve.
      destruct (resolve_stack (split_on slash s) []) as [r|]; reflexivity.
    + symmetry. apply fast_path; assumption.
Qed.
