(* Component-list reference for fs.path (written independently of PathModel). *)
From Coq Require Import List NArith Bool Arith Lia.
From PyFS Require Import Base.PyStr Base.Outcome.
Import ListNotations.

Definition comps (s : str) : list str := split_on slash s.

Definition c_empty (c : str) : bool := match c with [] => true | _ => false end.
Definition c_dot (c : str) : bool := str_eqb c [dot].
Definition c_dotdot (c : str) : bool := str_eqb c [dot; dot].

(* resolution with a stack (most recent component first) *)
Fixpoint resolve_stack (cs : list str) (stack : list str) : option (list str) :=
  match cs with
  | [] => Some (rev stack)
  | c :: rest =>
    if c_empty c || c_dot c then resolve_stack rest stack
    else if c_dotdot c then
      match stack with
      | [] => None
      | _ :: st => resolve_stack rest st
      end
    else resolve_stack rest (c :: stack)
  end.

Definition resolve (cs : list str) : option (list str) := resolve_stack cs [].

Definition to_path (abs : bool) (cs : list str) : str :=
  (if abs then [slash] else []) ++ join [slash] cs.

Definition spec_normpath (s : str) : outcome str :=
  match resolve (comps s) with
  | None => Err IllegalBackReference
  | Some cs => Ok (to_path (starts_c slash s) cs)
  end.

(* a proper component of a normalised path *)
Definition good (c : str) : Prop :=
  c <> [] /\ c <> [dot] /\ c <> [dot; dot] /\ has_char slash c = false.
Definition goodb (c : str) : bool :=
  negb (c_empty c) && negb (c_dot c) && negb (c_dotdot c) && negb (has_char slash c).

(* component-list prefix *)
Fixpoint cprefix (a b : list str) : bool :=
  match a, b with
  | [], _ => true
  | x :: a', y :: b' => str_eqb x y && cprefix a' b'
  | _ :: _, [] => false
  end.

Fixpoint list_str_eqb (a b : list str) : bool :=
  match a, b with
  | [], [] => true
  | x :: a', y :: b' => str_eqb x y && list_str_eqb a' b'
  | _, _ => false
  end.

(* all prefixes of a list, shortest first: [[]; [c1]; [c1;c2]; ...] *)
Fixpoint prefixes {A} (l : list A) : list (list A) :=
  match l with
  | [] => [[]]
  | x :: xs => [] :: map (cons x) (prefixes xs)
  end.

(* the canonical form of an arbitrary path: (absolute?, resolved components) *)
Definition cform (s : str) : option (bool * list str) :=
  match resolve (comps s) with
  | None => None
  | Some cs => Some (starts_c slash s, cs)
  end.

(* reference answers, on canonical forms *)
Definition spec_isbase (p q : bool * list str) : bool := cprefix (snd p) (snd q).
Definition spec_isparent (p q : bool * list str) : bool :=
  cprefix (snd p) (snd q) && (match snd p with [] => true | _ => Bool.eqb (fst p) (fst q) end).
Definition spec_split (p : bool * list str) : str * str :=
  match rev (snd p) with
  | [] => (if fst p then [slash] else [], [])
  | l :: ri => (to_path (fst p) (rev ri), l)
  end.
Definition spec_recursepath (p : bool * list str) : list str :=
  map (to_path true) (prefixes (snd p)).
Definition spec_parts (p : bool * list str) : list str :=
  (if fst p then [slash] else [dot; slash]) :: snd p.
Definition spec_issamedir (p q : bool * list str) : bool :=
  str_eqb (fst (spec_split p)) (fst (spec_split q)).
