(* Dispatcher for the fs.path model: name + arguments -> rendered observation. *)
From Coq Require Import List NArith Bool String.
From PyFS Require Import Base.PyStr Base.Outcome Base.Render Path.PathModel.
Import ListNotations.
Local Open Scope string_scope.

Definition is_name (n : str) (x : string) : bool := str_eqb n (lit x).

Definition run_path (name : str) (a : list str) : str :=
  if is_name name "normpath" then r_outcome r_str (normpath (arg 0 a))
  else if is_name name "iteratepath" then r_outcome (r_list r_str) (iteratepath (arg 0 a))
  else if is_name name "recursepath" then r_outcome (r_list r_str) (recursepath (arg 0 a) false)
  else if is_name name "recursepath_rev" then r_outcome (r_list r_str) (recursepath (arg 0 a) true)
  else if is_name name "isabs" then r_bool (isabs (arg 0 a))
  else if is_name name "abspath" then r_str (abspath (arg 0 a))
  else if is_name name "relpath" then r_str (relpath (arg 0 a))
  else if is_name name "forcedir" then r_str (forcedir (arg 0 a))
  else if is_name name "join" then r_outcome r_str (pjoin a)
  else if is_name name "combine" then r_str (combine (arg 0 a) (arg 1 a))
  else if is_name name "parts" then r_outcome (r_list r_str) (parts (arg 0 a))
  else if is_name name "split" then r_pair r_str r_str (psplit (arg 0 a))
  else if is_name name "splitext" then r_outcome (r_pair r_str r_str) (splitext (arg 0 a))
  else if is_name name "isdotfile" then r_bool (isdotfile (arg 0 a))
  else if is_name name "dirname" then r_str (dirname (arg 0 a))
  else if is_name name "basename" then r_str (basename (arg 0 a))
  else if is_name name "issamedir" then r_outcome r_bool (issamedir (arg 0 a) (arg 1 a))
  else if is_name name "isbase" then r_bool (isbase (arg 0 a) (arg 1 a))
  else if is_name name "isparent" then r_bool (isparent (arg 0 a) (arg 1 a))
  else if is_name name "frombase" then r_outcome r_str (frombase (arg 0 a) (arg 1 a))
  else if is_name name "relativefrom" then r_outcome r_str (relativefrom (arg 0 a) (arg 1 a))
  else if is_name name "iswildcard" then r_bool (iswildcard (arg 0 a))
  else lit "?unknown".
