(* Dispatcher for the fs.path model: name + arguments -> rendered observation. *)
From Coq Require Import List NArith Bool String.
From PyFS Require Import Base.PyStr Base.Outcome Base.Render Path.PathModel Path.PathSpec.
Import ListNotations.
Local Open Scope string_scope.

Definition is_name (n : str) (x : string) : bool := str_eqb n (lit x).

(* reference answers (PathSpec) on canonical forms; "undef" outside the laws' domain *)
Definition with_cform (p : str) (k : bool * list str -> str) : str :=
  match cform p with Some f => k f | None => lit "undef" end.

Definition run_path_spec (name : str) (a : list str) : str :=
  if is_name name "spec_normpath" then r_outcome r_str (spec_normpath (arg 0 a))
  else if is_name name "spec_iteratepath" then
    with_cform (arg 0 a) (fun f => r_outcome (r_list r_str) (Ok (snd f)))
  else if is_name name "spec_recursepath" then
    with_cform (arg 0 a) (fun f => r_outcome (r_list r_str) (Ok (spec_recursepath f)))
  else if is_name name "spec_parts" then
    with_cform (arg 0 a) (fun f => r_outcome (r_list r_str) (Ok (spec_parts f)))
  else if is_name name "spec_split" then
    with_cform (arg 0 a) (fun f => r_pair r_str r_str (spec_split f))
  else if is_name name "spec_abspath" then
    with_cform (arg 0 a) (fun f => r_str (to_path true (snd f)))
  else if is_name name "spec_relpath" then
    with_cform (arg 0 a) (fun f => r_str (to_path false (snd f)))
  else if is_name name "spec_isbase" then
    with_cform (arg 0 a) (fun f => with_cform (arg 1 a) (fun g => r_bool (spec_isbase f g)))
  else if is_name name "spec_isparent" then
    with_cform (arg 0 a) (fun f => with_cform (arg 1 a) (fun g => r_bool (spec_isparent f g)))
  else if is_name name "spec_issamedir" then
    with_cform (arg 0 a) (fun f => with_cform (arg 1 a) (fun g =>
      r_outcome r_bool (Ok (spec_issamedir f g))))
  else if is_name name "spec_relativefrom_ok" then
    (* arguments: base, path, result r of relativefrom: does base ++ r resolve to path? *)
    with_cform (arg 0 a) (fun f => with_cform (arg 1 a) (fun g =>
      r_bool (match resolve (snd f ++ comps (arg 2 a)) with
              | Some cs => list_str_eqb cs (snd g) | None => false end)))
  else lit "?unknown".

Definition run_path (name : str) (a : list str) : str :=
  if is_name name "normpath" then r_outcome r_str (normpath (arg 0 a))
  else if is_name name "iteratepath" then r_outcome (r_list r_str) (iteratepath (arg 0 a))
  else if is_name name "recursepath" then r_outcome (r_list r_str) (recursepath (arg 0 a) false)
  else if is_name name "recursepath_rev" then r_outcome (r_list r_str) (recursepath (arg 0 a) true)
  else if is_name name "isabs" then r_bool (isabs (arg 0 a))
  else if is_name name "abspath" then r_str (abspath (arg 0 a))
  else if is_name name "relpath" then r_str (relpath (arg 0 a))
  else if is_name name "forcedir" then r_str (forcedir (arg 0 a))
  else if is_name name "join" then r_outcome r_str (pjoin a)
  else if is_name name "combine" then r_str (combine (arg 0 a) (arg 1 a))
  else if is_name name "parts" then r_outcome (r_list r_str) (parts (arg 0 a))
  else if is_name name "split" then r_pair r_str r_str (psplit (arg 0 a))
  else if is_name name "splitext" then r_outcome (r_pair r_str r_str) (splitext (arg 0 a))
  else if is_name name "isdotfile" then r_bool (isdotfile (arg 0 a))
  else if is_name name "dirname" then r_str (dirname (arg 0 a))
  else if is_name name "basename" then r_str (basename (arg 0 a))
  else if is_name name "issamedir" then r_outcome r_bool (issamedir (arg 0 a) (arg 1 a))
  else if is_name name "isbase" then r_bool (isbase (arg 0 a) (arg 1 a))
  else if is_name name "isparent" then r_bool (isparent (arg 0 a) (arg 1 a))
  else if is_name name "frombase" then r_outcome r_str (frombase (arg 0 a) (arg 1 a))
  else if is_name name "relativefrom" then r_outcome r_str (relativefrom (arg 0 a) (arg 1 a))
  else if is_name name "iswildcard" then r_bool (iswildcard (arg 0 a))
  else run_path_spec name a.
