(* Model of fs/path.py, function by function, on lists of code points. *)
From Coq Require Import List NArith Bool Arith Lia.
From PyFS Require Import Base.PyStr Base.Outcome.
Import ListNotations.

Definition s_slash : str := [slash].
Definition s_dot : str := [dot].
Definition s_dotdot : str := [dot; dot].
Definition s_dotslash : str := [dot; slash].

Definition is_empty (s : str) : bool := match s with [] => true | _ => false end.
Definition is_dot (s : str) : bool := str_eqb s s_dot.
Definition is_dotdot (s : str) : bool := str_eqb s s_dotdot.

(* `path in "/"` : path is a substring of "/" *)
Definition in_slash (p : str) : bool := is_empty p || str_eqb p s_slash.
(* `component in ".."` *)
Definition in_dotdot (c : str) : bool := is_empty c || is_dot c || is_dotdot c.

(* The regex (^|/)\.\.?($|/)|// used with .search, at component granularity:
   - some component is "." or ".."  (the component boundaries are ^, / and $, /);
   - `$` (without re.M) also matches just before a final "\n": the LAST component
     may be ".\n" or "..\n";
   - "//" occurs iff a component that is neither the first nor the last is empty. *)
Definition is_dots (c : str) : bool := is_dot c || is_dotdot c.
Definition is_dots_nl (c : str) : bool :=
  str_eqb c [dot; newline] || str_eqb c [dot; dot; newline].

Fixpoint middle_empty (l : list str) : bool :=   (* l = components after the first *)
  match l with
  | [] => false
  | [_] => false
  | c :: rest => is_empty c || middle_empty rest
  end.

Definition requires_normalization (p : str) : bool :=
  let cs := split_on slash p in
  existsb is_dots cs
  || match last_opt cs with Some c => is_dots_nl c | None => false end
  || middle_empty (tl cs).

(* the component loop of normpath: components kept in order, pop() at the end *)
Fixpoint norm_loop (cs : list str) (acc : list str) : option (list str) :=
  match cs with
  | [] => Some acc
  | c :: rest =>
    if in_dotdot c then
      if is_dotdot c then
        match acc with
        | [] => None                       (* pop from empty list: IndexError *)
        | _ => norm_loop rest (removelast acc)
        end
      else norm_loop rest acc
    else norm_loop rest (acc ++ [c])
  end.

Definition normpath (p : str) : outcome str :=
  if in_slash p then Ok p
  else if negb (requires_normalization p) then Ok (rstrip_c slash p)
  else
    let prefix := if starts_c slash p then s_slash else [] in
    match norm_loop (split_on slash p) [] with
    | None => Err IllegalBackReference
    | Some comps => Ok (prefix ++ join s_slash comps)
    end.

Definition isabs (p : str) : bool := starts_c slash p.
Definition abspath (p : str) : str := if starts_c slash p then p else slash :: p.
Definition relpath (p : str) : str := lstrip_c slash p.
Definition forcedir (p : str) : str := if ends_c slash p then p else p ++ s_slash.

Definition iteratepath (p : str) : outcome (list str) :=
  let* n := normpath p in
  let q := relpath n in
  if is_empty q then Ok [] else Ok (split_on slash q).

(* recursepath: the find loop, on fuel *)
Fixpoint rp_loop (fuel : nat) (path : str) (pos : nat) (acc : list str) : outcome (list str) :=
  match fuel with
  | 0 => Crash NonTermination
  | S f =>
    if pos <? length path then
      match find_c slash (skipn pos path) with
      | None => Crash Unreachable       (* find() = -1 cannot happen: path ends with "/" *)
      | Some k => rp_loop f path (S (pos + k)) (acc ++ [firstn (pos + k) path])
      end
    else Ok acc
  end.

Definition recursepath (p : str) (reverse : bool) : outcome (list str) :=
  if in_slash p then Ok [s_slash]
  else
    let* n := normpath p in
    let path := abspath n ++ s_slash in
    let* paths := rp_loop (S (length path)) path 1 [s_slash] in
    Ok (if reverse then rev paths else paths).

(* join of any number of paths *)
Fixpoint join_scan (ps : list str) (absolute : bool) (rel : list str) : bool * list str :=
  match ps with
  | [] => (absolute, rel)
  | p :: rest =>
    match p with
    | [] => join_scan rest absolute rel
    | c :: _ => if ceqb c slash then join_scan rest true [p]
                else join_scan rest absolute (rel ++ [p])
    end
  end.

Definition pjoin (ps : list str) : outcome str :=
  let '(absolute, rel) := join_scan ps false [] in
  let* path := normpath (join s_slash rel) in
  Ok (if absolute then abspath path else path).

(* str.isspace() code points (checked against the interpreter on every run) *)
Definition space_points : list N :=
  [9; 10; 11; 12; 13; 28; 29; 30; 31; 32; 133; 160; 5760; 8192; 8193; 8194; 8195; 8196;
   8197; 8198; 8199; 8200; 8201; 8202; 8232; 8233; 8239; 8287; 12288]%N.
Definition is_space (c : char) : bool := existsb (N.eqb c) space_points.
Fixpoint lstrip_space (s : str) : str :=
  match s with
  | x :: xs => if is_space x then lstrip_space xs else s
  | [] => []
  end.

Definition combine (p1 p2 : str) : str :=
  if is_empty p1 then lstrip_space p2
  else rstrip_c slash p1 ++ s_slash ++ lstrip_c slash p2.

Definition parts (p : str) : outcome (list str) :=
  let* n := normpath p in
  let components := strip_c slash n in
  let head := if starts_c slash n then s_slash else s_dotslash in
  Ok (if is_empty components then [head] else head :: split_on slash components).

Definition psplit (p : str) : str * str :=
  match rsplit1 slash p with
  | None => ([], p)
  | Some (a, b) => (if is_empty a then s_slash else a, b)
  end.

Definition dirname (p : str) : str := fst (psplit p).
Definition basename (p : str) : str := snd (psplit p).
Definition isdotfile (p : str) : bool := starts_c dot (basename p).

Definition splitext (p : str) : outcome (str * str) :=
  let '(parent, name) := psplit p in
  if starts_c dot name && (count_c dot name =? 1) then Ok (p, [])
  else match rsplit1 dot name with
       | None => Ok (p, [])
       | Some (n, ext) =>
         let* q := pjoin [parent; n] in Ok (q, dot :: ext)
       end.

Definition issamedir (p1 p2 : str) : outcome bool :=
  let* n1 := normpath p1 in
  let* n2 := normpath p2 in
  Ok (str_eqb (dirname n1) (dirname n2)).

Definition isbase (p1 p2 : str) : bool :=
  starts_with (forcedir (abspath p1)) (forcedir (abspath p2)).

Fixpoint pop_empty_rev (r : list str) : list str :=   (* on the reversed list *)
  match r with
  | c :: rest => if is_empty c then pop_empty_rev rest else r
  | [] => []
  end.

Fixpoint zip_all_eq (a b : list str) : bool :=
  match a, b with
  | x :: a', y :: b' => str_eqb x y && zip_all_eq a' b'
  | _, _ => true
  end.

Definition isparent (p1 p2 : str) : bool :=
  let bits1 := rev (pop_empty_rev (rev (split_on slash p1))) in
  let bits2 := split_on slash p2 in
  if length bits2 <? length bits1 then false
  else zip_all_eq bits1 bits2.

Definition frombase (p1 p2 : str) : outcome str :=
  if isparent p1 p2 then Ok (skipn (length p1) p2) else Crash ValueError.

Fixpoint common_len (a b : list str) : nat :=
  match a, b with
  | x :: a', y :: b' => if str_eqb x y then S (common_len a' b') else 0
  | _, _ => 0
  end.

Definition relativefrom (base p : str) : outcome str :=
  let* bp := iteratepath base in
  let* pp := iteratepath p in
  let common := common_len bp pp in
  Ok (join s_slash (repeat s_dotdot (length bp - common) ++ skipn common pp)).

Definition wild_chars : list N := [42; 63; 91; 93; 33; 123; 125]%N.  (* *?[]!{} *)
Definition iswildcard (p : str) : bool :=
  existsb (fun c => existsb (N.eqb c) wild_chars) p.
