(* Validated paths and the MemoryFS primitives expressed on resolved component paths. *)
From Coq Require Import List NArith ZArith Bool Arith Lia.
From PyFS Require Import Base.PyStr Base.Outcome Path.PathModel Path.PathSpec Path.PathProofs
     FS.Tree FS.Monad FS.Mode FS.Base FS.Mem FS.Ops FS.Ref FS.Agree FS.Wf FS.TreeLemmas.
Import ListNotations.

Ltac mstep :=
  cbv beta iota delta [mbind ret raise lift get modify Monad.crash catch vmap mseq].

(* ------------------------------------------------------------------ *)
(* paths without NUL                                                   *)
(* ------------------------------------------------------------------ *)
Definition nonul (cs : list str) : Prop := Forall (fun c => has_char Mem.nul c = false) cs.
Definition vp (cs : list str) : Prop := Forall good cs /\ nonul cs.

Lemma split_on_has c0 c s :
  has_char c0 s = false -> Forall (fun x => has_char c0 x = false) (split_on c s).
Proof.
  induction s as [|x xs IH]; simpl.
  - intros _. constructor; [reflexivity|constructor].
  - intro H. apply orb_false_iff in H as [H1 H2]. specialize (IH H2).
    destruct (ceqb x c).
    + constructor; [reflexivity|assumption].
    + destruct (split_on c xs) as [|h t].
      * constructor; [|constructor]. simpl. now rewrite H1.
      * inversion IH; subst. constructor; [|assumption]. simpl. rewrite H1. assumption.
Qed.

Lemma resolve_stack_Forall (P : str -> Prop) cs : forall st r,
  resolve_stack cs st = Some r -> Forall P cs -> Forall P st -> Forall P r.
Proof.
  induction cs as [|c cs IH]; simpl; intros st r H Hc Hs.
  - inversion H; subst. now apply Forall_rev.
  - inversion Hc; subst.
    destruct (c_empty c || c_dot c); [eapply IH; eauto|].
    destruct (c_dotdot c).
    + destruct st as [|x st]; [discriminate|]. inversion Hs; subst. eapply IH; eauto.
    + eapply IH; eauto.
Qed.

Lemma join_nonul cs : nonul cs -> has_char Mem.nul (join [slash] cs) = false.
Proof.
  induction cs as [|x xs IH]; intro H; [reflexivity|].
  inversion H as [|? ? Hx Hxs]; subst.
  destruct xs as [|y ys]; [exact Hx|].
  rewrite join_cons by discriminate. rewrite !has_char_app, Hx, (IH Hxs). reflexivity.
Qed.

Lemma to_path_nonul abs cs : nonul cs -> has_char Mem.nul (to_path abs cs) = false.
Proof.
  intro H. unfold to_path. rewrite has_char_app, (join_nonul _ H). now destruct abs.
Qed.

(* ------------------------------------------------------------------ *)
(* rpath versus mem_validatepath                                       *)
(* ------------------------------------------------------------------ *)
Lemma rpath_inl p cs :
  rpath p = inl cs -> has_char Mem.nul p = false /\ resolve (comps p) = Some cs.
Proof.
  unfold rpath. change Ref.nul with Mem.nul.
  destruct (has_char Mem.nul p); destruct (resolve (comps p)); simpl; intro H;
    try discriminate.
  inversion H; subst. auto.
Qed.

Lemma rpath_vp p cs : rpath p = inl cs -> vp cs.
Proof.
  intro H. apply rpath_inl in H as [H1 H2]. split.
  - eapply resolve_comps_good; eauto.
  - unfold resolve in H2. eapply resolve_stack_Forall; [exact H2| |constructor].
    now apply split_on_has.
Qed.

Lemma rpath_good p cs : rpath p = inl cs -> Forall good cs.
Proof. intro H. now apply rpath_vp in H as [H _]. Qed.

Lemma validate_inl p cs s : rpath p = inl cs -> mem_validatepath p s = (s, Ok (to_path true cs)).
Proof.
  intro H. pose proof (rpath_good _ _ H) as G. apply rpath_inl in H as [H1 H2].
  unfold mem_validatepath. rewrite H1. mstep.
  rewrite normpath_spec. unfold spec_normpath. rewrite H2.
  now rewrite abspath_nf_gen.
Qed.

Definition bad_err (p : str) : ecls :=
  if has_char Mem.nul p then InvalidCharsInPath else IllegalBackReference.

Lemma validate_inr p adm s : rpath p = inr adm -> mem_validatepath p s = (s, Err (bad_err p)).
Proof.
  unfold rpath, mem_validatepath, bad_err. change Ref.nul with Mem.nul.
  destruct (has_char Mem.nul p); [reflexivity|].
  mstep. rewrite normpath_spec. unfold spec_normpath.
  destruct (resolve (comps p)); simpl; [discriminate|reflexivity].
Qed.

Lemma bad_err_in p adm : rpath p = inr adm -> existsb (ecls_eqb (bad_err p)) adm = true.
Proof.
  unfold rpath, bad_err. change Ref.nul with Mem.nul.
  destruct (has_char Mem.nul p); destruct (resolve (comps p)); simpl; intro H;
    inversion H; subst; reflexivity.
Qed.

Lemma bad_err_not_rnf p : ecls_eqb ResourceNotFound (bad_err p) = false.
Proof. unfold bad_err. destruct (has_char Mem.nul p); reflexivity. Qed.

Lemma rpath_nf cs : vp cs -> rpath (to_path true cs) = inl cs.
Proof.
  intros [G N]. unfold rpath. change Ref.nul with Mem.nul.
  rewrite (to_path_nonul true cs N). now rewrite resolve_comps_nf.
Qed.

(* ------------------------------------------------------------------ *)
(* facts about q = to_path true cs                                     *)
(* ------------------------------------------------------------------ *)
Lemma to_path_root : to_path true [] = s_slash.
Proof. reflexivity. Qed.

Lemma to_path_inj a b : Forall good a -> Forall good b -> to_path true a = to_path true b -> a = b.
Proof.
  intros Ga Gb H. apply (f_equal iteratepath) in H.
  rewrite !iteratepath_nf in H by assumption. now inversion H.
Qed.

Lemma to_path_eqb a b : Forall good a -> Forall good b ->
  str_eqb (to_path true a) (to_path true b) = path_eqb a b.
Proof.
  intros Ga Gb. destruct (path_eqb a b) eqn:E.
  - apply path_eqb_eq in E. subst. apply str_eqb_refl.
  - apply str_eqb_neq. intro H. apply to_path_inj in H; auto. subst.
    now rewrite path_eqb_refl in E.
Qed.

Lemma to_path_snoc_not_root d c : Forall good (d ++ [c]) ->
  str_eqb (to_path true (d ++ [c])) s_slash = false.
Proof.
  intro G. rewrite <- to_path_root. rewrite to_path_eqb; auto.
  apply path_eqb_neq. destruct d; discriminate.
Qed.

Lemma psplit_root : psplit s_slash = (s_slash, []).
Proof. reflexivity. Qed.

Lemma good_not_empty c : good c -> is_empty c = false.
Proof. intros [H _]. destruct c; [congruence|reflexivity]. Qed.

Lemma get_dir_entry_nf cs s : Forall good cs ->
  get_dir_entry (to_path true cs) s = (s, Ok (lookup s cs)).
Proof. intro G. unfold get_dir_entry. mstep. now rewrite iteratepath_nf. Qed.

Lemma get_dir_entry_root s : get_dir_entry s_slash s = (s, Ok (Some s)).
Proof. rewrite <- to_path_root. rewrite get_dir_entry_nf by constructor. reflexivity. Qed.

Lemma basename_nf cs : Forall good cs -> basename (to_path true cs) = last cs [].
Proof.
  intro G. destruct (list_snoc_case cs) as [->|[d [c ->]]]; [reflexivity|].
  apply Forall_app in G as [Gd Gc]. inversion Gc; subst.
  unfold basename. rewrite psplit_snoc by assumption. simpl. now rewrite last_last.
Qed.

Lemma good_snoc d c : Forall good (d ++ [c]) -> Forall good d /\ good c.
Proof. intro G. apply Forall_app in G as [Gd Gc]. inversion Gc; subst. auto. Qed.

Lemma vp_snoc d c : vp (d ++ [c]) -> vp d.
Proof.
  intros [G N]. apply Forall_app in G as [G _]. apply Forall_app in N as [N _]. now split.
Qed.

Lemma snoc_ne' {A} (d : list A) c : d ++ [c] <> [].
Proof. destruct d; discriminate. Qed.

(* ------------------------------------------------------------------ *)
(* the primitives on a resolved path                                   *)
(* ------------------------------------------------------------------ *)
Lemma mem_getinfo_spec p cs s : rpath p = inl cs ->
  mem_getinfo p s =
  (s, match lookup s cs with
      | Some n => Ok (to_info (last cs []) n)
      | None => Err ResourceNotFound
      end).
Proof.
  intro R. pose proof (rpath_good _ _ R) as G.
  unfold mem_getinfo. mstep. rewrite (validate_inl _ _ s R). mstep.
  rewrite get_dir_entry_nf by assumption. mstep. rewrite basename_nf by assumption.
  destruct (lookup s cs); reflexivity.
Qed.

Lemma mem_getinfo_bad p adm s : rpath p = inr adm -> mem_getinfo p s = (s, Err (bad_err p)).
Proof. intro R. unfold mem_getinfo. mstep. rewrite (validate_inr _ _ s R). reflexivity. Qed.

Lemma mem_listdir_spec p cs s : rpath p = inl cs ->
  mem_listdir p s =
  (s, match lookup s cs with
      | None => Err ResourceNotFound
      | Some (File _ _) => Err DirectoryExpected
      | Some (Dir ents _) => Ok (keys ents)
      end).
Proof.
  intro R. pose proof (rpath_good _ _ R) as G.
  unfold mem_listdir. mstep. rewrite (validate_inl _ _ s R). mstep.
  rewrite get_dir_entry_nf by assumption. mstep.
  destruct (lookup s cs) as [[|]|]; reflexivity.
Qed.

Lemma mem_listdir_bad p adm s : rpath p = inr adm -> mem_listdir p s = (s, Err (bad_err p)).
Proof. intro R. unfold mem_listdir. mstep. rewrite (validate_inr _ _ s R). reflexivity. Qed.

Lemma mem_scandir_spec p cs s : rpath p = inl cs ->
  mem_scandir p s =
  (s, match lookup s cs with
      | None => Err ResourceNotFound
      | Some (File _ _) => Err DirectoryExpected
      | Some (Dir ents _) => Ok (map (fun kn => to_info (fst kn) (snd kn)) ents)
      end).
Proof.
  intro R. pose proof (rpath_good _ _ R) as G.
  unfold mem_scandir. mstep. rewrite (validate_inl _ _ s R). mstep.
  rewrite get_dir_entry_nf by assumption. mstep.
  destruct (lookup s cs) as [[|]|]; reflexivity.
Qed.

Lemma mem_scandir_bad p adm s : rpath p = inr adm -> mem_scandir p s = (s, Err (bad_err p)).
Proof. intro R. unfold mem_scandir. mstep. rewrite (validate_inr _ _ s R). reflexivity. Qed.

Lemma mem_opendir_spec p cs s : rpath p = inl cs ->
  mem_opendir p s =
  (s, match lookup s cs with
      | None => Err ResourceNotFound
      | Some n => if is_dir n then Ok tt else Err DirectoryExpected
      end).
Proof.
  intro R. unfold mem_opendir. mstep. rewrite (mem_getinfo_spec _ _ s R).
  destruct (lookup s cs) as [n|]; [|reflexivity]. mstep.
  unfold to_info, i_isdir. destruct (is_dir n); reflexivity.
Qed.

Lemma mem_setinfo_spec p cs mt s : rpath p = inl cs ->
  mem_setinfo p mt s =
  match lookup s cs with
  | None => (s, Err ResourceNotFound)
  | Some n => (put s cs (set_mt n mt), Ok tt)
  end.
Proof.
  intro R. pose proof (rpath_good _ _ R) as G.
  unfold mem_setinfo. mstep. rewrite (validate_inl _ _ s R). mstep.
  rewrite get_dir_entry_nf by assumption. mstep.
  destruct (lookup s cs); [|reflexivity]. mstep. rewrite iteratepath_nf by assumption. reflexivity.
Qed.

Lemma mem_setinfo_bad p adm mt s : rpath p = inr adm -> mem_setinfo p mt s = (s, Err (bad_err p)).
Proof. intro R. unfold mem_setinfo. mstep. rewrite (validate_inr _ _ s R). reflexivity. Qed.

(* ---- makedir ---- *)
Lemma mem_makedir_root p r s : rpath p = inl [] ->
  mem_makedir p r s = if r then mem_opendir p s else (s, Err DirectoryExists).
Proof.
  intro R. unfold mem_makedir. mstep. rewrite (validate_inl _ _ s R). mstep.
  rewrite to_path_root, str_eqb_refl. destruct r; reflexivity.
Qed.

Lemma mem_makedir_snoc p d c r s : rpath p = inl (d ++ [c]) ->
  mem_makedir p r s =
  match lookup s d with
  | Some (Dir ents _) =>
    match assoc c ents with
    | Some _ => if r then mem_opendir p s else (s, Err DirectoryExists)
    | None => mem_opendir p (put s (d ++ [c]) empty_dir)
    end
  | _ => (s, Err ResourceNotFound)
  end.
Proof.
  intro R. pose proof (rpath_good _ _ R) as G. destruct (good_snoc _ _ G) as [Gd Gc].
  unfold mem_makedir. mstep. rewrite (validate_inl _ _ s R). mstep.
  rewrite to_path_snoc_not_root by assumption.
  rewrite psplit_snoc by assumption. mstep.
  rewrite get_dir_entry_nf by assumption. mstep.
  destruct (lookup s d) as [[|ents m]|]; try reflexivity.
  destruct (assoc c ents); [destruct r; reflexivity|].
  rewrite iteratepath_nf by assumption. reflexivity.
Qed.

Lemma mem_makedir_bad p adm r s : rpath p = inr adm -> mem_makedir p r s = (s, Err (bad_err p)).
Proof. intro R. unfold mem_makedir. mstep. rewrite (validate_inr _ _ s R). reflexivity. Qed.

(* ---- open ---- *)
Definition open_init (mode : str) (cs : list str) (data : bytes) (mt : option Z) (s : node)
  : node * outcome (list str * nat) :=
  if m_truncate mode then (put s cs (File [] mt), Ok (cs, 0))
  else if m_appending mode then (s, Ok (cs, length data))
  else (s, Ok (cs, 0)).

Lemma mem_open_invalid p mode s : mode_valid_bin mode = false ->
  mem_open p mode s = (s, Crash ValueError).
Proof. intro V. unfold mem_open. rewrite V. reflexivity. Qed.

Lemma mem_open_bad p adm mode s : rpath p = inr adm -> mode_valid_bin mode = true ->
  mem_open p mode s = (s, Err (bad_err p)).
Proof.
  intros R V. unfold mem_open. rewrite V. change (negb true) with false. mstep.
  rewrite (validate_inr _ _ s R). reflexivity.
Qed.

Lemma mem_open_root p mode s : rpath p = inl [] -> mode_valid_bin mode = true ->
  mem_open p mode s = (s, Err FileExpected).
Proof.
  intros R V. unfold mem_open. rewrite V. change (negb true) with false. mstep.
  rewrite (validate_inl _ _ s R). mstep. rewrite to_path_root, psplit_root. reflexivity.
Qed.

Lemma mem_open_snoc p d c mode s : rpath p = inl (d ++ [c]) -> mode_valid_bin mode = true ->
  mem_open p mode s =
  match lookup s d with
  | Some (Dir ents _) =>
    match assoc c ents with
    | None =>
      if m_create mode
      then open_init mode (d ++ [c]) [] None (put s (d ++ [c]) (File [] None))
      else (s, Err ResourceNotFound)
    | Some e =>
      if m_create mode && m_exclusive mode then (s, Err FileExists)
      else match e with
           | Dir _ _ => (s, Err FileExpected)
           | File data mt => open_init mode (d ++ [c]) data mt s
           end
    end
  | _ => (s, Err ResourceNotFound)
  end.
Proof.
  intros R V. pose proof (rpath_good _ _ R) as G. destruct (good_snoc _ _ G) as [Gd Gc].
  unfold mem_open. rewrite V. change (negb true) with false. mstep.
  rewrite (validate_inl _ _ s R). mstep.
  rewrite psplit_snoc by assumption. mstep.
  rewrite (good_not_empty _ Gc).
  rewrite get_dir_entry_nf by assumption. mstep.
  destruct (lookup s d) as [[|ents m]|]; try reflexivity.
  rewrite iteratepath_nf by assumption. unfold open_init.
  destruct (assoc c ents) as [e|].
  - destruct (m_create mode && m_exclusive mode); [reflexivity|].
    destruct e as [data mt|]; [|reflexivity].
    destruct (m_truncate mode); [reflexivity|]. destruct (m_appending mode); reflexivity.
  - destruct (m_create mode); [|reflexivity]. mstep.
    destruct (m_truncate mode); [reflexivity|]. destruct (m_appending mode); reflexivity.
Qed.

(* ---- remove / removetree / removedir ---- *)
Lemma mem_remove_root p s : rpath p = inl [] -> mem_remove p s = (s, Err FileExpected).
Proof.
  intro R. unfold mem_remove. mstep. rewrite (validate_inl _ _ s R). mstep.
  rewrite to_path_root, str_eqb_refl. reflexivity.
Qed.

Lemma mem_remove_snoc p d c s : rpath p = inl (d ++ [c]) ->
  mem_remove p s =
  match lookup s d with
  | Some (Dir ents _) =>
    match assoc c ents with
    | None => (s, Err ResourceNotFound)
    | Some (Dir _ _) => (s, Err FileExpected)
    | Some (File _ _) => (del s (d ++ [c]), Ok tt)
    end
  | _ => (s, Err ResourceNotFound)
  end.
Proof.
  intro R. pose proof (rpath_good _ _ R) as G. destruct (good_snoc _ _ G) as [Gd Gc].
  unfold mem_remove. mstep. rewrite (validate_inl _ _ s R). mstep.
  rewrite to_path_snoc_not_root by assumption.
  rewrite psplit_snoc by assumption. mstep.
  rewrite get_dir_entry_nf by assumption. mstep.
  destruct (lookup s d) as [[|ents m]|]; try reflexivity.
  destruct (assoc c ents) as [[|]|]; try reflexivity.
  rewrite iteratepath_nf by assumption. reflexivity.
Qed.

Lemma mem_remove_bad p adm s : rpath p = inr adm -> mem_remove p s = (s, Err (bad_err p)).
Proof. intro R. unfold mem_remove. mstep. rewrite (validate_inr _ _ s R). reflexivity. Qed.

Lemma mem_removetree_root p s : rpath p = inl [] ->
  mem_removetree p s = (match s with Dir _ mt => Dir [] mt | f => f end, Ok tt).
Proof.
  intro R. unfold mem_removetree. mstep. rewrite (validate_inl _ _ s R). mstep.
  rewrite to_path_root, str_eqb_refl. reflexivity.
Qed.

Lemma mem_removetree_snoc p d c s : rpath p = inl (d ++ [c]) ->
  mem_removetree p s =
  match lookup s d with
  | Some (Dir ents _) =>
    match assoc c ents with
    | None => (s, Err ResourceNotFound)
    | Some (File _ _) => (s, Err DirectoryExpected)
    | Some (Dir _ _) => (del s (d ++ [c]), Ok tt)
    end
  | _ => (s, Err ResourceNotFound)
  end.
Proof.
  intro R. pose proof (rpath_good _ _ R) as G. destruct (good_snoc _ _ G) as [Gd Gc].
  unfold mem_removetree. mstep. rewrite (validate_inl _ _ s R). mstep.
  rewrite to_path_snoc_not_root by assumption.
  rewrite psplit_snoc by assumption. mstep.
  rewrite get_dir_entry_nf by assumption. mstep.
  destruct (lookup s d) as [[|ents m]|]; try reflexivity.
  destruct (assoc c ents) as [[|]|]; try reflexivity.
  rewrite iteratepath_nf by assumption. reflexivity.
Qed.

Lemma mem_removetree_bad p adm s : rpath p = inr adm -> mem_removetree p s = (s, Err (bad_err p)).
Proof. intro R. unfold mem_removetree. mstep. rewrite (validate_inr _ _ s R). reflexivity. Qed.

Lemma mem_removedir_root p s : rpath p = inl [] -> mem_removedir p s = (s, Err RemoveRootError).
Proof.
  intro R. unfold mem_removedir. mstep. rewrite (validate_inl _ _ s R). mstep.
  rewrite to_path_root, str_eqb_refl. reflexivity.
Qed.

Lemma mem_removedir_snoc p d c s : rpath p = inl (d ++ [c]) ->
  mem_removedir p s =
  match lookup s (d ++ [c]) with
  | None => (s, Err ResourceNotFound)
  | Some (File _ _) => (s, Err DirectoryExpected)
  | Some (Dir (_ :: _) _) => (s, Err DirectoryNotEmpty)
  | Some (Dir [] _) => (del s (d ++ [c]), Ok tt)
  end.
Proof.
  intro R. pose proof (rpath_vp _ _ R) as V. pose proof (rpath_good _ _ R) as G.
  unfold mem_removedir. mstep. rewrite (validate_inl _ _ s R). mstep.
  rewrite to_path_snoc_not_root by assumption.
  rewrite (mem_scandir_spec _ _ s R).
  destruct (lookup s (d ++ [c])) as [[|ents m]|] eqn:L; try reflexivity.
  destruct ents as [|e ents]; [|reflexivity].
  cbn [map]. mstep.
  rewrite (mem_removetree_snoc _ d c s (rpath_nf _ V)).
  rewrite lookup_snoc in L.
  destruct (lookup s d) as [[|ents2 m2]|]; try discriminate.
  rewrite L. reflexivity.
Qed.

Lemma mem_removedir_bad p adm s : rpath p = inr adm -> mem_removedir p s = (s, Err (bad_err p)).
Proof. intro R. unfold mem_removedir. mstep. rewrite (validate_inr _ _ s R). reflexivity. Qed.

(* ---- exists (FS.exists over getinfo) ---- *)
Lemma mem_exists_spec p cs s : rpath p = inl cs ->
  b_exists mem_low p s = (s, Ok (match lookup s cs with Some _ => true | None => false end)).
Proof.
  intro R. unfold b_exists. simpl l_getinfo. mstep. rewrite (mem_getinfo_spec _ _ s R).
  destruct (lookup s cs); reflexivity.
Qed.

Lemma mem_exists_bad p adm s : rpath p = inr adm -> b_exists mem_low p s = (s, Err (bad_err p)).
Proof.
  intro R. unfold b_exists. simpl l_getinfo. mstep. rewrite (mem_getinfo_bad _ _ s R).
  mstep. rewrite bad_err_not_rnf. reflexivity.
Qed.

(* ---- open + optional write + close ---- *)
Lemma write_at_nil d : Mem.write_at 0 [] d = d.
Proof. unfold Mem.write_at. simpl. rewrite skipn_nil. apply app_nil_r. Qed.

Definition ow_state (s : node) (cs : list str) (mode : str) (wr : option bytes)
           (old : bytes) (mt : option Z) : node :=
  if m_truncate mode then
    match wr with Some x => put s cs (File x None) | None => put s cs (File [] mt) end
  else
    match wr with
    | Some x =>
      put s cs (File (Mem.write_at (if m_appending mode then length old else 0) old x) None)
    | None => s
    end.

Lemma mem_openwrite_invalid p mode wr s : mode_valid_bin mode = false ->
  mem_openwrite p mode wr s = (s, Crash ValueError).
Proof. intro V. unfold mem_openwrite. mstep. rewrite (mem_open_invalid _ _ s V). reflexivity. Qed.

Lemma mem_openwrite_bad p adm mode wr s : rpath p = inr adm -> mode_valid_bin mode = true ->
  mem_openwrite p mode wr s = (s, Err (bad_err p)).
Proof. intros R V. unfold mem_openwrite. mstep. rewrite (mem_open_bad _ _ _ s R V). reflexivity. Qed.

Lemma mem_openwrite_root p mode wr s : rpath p = inl [] -> mode_valid_bin mode = true ->
  mem_openwrite p mode wr s = (s, Err FileExpected).
Proof. intros R V. unfold mem_openwrite. mstep. rewrite (mem_open_root _ _ s R V). reflexivity. Qed.

Lemma mem_openwrite_snoc p d c mode wr s :
  rpath p = inl (d ++ [c]) -> mode_valid_bin mode = true ->
  (wr = None \/ m_writing mode = true) ->
  mem_openwrite p mode wr s =
  match lookup s d with
  | Some (Dir ents _) =>
    match assoc c ents with
    | None =>
      if m_create mode
      then (put s (d ++ [c]) (File (match wr with Some x => x | None => [] end) None), Ok tt)
      else (s, Err ResourceNotFound)
    | Some e =>
      if m_create mode && m_exclusive mode then (s, Err FileExists)
      else match e with
           | Dir _ _ => (s, Err FileExpected)
           | File old mt => (ow_state s (d ++ [c]) mode wr old mt, Ok tt)
           end
    end
  | _ => (s, Err ResourceNotFound)
  end.
Proof.
  intros R V Hw. unfold mem_openwrite. mstep. rewrite (mem_open_snoc _ _ _ _ s R V).
  destruct (lookup s d) as [[|ents m]|] eqn:Hl; try reflexivity.
  assert (Hw' : forall x, wr = Some x -> m_writing mode = true).
  { intros x E. destruct Hw as [Hw|Hw]; [congruence|exact Hw]. }
  destruct (assoc c ents) as [e|] eqn:Ha.
  - destruct (m_create mode && m_exclusive mode); [reflexivity|].
    destruct e as [old mt|]; [|reflexivity].
    assert (Hlc : lookup s (d ++ [c]) = Some (File old mt)) by (rewrite lookup_snoc, Hl; exact Ha).
    unfold open_init, ow_state.
    destruct (m_truncate mode).
    + destruct wr as [x|]; [|reflexivity]. rewrite (Hw' x eq_refl). cbn [negb fst snd].
      rewrite (lookup_put_same _ _ _ _ _ _ Hl). mstep. now rewrite put_put, write_at_nil.
    + destruct (m_appending mode); (destruct wr as [x|]; [|reflexivity]);
        rewrite (Hw' x eq_refl); cbn [negb fst snd]; rewrite Hlc; reflexivity.
  - destruct (m_create mode); [|reflexivity]. unfold open_init.
    destruct (m_truncate mode).
    + mstep. destruct wr as [x|]; [|now rewrite put_put].
      rewrite (Hw' x eq_refl). cbn [negb fst snd]. rewrite put_put.
      rewrite (lookup_put_same _ _ _ _ _ _ Hl). mstep. now rewrite put_put, write_at_nil.
    + destruct (m_appending mode); mstep; (destruct wr as [x|]; [|reflexivity]);
        rewrite (Hw' x eq_refl); cbn [negb fst snd length];
        rewrite (lookup_put_same _ _ _ _ _ _ Hl); mstep; now rewrite put_put, write_at_nil.
Qed.

(* ---- open for reading (readbytes) ---- *)
Lemma m_rb_valid : mode_valid_bin m_rb = true. Proof. reflexivity. Qed.
Lemma m_wb_valid : mode_valid_bin m_wb = true. Proof. reflexivity. Qed.
Lemma m_ab_valid : mode_valid_bin m_ab = true. Proof. reflexivity. Qed.

Lemma mem_openread_root p s : rpath p = inl [] -> mem_openread p s = (s, Err FileExpected).
Proof. intro R. unfold mem_openread. mstep. rewrite (mem_open_root _ _ s R m_rb_valid). reflexivity. Qed.

Lemma mem_openread_bad p adm s : rpath p = inr adm -> mem_openread p s = (s, Err (bad_err p)).
Proof. intro R. unfold mem_openread. mstep. rewrite (mem_open_bad _ _ _ s R m_rb_valid). reflexivity. Qed.

Lemma mem_openread_snoc p d c s : rpath p = inl (d ++ [c]) ->
  mem_openread p s =
  match lookup s d with
  | Some (Dir ents _) =>
    match assoc c ents with
    | None => (s, Err ResourceNotFound)
    | Some (Dir _ _) => (s, Err FileExpected)
    | Some (File data _) => (s, Ok data)
    end
  | _ => (s, Err ResourceNotFound)
  end.
Proof.
  intro R. unfold mem_openread. mstep. rewrite (mem_open_snoc _ _ _ _ s R m_rb_valid).
  destruct (lookup s d) as [[|ents m]|] eqn:Hl; try reflexivity.
  destruct (assoc c ents) as [[data mt|]|] eqn:Ha; try reflexivity.
  change (m_create m_rb && m_exclusive m_rb) with false.
  change (open_init m_rb (d ++ [c]) data mt s) with (s, @Ok (list str * nat) (d ++ [c], 0)).
  cbv beta iota. cbn [fst snd]. rewrite lookup_snoc, Hl, Ha. reflexivity.
Qed.
