(* fs/mode.py: Mode over the raw mode string. *)
From Coq Require Import List NArith Bool.
From PyFS Require Import Base.PyStr.
Import ListNotations.
Local Open Scope N_scope.

Definition ch_r : char := 114. Definition ch_w : char := 119. Definition ch_x : char := 120.
Definition ch_a : char := 97.  Definition ch_t : char := 116. Definition ch_b : char := 98.
Definition ch_plus : char := 43.

Definition mode_chars : list char := [ch_r; ch_w; ch_x; ch_t; ch_a; ch_b; ch_plus].
Definition inb (c : char) (l : list char) : bool := existsb (ceqb c) l.

(* Mode.validate *)
Definition mode_valid (m : str) : bool :=
  match m with
  | [] => false
  | c0 :: _ =>
    forallb (fun c => inb c mode_chars) m
    && inb c0 [ch_r; ch_w; ch_x; ch_a]
    && negb (has_char ch_t m && has_char ch_b m)
    (* exactly one of r/w/x/a; '+', 'b', 't' at most once - as io.open requires (/repo af07be9; before, 'rw' or
       'rbb' were accepted here and refused with a raw ValueError inside OSFS only) *)
    && Nat.eqb (count_c ch_r m + count_c ch_w m + count_c ch_x m + count_c ch_a m) 1
    && Nat.leb (count_c ch_plus m) 1 && Nat.leb (count_c ch_b m) 1 && Nat.leb (count_c ch_t m) 1
  end.
(* Mode.validate_bin *)
Definition mode_valid_bin (m : str) : bool := mode_valid m && negb (has_char ch_t m).

Definition m_create (m : str) : bool := has_char ch_a m || has_char ch_w m || has_char ch_x m.
Definition m_reading (m : str) : bool := has_char ch_r m || has_char ch_plus m.
Definition m_writing (m : str) : bool :=
  has_char ch_w m || has_char ch_a m || has_char ch_plus m || has_char ch_x m.
Definition m_appending (m : str) : bool := has_char ch_a m.
Definition m_truncate (m : str) : bool := has_char ch_w m || has_char ch_x m.
Definition m_exclusive (m : str) : bool := has_char ch_x m.
