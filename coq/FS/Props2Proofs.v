(* C05: the stronger predicate [preserved2] (FS/Props2.v) - it implies [preserved], and it
   holds wherever [preserved] was proved: reference semantics (move / copy / removetree,
   movedir onto a fresh destination) and the MemoryFS model (the same, plus copydir / movedir
   with directory merges, whatever the outcome). *)
From Coq Require Import List NArith ZArith Bool Arith Lia.
From PyFS Require Import Base.PyStr Base.Outcome Base.Render Path.PathModel Path.PathSpec Path.PathProofs
     FS.Tree FS.Monad FS.Mode FS.Base FS.Mem FS.Ops FS.Ref FS.Agree FS.Wf
     FS.TreeLemmas FS.RefineLemmas FS.RefineProofs FS.Props FS.PropsProofs
     FS.RefineWalkLemmasEq FS.RefineWalkLemmasMk FS.RefineWalkLemmasBfs
     FS.RefineWalkLemmasMerge FS.RefineWalkLemmasCopy FS.RefineWalkNn FS.RefineWalk
     FS.RefineWalkPreserved FS.Props2.
Import ListNotations.

(* ================================================================== *)
(* 1. preserved2 is at least as strong as preserved                    *)
(* ================================================================== *)
Lemma existsb_src_for (f : bytes -> bool) t a b p :
  existsb f (src_for t a b p) = true ->
  existsb (fun rb => path_eqb p (b ++ fst rb)) (sub_files t a) = true.
Proof.
  unfold src_for. intro H. apply existsb_exists in H as [d [Hin _]].
  apply in_map_iff in Hin as [rb [_ Hin]]. apply filter_In in Hin as [Hin Hp].
  apply existsb_exists. eauto.
Qed.

Lemma file_ok2_exempt before after o ok p old :
  is_transfer o = true ->
  file_ok2 before after o ok (p, old) = true ->
  exempt_of before o p || has_file after p old = true.
Proof.
  intros T H. unfold file_ok2 in H. cbn [fst snd] in H. unfold has_file.
  destruct (file_at after p) as [d|].
  - unfold allowed_after in H. cbn [existsb] in H. apply orb_true_iff in H as [H|H].
    { apply str_eqb_eq in H. subst d. rewrite str_eqb_refl. apply orb_true_r. }
    apply orb_true_iff. left.
    destruct o; try discriminate T; cbn [exempt_of]; cbn [existsb] in H; try discriminate H.
    + (* move *)
      destruct (rp s) as [a|], (rp d0) as [b|]; cbn [existsb] in H; try discriminate H.
      destruct (overwrite && path_eqb p b); [apply orb_true_r|discriminate H].
    + (* copy *)
      destruct (rp s) as [a|], (rp d0) as [b|]; cbn [existsb] in H; try discriminate H.
      destruct (overwrite && path_eqb p b); [reflexivity|discriminate H].
    + (* movedir *)
      destruct (rp s) as [a|], (rp d0) as [b|]; cbn [existsb] in H; try discriminate H.
      rewrite (existsb_src_for _ _ _ _ _ H). apply orb_true_r.
    + (* copydir *)
      destruct (rp s) as [a|], (rp d0) as [b|]; cbn [existsb] in H; try discriminate H.
      exact (existsb_src_for _ _ _ _ _ H).
  - rewrite orb_false_r.
    destruct o; try discriminate T; cbn [gone_ok] in H; cbn [exempt_of]; try discriminate H.
    + destruct (rp p0) as [a|]; [exact H|discriminate H].
    + destruct (rp s) as [a|], (rp d) as [b|]; try discriminate H.
      apply andb_true_iff in H as [H _]. now rewrite H.
    + destruct (rp s) as [a|], (rp d) as [b|]; try discriminate H.
      apply andb_true_iff in H as [H _]. now rewrite H.
Qed.

Lemma delivered2_delivered before after o :
  delivered2 before after o = true -> delivered before after o = true.
Proof.
  destruct o; cbn [delivered2 delivered]; try (intro H; exact H).
  - destruct (rp s), (rp d); try (intro H; exact H). intro H. rewrite H. apply orb_true_r.
  - destruct (rp s), (rp d); try (intro H; exact H). intro H. rewrite H. apply orb_true_r.
Qed.

Lemma preserved_not_transfer before after o ok :
  is_transfer o = false -> preserved before after o ok = true.
Proof.
  intro T. unfold preserved, all_files_kept.
  destruct o; try discriminate T; cbn [exempt_of delivered]; rewrite orb_true_r, andb_true_r;
    apply forallb_forall; intros x _; reflexivity.
Qed.

(* no well-formedness hypothesis is needed *)
Theorem preserved2_implies_preserved' : forall before after o ok,
  preserved2 before after o ok = true -> preserved before after o ok = true.
Proof.
  intros before after o ok H. unfold preserved2 in H.
  destruct (is_transfer o) eqn:T; [|now apply preserved_not_transfer].
  apply andb_true_iff in H as [H1 H2]. unfold preserved. apply andb_true_iff. split.
  - unfold all_files_kept. apply forallb_forall. intros [p old] Hin. cbn [fst snd].
    rewrite forallb_forall in H1. eapply file_ok2_exempt; eauto.
  - destruct ok; [|reflexivity]. cbn [negb orb] in *. now apply delivered2_delivered.
Qed.
Print Assumptions preserved2_implies_preserved'.

Theorem preserved2_implies_preserved : forall before after o ok,
  wf before -> preserved2 before after o ok = true -> preserved before after o ok = true.
Proof. intros before after o ok _. apply preserved2_implies_preserved'. Qed.
Print Assumptions preserved2_implies_preserved.

(* ================================================================== *)
(* introduction lemmas                                                 *)
(* ================================================================== *)
Lemma file_ok2_present t t' o ok p old d' m' :
  lookup t' p = Some (File d' m') -> In d' (allowed_after t o ok p old) ->
  file_ok2 t t' o ok (p, old) = true.
Proof.
  intros L Hin. unfold file_ok2, file_at. cbn [fst snd]. rewrite L.
  apply existsb_exists. exists d'. split; [exact Hin|apply str_eqb_refl].
Qed.

Lemma file_ok2_same t t' o ok p old m' :
  lookup t' p = Some (File old m') -> file_ok2 t t' o ok (p, old) = true.
Proof. intro L. eapply file_ok2_present; [exact L|]. unfold allowed_after. now left. Qed.

Lemma file_ok2_absent t t' o ok p old :
  lookup t' p = None -> gone_ok t' o p old = true -> file_ok2 t t' o ok (p, old) = true.
Proof. intros L G. unfold file_ok2, file_at. cbn [fst snd]. now rewrite L. Qed.

Lemma preserved2_intro t t' o ok : wf_node t ->
  (forall p d m, lookup t p = Some (File d m) -> file_ok2 t t' o ok (p, d) = true) ->
  (ok = true -> delivered2 t t' o = true) ->
  preserved2 t t' o ok = true.
Proof.
  intros W H D. unfold preserved2. destruct (is_transfer o); [|reflexivity].
  apply andb_true_iff. split.
  - apply forallb_forall. intros [p d] Hin.
    destruct (files_of_lookup t W p d Hin) as [m Hm]. eapply H; eauto.
  - destruct ok; [|reflexivity]. cbn [negb orb]. now apply D.
Qed.

Lemma preserved2_noop t o : wf t -> preserved2 t t o false = true.
Proof.
  intros [_ W]. apply preserved2_intro; [exact W| |discriminate].
  intros p d m L. eapply file_ok2_same; eauto.
Qed.

(* a successful call that changed nothing *)
Lemma preserved2_same t o ok : wf t -> (ok = true -> delivered2 t t o = true) ->
  preserved2 t t o ok = true.
Proof.
  intros [_ W] D. apply preserved2_intro; [exact W| |exact D].
  intros p d m L. eapply file_ok2_same; eauto.
Qed.

(* ---- deleting a path removes everything below it ---- *)
Lemma lookup_del_same p : forall t, wf_node t -> p <> [] -> lookup (del t p) p = None.
Proof.
  induction p as [|c rest IH]; intros t W Hne; [congruence|].
  destruct t as [d0 m0|ents m0]; [reflexivity|].
  destruct rest as [|c2 rest2].
  - simpl. destruct W as [N _]. now rewrite assoc_del_same.
  - remember (c2 :: rest2) as rest eqn:Er.
    assert (Hr : rest <> []) by (subst; discriminate).
    rewrite del_cons_ne by assumption.
    destruct (assoc c ents) as [ch|] eqn:Ec.
    + simpl. rewrite assoc_set_same. apply IH; [|assumption]. eapply wf_assoc; eauto.
    + simpl. now rewrite Ec.
Qed.

Lemma lookup_del_below p x t : wf_node t -> p <> [] -> lookup (del t p) (p ++ x) = None.
Proof. intros W Hne. apply lookup_none_app. now apply lookup_del_same. Qed.

Lemma has_file_iff t p d : has_file t p d = true <-> exists m, lookup t p = Some (File d m).
Proof.
  unfold has_file, file_at. split.
  - destruct (lookup t p) as [[d' m'|]|]; try discriminate. intro H. apply str_eqb_eq in H.
    subst. eauto.
  - intros [m H]. rewrite H. apply str_eqb_refl.
Qed.

(* ---- membership in allowed_after ---- *)
Lemma allowed_move_dest t s d pt ok a b old data :
  rp s = Some a -> rp d = Some b -> file_at t a = Some data ->
  In data (allowed_after t (OMove s d true pt) ok b old).
Proof.
  intros Ra Rb Fa. unfold allowed_after. rewrite Ra, Rb, path_eqb_refl, Fa. cbn. auto.
Qed.

Lemma allowed_copy_dest t s d pt ok a b old data :
  rp s = Some a -> rp d = Some b -> file_at t a = Some data ->
  In data (allowed_after t (OCopy s d true pt) ok b old).
Proof.
  intros Ra Rb Fa. unfold allowed_after. rewrite Ra, Rb, path_eqb_refl, Fa. cbn. auto.
Qed.

Lemma In_src_for t a b S0 x d m :
  lookup t a = Some S0 -> lookup S0 x = Some (File d m) -> In d (src_for t a b (b ++ x)).
Proof.
  intros La Lx. unfold src_for, sub_files. rewrite La.
  apply in_map_iff. exists (x, d). split; [reflexivity|].
  apply filter_In. split; [eapply lookup_files_of; eauto|]. apply path_eqb_refl.
Qed.

(* ================================================================== *)
(* 2. the reference semantics: move, copy, removetree                  *)
(* ================================================================== *)
Lemma pres2_move s d a b o pt t t' :
  wf t -> rpath s = inl a -> rpath d = inl b ->
  rs_tree (ref_move t a b o pt) = Some t' ->
  preserved2 t t' (OMove s d o pt) (ok_res (rs_res (ref_move t a b o pt))) = true.
Proof.
  intros W Ra Rb. unfold ref_move.
  destruct (transfer_errors t a b o) as [|e0 es] eqn:TE.
  2:{ simpl. intro H. inversion H; subst. now apply preserved2_noop. }
  destruct (transfer_ok t a b o W TE) as ((data & mt & La) & Lb & (dd & dc & ents & m & Eb & Ld)).
  pose proof W as [_ Wn].
  pose proof (rp_inl _ _ Ra) as Pa'. pose proof (rp_inl _ _ Rb) as Pb'.
  destruct (path_eqb a b) eqn:E.
  - simpl. intro H. inversion H; subst t'. apply preserved2_same; [assumption|]. intros _.
    cbn [delivered2]. rewrite Pa', Pb'. unfold file_at. rewrite La.
    apply path_eqb_eq in E. rewrite <- E. rewrite (has_file_lookup _ _ _ _ La). reflexivity.
  - rewrite La. simpl. intro H. inversion H; subst t'. clear H.
    assert (Hab : a <> b) by (intro X; subst; now rewrite path_eqb_refl in E).
    assert (Lb' : lookup t b = None \/ exists d2 m2, lookup t b = Some (File d2 m2))
      by (destruct Lb as [Lb|[_ Lb]]; auto).
    assert (Pa : lookup (put t b (File data mt)) a = Some (File data mt))
      by (apply lookup_put_file; auto).
    assert (Pb : lookup (put t b (File data mt)) b = Some (File data mt))
      by (subst b; eapply lookup_put_same; eauto).
    assert (Qb : lookup (del (put t b (File data mt)) a) b = Some (File data mt)).
    { apply lookup_del_file; [exact Pb|]. eapply file_no_prefix; eauto. }
    assert (Wp : wf_node (put t b (File data mt))).
    { apply wf_put; [assumption|exact (rpath_good _ _ Rb)|exact I]. }
    assert (Na : a <> []) by (intro X; subst a; destruct t; simpl in La; [|discriminate];
                              destruct W; discriminate).
    apply preserved2_intro; [assumption| |].
    + intros p d0 m0 Hp.
      destruct (path_eqb p a) eqn:Epa.
      { apply path_eqb_eq in Epa. subst p. rewrite La in Hp. inversion Hp; subst d0 m0.
        apply file_ok2_absent; [now apply lookup_del_same|].
        cbn [gone_ok]. rewrite Pa', Pb', path_eqb_refl.
        now rewrite (has_file_lookup _ _ _ _ Qb). }
      destruct (path_eqb p b) eqn:Epb.
      * apply path_eqb_eq in Epb. subst p.
        destruct Lb as [Lb|[-> _]]; [congruence|].
        eapply file_ok2_present; [exact Qb|].
        eapply allowed_move_dest; eauto. unfold file_at. now rewrite La.
      * assert (p <> a) by (intro X; subst; now rewrite path_eqb_refl in Epa).
        assert (p <> b) by (intro X; subst; now rewrite path_eqb_refl in Epb).
        assert (Pp : lookup (put t b (File data mt)) p = Some (File d0 m0))
          by (apply lookup_put_file; auto).
        eapply file_ok2_same. apply lookup_del_file; [exact Pp|].
        eapply file_no_prefix; eauto.
    + intros _. cbn [delivered2]. rewrite Pa', Pb'. unfold file_at. rewrite La.
      rewrite andb_true_r. eapply has_file_lookup; eauto.
Qed.

Lemma pres2_copy s d a b o pt t t' :
  wf t -> rpath s = inl a -> rpath d = inl b ->
  rs_tree (ref_copy t a b o pt) = Some t' ->
  preserved2 t t' (OCopy s d o pt) (ok_res (rs_res (ref_copy t a b o pt))) = true.
Proof.
  intros W Ra Rb. unfold ref_copy.
  destruct (transfer_errors t a b o ++ (if path_eqb a b then [IllegalDestination] else []))
    as [|e0 es] eqn:TE0.
  2:{ simpl. intro H. inversion H; subst. now apply preserved2_noop. }
  apply app_eq_nil in TE0 as [TE E].
  destruct (path_eqb a b) eqn:E'; [discriminate|]. clear E.
  destruct (transfer_ok t a b o W TE) as ((data & mt & La) & Lb & (dd & dc & ents & m & Eb & Ld)).
  pose proof W as [_ Wn].
  pose proof (rp_inl _ _ Ra) as Pa'. pose proof (rp_inl _ _ Rb) as Pb'.
  rewrite La. simpl. intro H. inversion H; subst t'. clear H.
  set (F := File data (if pt then mt
                      else match data with
                           | [] => match lookup t b with Some (File _ m1) => m1 | _ => None end
                           | _ :: _ => None
                           end)).
  assert (Hab : a <> b) by (intro X; subst; now rewrite path_eqb_refl in E').
  assert (Lb' : lookup t b = None \/ exists d2 m2, lookup t b = Some (File d2 m2))
    by (destruct Lb as [Lb|[_ Lb]]; auto).
  assert (Pa : lookup (put t b F) a = Some (File data mt)) by (apply lookup_put_file; auto).
  assert (Pb : lookup (put t b F) b = Some F) by (subst b; eapply lookup_put_same; eauto).
  apply preserved2_intro; [assumption| |].
  - intros p d0 m0 Hp.
    destruct (path_eqb p b) eqn:Epb.
    + apply path_eqb_eq in Epb. subst p.
      destruct Lb as [Lb|[-> _]]; [congruence|].
      eapply file_ok2_present; [exact Pb|].
      eapply allowed_copy_dest; eauto. unfold file_at. now rewrite La.
    + assert (p <> b) by (intro X; subst; now rewrite path_eqb_refl in Epb).
      eapply file_ok2_same. apply lookup_put_file; eauto.
  - intros _. cbn [delivered2]. rewrite Pa', Pb'. unfold file_at. rewrite La.
    rewrite (has_file_lookup _ _ _ _ Pa). rewrite andb_true_r.
    unfold F in Pb. eapply has_file_lookup; eauto.
Qed.

Lemma pres2_removetree p cs t t' :
  wf t -> rpath p = inl cs ->
  rs_tree (ref_removetree t cs) = Some t' ->
  preserved2 t t' (ORemovetree p) (ok_res (rs_res (ref_removetree t cs))) = true.
Proof.
  intros W R. pose proof W as [Wd Wn]. unfold ref_removetree.
  pose proof (rp_inl _ _ R) as Pc.
  destruct cs as [|c cs0].
  - simpl. intro H. inversion H; subst t'. apply preserved2_intro; [assumption| |reflexivity].
    intros q d0 m0 Hq. destruct t as [dt mt|ents mt]; [discriminate Wd|].
    destruct q as [|x q]; [discriminate Hq|].
    apply file_ok2_absent; [reflexivity|]. cbn [gone_ok]. now rewrite Pc.
  - cbv iota. remember (c :: cs0) as cs eqn:Ecs.
    assert (Hne : cs <> []) by (subst; discriminate).
    destruct (status_of t cs); simpl; intro H; inversion H; subst t';
      try (now apply preserved2_noop).
    apply preserved2_intro; [assumption| |reflexivity].
    intros q d0 m0 Hq. destruct (list_prefix cs q) eqn:E.
    + apply list_prefix_ex in E as [x ->].
      apply file_ok2_absent; [apply lookup_del_below; assumption|].
      cbn [gone_ok]. rewrite Pc. apply list_prefix_ex. eauto.
    + eapply file_ok2_same. apply lookup_del_file; eauto.
Qed.

Theorem ref_preserved2_move_copy_removetree : forall o t t',
  wf t -> is_mcr o = true -> rs_tree (ref_run o t) = Some t' ->
  preserved2 t t' o (match rs_res (ref_run o t) with ROk _ => true | _ => false end) = true.
Proof.
  intros o t t' W M. change (match rs_res (ref_run o t) with ROk _ => true | _ => false end)
    with (ok_res (rs_res (ref_run o t))).
  destruct o; try discriminate M; cbn [ref_run]; unfold with1, with2.
  - destruct (rpath p) as [cs|adm] eqn:R.
    + now apply pres2_removetree.
    + simpl. intro H. inversion H; subst. now apply preserved2_noop.
  - destruct (rpath s) as [a|e1] eqn:Ra; destruct (rpath d) as [b|e2] eqn:Rb;
      try (simpl; intro H; inversion H; subst; now apply preserved2_noop).
    now apply pres2_move.
  - destruct (rpath s) as [a|e1] eqn:Ra; destruct (rpath d) as [b|e2] eqn:Rb;
      try (simpl; intro H; inversion H; subst; now apply preserved2_noop).
    now apply pres2_copy.
Qed.
Print Assumptions ref_preserved2_move_copy_removetree.

(* ---- the MemoryFS model: its tree IS the reference tree (sstep_mcr) ---- *)
Theorem mem_preserved2_move_copy_removetree : forall o s,
  wf s -> is_mcr o = true ->
  preserved2 s (fst (mem_run o s)) o (is_ok (snd (mem_run o s))) = true.
Proof.
  intros o s W M. destruct (sstep_mcr o s W M) as [[A T] _].
  pose proof (ref_preserved2_move_copy_removetree o s _ W M T) as P.
  pose proof (ref_covered_not_any o s (is_mcr_covered o M)) as NA.
  replace (is_ok (snd (mem_run o s)))
    with (match rs_res (ref_run o s) with ROk _ => true | _ => false end); [exact P|].
  unfold res_agree in A.
  destruct (snd (mem_run o s)) as [v|e|k]; destruct (rs_res (ref_run o s));
    try discriminate A; try reflexivity; try congruence;
    destruct k; discriminate A.
Qed.
Print Assumptions mem_preserved2_move_copy_removetree.

(* ================================================================== *)
(* 3. movedir onto a destination that does not exist                   *)
(* ================================================================== *)
Theorem ref_preserved2_movedir_fresh : forall s d c pt a b t t',
  wf t -> rpath s = inl a -> rpath d = inl b -> lookup t b = None ->
  rs_tree (ref_run (OMovedir s d c pt) t) = Some t' ->
  preserved2 t t' (OMovedir s d c pt)
            (match rs_res (ref_run (OMovedir s d c pt) t) with ROk _ => true | _ => false end) = true.
Proof.
  intros s d c pt a b t t' W Ra Rb Lb.
  change (match rs_res (ref_run (OMovedir s d c pt) t) with ROk _ => true | _ => false end)
    with (ok_res (rs_res (ref_run (OMovedir s d c pt) t))).
  cbn [ref_run]. unfold with2. rewrite Ra, Rb. unfold ref_dirtransfer.
  pose proof W as [_ Wn].
  pose proof (rp_inl _ _ Ra) as Pa'. pose proof (rp_inl _ _ Rb) as Pb'.
  destruct (path_eqb a b) eqn:E; cbn [andb].
  { simpl. intro H. inversion H; subst t'. apply preserved2_same; [assumption|]. intros _.
    cbn [delivered2]. rewrite Pa', Pb'. apply path_eqb_eq in E. subst b.
    unfold sub_files. now rewrite Lb. }
  destruct (dirtransfer_errors t a b c true) as [|e0 es] eqn:DE.
  2:{ simpl. intro H. inversion H; subst. now apply preserved2_noop. }
  destruct (list_prefix b a) eqn:Pba; [discriminate|].
  rewrite Lb. destruct (lookup t a) as [src|] eqn:La.
  2:{ simpl. intro H. inversion H; subst. now apply preserved2_noop. }
  simpl. intro H. inversion H; subst t'. clear H.
  (* consequences of the empty error set *)
  pose proof (rpath_good _ _ Rb) as Gb.
  destruct (list_snoc_case b) as [->|[dd [dc ->]]]; [discriminate Lb|].
  rewrite dirtransfer_errors_snoc in DE.
  apply app_eq_nil in DE as [D1 DE]. apply app_eq_nil in DE as [_ D3].
  destruct (list_prefix a (dd ++ [dc])) eqn:Pab; [discriminate|]. clear D1.
  assert (Ld : exists ents m, lookup t dd = Some (Dir ents m)).
  { pview t dd dc; rewrite Hsc in D3; try congruence;
      try (apply app_eq_nil in D3 as [_ D3]; rewrite ?Hs in D3; discriminate).
    eauto. }
  destruct Ld as (ents & m & Ld).
  assert (Pb : lookup (put t (dd ++ [dc]) src) (dd ++ [dc]) = Some src)
    by (eapply lookup_put_same; eauto).
  pose proof (wf_lookup _ _ _ Wn La) as Wsrc.
  assert (Na : a <> []) by (intro X; subst a; discriminate Pab).
  assert (Wp : wf_node (put t (dd ++ [dc]) src)) by (apply wf_put; assumption).
  (* a file of the source subtree is found below the destination *)
  assert (Hdst : forall q dq mq, lookup src q = Some (File dq mq) ->
             lookup (del (put t (dd ++ [dc]) src) a) ((dd ++ [dc]) ++ q) = Some (File dq mq)).
  { intros q dq mq Hq. apply lookup_del_file.
    - rewrite lookup_app, Pb. exact Hq.
    - destruct (list_prefix a ((dd ++ [dc]) ++ q)) eqn:X; [|reflexivity].
      apply prefix_app_cases in X as [X|X]; congruence. }
  apply preserved2_intro; [assumption| |].
  - intros p d0 m0 Hp.
    destruct (list_prefix a p) eqn:Pap.
    + apply list_prefix_ex in Pap as [x ->].
      apply file_ok2_absent; [now apply lookup_del_below|].
      cbn [gone_ok]. rewrite Pa', Pb'.
      assert (Hpre : list_prefix a (a ++ x) = true) by (apply list_prefix_ex; eauto).
      rewrite Hpre, skipn_len_app. cbn [andb].
      rewrite lookup_app, La in Hp. eapply has_file_lookup. eapply Hdst; eauto.
    + assert (p <> dd ++ [dc]) by congruence.
      eapply file_ok2_same. apply lookup_del_file; [|exact Pap].
      apply lookup_put_file; eauto.
  - intros _. cbn [delivered2]. rewrite Pa', Pb'.
    unfold sub_files. rewrite La. apply forallb_forall. intros [q dq] Hin. cbn [fst snd].
    destruct (files_of_lookup src Wsrc q dq Hin) as [mq Hq].
    eapply has_file_lookup. eapply Hdst; eauto.
Qed.
Print Assumptions ref_preserved2_movedir_fresh.

Theorem mem_preserved2_movedir_fresh : forall src dst create pt s cs cd,
  wf s -> rpath src = inl cs -> rpath dst = inl cd -> lookup s cd = None ->
  preserved2 s (fst (mem_run (OMovedir src dst create pt) s)) (OMovedir src dst create pt)
            (is_ok (snd (mem_run (OMovedir src dst create pt) s))) = true.
Proof.
  intros src dst create pt s cs cd W R1 R2 L.
  destruct (smovedir_fast src dst create pt s cs cd W R1 R2 L) as [[A T] _].
  pose proof (ref_preserved2_movedir_fresh src dst create pt cs cd s _ W R1 R2 L T) as P.
  replace (is_ok (snd (mem_run (OMovedir src dst create pt) s)))
    with (match rs_res (ref_run (OMovedir src dst create pt) s) with ROk _ => true | _ => false end);
    [exact P|].
  assert (NA : rs_res (ref_run (OMovedir src dst create pt) s) <> RAny).
  { intro X. cbn [ref_run] in X, T. unfold with2 in X, T. rewrite R1, R2 in X, T.
    apply dt_any in X. congruence. }
  unfold res_agree in A.
  destruct (snd (mem_run (OMovedir src dst create pt) s)) as [v|e|k];
    destruct (rs_res (ref_run (OMovedir src dst create pt) s));
    try discriminate A; try reflexivity; try congruence;
    destruct k; discriminate A.
Qed.
Print Assumptions mem_preserved2_movedir_fresh.

(* ================================================================== *)
(* 4. copydir / movedir with directory merges, whatever the outcome    *)
(* ================================================================== *)
Lemma allowed_copydir_src t s d c pt ok a b S0 x dd m old :
  rp s = Some a -> rp d = Some b -> lookup t a = Some S0 -> lookup S0 x = Some (File dd m) ->
  In dd (allowed_after t (OCopydir s d c pt) ok (b ++ x) old).
Proof.
  intros Ra Rb La Lx. unfold allowed_after. rewrite Ra, Rb. right. eapply In_src_for; eauto.
Qed.

Lemma allowed_movedir_src t s d c pt ok a b S0 x dd m old :
  rp s = Some a -> rp d = Some b -> lookup t a = Some S0 -> lookup S0 x = Some (File dd m) ->
  In dd (allowed_after t (OMovedir s d c pt) ok (b ++ x) old).
Proof.
  intros Ra Rb La Lx. unfold allowed_after. rewrite Ra, Rb. right. eapply In_src_for; eauto.
Qed.

Section Pres2.
  Variables (a b : list str) (pt : bool) (S0 : node).
  Hypothesis Va : vp a.
  Hypothesis Vb : vp b.
  Hypothesis Dab : diverge a b.
  Hypothesis S0dir : is_dir S0 = true.

  Notation P := (P a S0).

  (* every file is still a file; its bytes are its old bytes or, at a destination path
     b ++ x, the bytes of the source file x *)
  Definition kept2 (t t' : node) : Prop :=
    forall q d m, lookup t q = Some (File d m) ->
      exists d' m', lookup t' q = Some (File d' m') /\
        (d' = d \/ exists x ms, q = b ++ x /\ lookup S0 x = Some (File d' ms)).

  Lemma kept2_refl t : kept2 t t.
  Proof. intros q d m H. exists d, m. auto. Qed.

  Lemma kept2_trans t1 t2 t3 : kept2 t1 t2 -> kept2 t2 t3 -> kept2 t1 t3.
  Proof.
    intros H1 H2 q d m H. destruct (H1 q d m H) as (d2 & m2 & L2 & A2).
    destruct (H2 q d2 m2 L2) as (d3 & m3 & L3 & A3).
    exists d3, m3. split; [exact L3|].
    destruct A3 as [->|A3]; [exact A2|now right].
  Qed.

  Lemma mono_kept2 t t' : mono t t' -> kept2 t t'.
  Proof.
    intros H q d m L. exists d, m. split; [|now left].
    apply shl_file. apply H. now apply shl_file.
  Qed.

  Lemma act2_kept2 x n t t1 out :
    P t -> lookup S0 x = Some n -> x <> [] -> act2 a b pt x n t = (t1, out) -> kept2 t t1.
  Proof.
    intros HP L Nx H. unfold act2 in H.
    destruct (is_dir n) eqn:Dn; [inversion H; subst; apply kept2_refl|].
    assert (Vx : vp x) by (eapply (P_vp_x a S0); eauto).
    assert (V1 : vp (a ++ x)) by (apply vp_app; split; [exact Va|exact Vx]).
    assert (V2 : vp (b ++ x)) by (apply vp_app; split; [exact Vb|exact Vx]).
    rewrite (cfi_eq _ _ pt t V1 V2 (neq_ax_bx a b Dab _)) in H.
    pose proof HP as (W & N & La).
    destruct (copy_step t _ _ true pt W V1 V2) as (t1' & out' & E & T & A & W1).
    rewrite E in H. inversion H; subst t1' out'. clear H E.
    unfold ref_copy in T.
    destruct (transfer_errors t (a ++ x) (b ++ x) true ++
              (if path_eqb (a ++ x) (b ++ x) then [IllegalDestination] else [])) eqn:Et.
    2:{ cbn [rs_tree fail same] in T. inversion T; subst. apply kept2_refl. }
    apply app_eq_nil in Et as [Et _].
    destruct (transfer_ok t _ _ true W Et) as (_ & Lb & (dd & dc & ents & m0 & Eb & Ld)).
    assert (Hnd : lookup t (b ++ x) = None \/ exists d2 m2, lookup t (b ++ x) = Some (File d2 m2))
      by (destruct Lb as [Lb|[_ Lb]]; auto).
    assert (Ls : lookup t (a ++ x) = Some n) by (rewrite lookup_app, La; exact L).
    rewrite Ls in T. destruct n as [d m|]; [|discriminate].
    cbn [rs_tree] in T. inversion T; subst t1. clear T.
    intros q d' m' Lq.
    destruct (path_eqb q (b ++ x)) eqn:Eq.
    - apply path_eqb_eq in Eq. subst q. exists d. eexists. split.
      + rewrite Eb. eapply lookup_put_same; eauto.
      + right. exists x, m. auto.
    - exists d', m'. split; [|now left]. apply lookup_put_file; auto.
      intro; subst q. now rewrite path_eqb_refl in Eq.
  Qed.

  Lemma mfor_act2_kept2 l : forall t t' out,
    P t -> sound_list S0 l -> mfor l (act' (act2 a b pt)) t = (t', out) -> kept2 t t'.
  Proof.
    induction l as [|[x n] l IH]; intros t t' out HP Snd H.
    - inversion H; subst. apply kept2_refl.
    - inversion Snd as [|? ? [S1 S2] S3]; subst. cbn [fst snd] in S1, S2.
      cbn [mfor] in H. unfold mbind in H. unfold act' at 1 in H. cbn [fst snd] in H.
      destruct (act2 a b pt x n t) as [t1 o1] eqn:E.
      pose proof (act2_kept2 x n t t1 o1 HP S1 S2 E) as M1.
      destruct o1 as [u|e|c]; try (inversion H; subst; exact M1).
      eapply kept2_trans; [exact M1|]. eapply IH; [|exact S3|exact H].
      eapply (act2_P a b pt S0 Va Vb Dab); eauto.
  Qed.

  Lemma run2_kept2 t : P t -> kept2 t (fst (run2 a b pt t)).
  Proof.
    intro HP. unfold run2.
    rewrite (walk1 a b S0 Va Vb Dab S0dir t _ HP (fuel_ok a S0 t HP)).
    set (l1 := bfs_list S0 (2 * tree_size t + 2) [[]]).
    assert (Snd1 : sound_list S0 l1)
      by (apply bfs_sound; [exact (wfS a S0 t HP)|exact (S0_dirs_in S0 S0dir)]).
    destruct (mfor l1 (act' (act1 b)) t) as [t1 o1] eqn:E1.
    pose proof (mfor_act1_mono a b S0 Vb Dab l1 t t1 o1 HP Snd1 E1) as M1.
    destruct o1 as [u|e|c]; try (cbn [fst]; now apply mono_kept2).
    assert (HP1 : P t1).
    { eapply (mfor_P a S0 (act1 b) (act1_P a b S0 Vb Dab)); eauto. }
    rewrite (walk2 a b pt S0 Va Vb Dab S0dir t1 _ HP1 (fuel_ok a S0 t1 HP1)).
    set (l2 := bfs_list S0 (2 * tree_size t1 + 2) [[]]).
    assert (Snd2 : sound_list S0 l2)
      by (apply bfs_sound; [exact (wfS a S0 t HP)|exact (S0_dirs_in S0 S0dir)]).
    destruct (mfor l2 (act' (act2 a b pt)) t1) as [t2 o2] eqn:E2.
    cbn [fst]. eapply kept2_trans; [apply mono_kept2; exact M1|].
    eapply mfor_act2_kept2; eauto.
  Qed.

  Lemma copy_dir_kept2 p1 p2 s :
    rpath p1 = inl a -> rpath p2 = inl b -> P s ->
    kept2 s (fst (copy_dir mem_low mem_copy p1 p2 pt s)).
  Proof.
    intros R1 R2 HP. pose proof HP as (W & N & La).
    assert (Wd : is_dir s = true) by (destruct W; assumption).
    rewrite (copy_dir_run a b pt S0 Va Vb Dab _ _ s R1 R2 HP).
    destruct (makedirs_spec _ true s b W (rpath_nf _ Vb)) as [Emk _].
    rewrite Emk. unfold makedirs_rhs.
    destruct (prefix_is_file s [] b) eqn:Pf; [apply kept2_refl|].
    destruct (lookup s b) as [D|] eqn:Lb.
    - assert (DD : is_dir D = true).
      { destruct D as [d0 m0|]; [|reflexivity].
        rewrite (pif_file_true s b d0 m0 Wd Lb) in Pf. discriminate. }
      destruct D as [|eb mb]; [discriminate|].
      rewrite (status_dir _ _ _ _ Lb). now apply run2_kept2.
    - assert (Hst : match status_of s b with IsDir => False | _ => True end)
        by (apply status_missing; exact Lb).
      assert (Est : match status_of s b with
                    | IsDir => (s, @Ok unit tt)
                    | _ => (mkdirs s [] b, Ok tt)
                    end = (mkdirs s [] b, Ok tt)).
      { destruct (status_of s b); try reflexivity. contradiction. }
      rewrite Est. set (t0 := mkdirs s [] b).
      assert (Hab : list_prefix a b = false) by (now apply diverge_prefix).
      assert (HP0 : P t0) by (apply (mkdirs_P a S0 b [] s HP Vb Hab)).
      eapply kept2_trans; [apply mono_kept2; apply mkdirs_mono|]. now apply run2_kept2.
  Qed.
End Pres2.

Theorem mem_preserved2_copydir : forall src dst create pt s a b,
  wf s -> nn s -> rpath src = inl a -> rpath dst = inl b -> list_prefix b a = false ->
  preserved2 s (fst (mem_run (OCopydir src dst create pt) s)) (OCopydir src dst create pt)
             (is_ok (snd (mem_run (OCopydir src dst create pt) s))) = true.
Proof.
  intros src dst create pt s a b W N R1 R2 Hba.
  cbn [mem_run].
  destruct (is_ok_vmap (fun _ : unit => VUnit) (mem_copydir src dst create pt) s) as [E1 E2].
  rewrite E1, E2. clear E1 E2.
  pose proof (rpath_vp _ _ R1) as Va. pose proof (rpath_vp _ _ R2) as Vb.
  rewrite (copydir_unfold _ _ create pt s a b R1 R2).
  destruct (list_prefix a b) eqn:Hab; [now apply preserved2_noop|].
  pose proof (diverge_of_prefix a b Hab Hba) as Dab.
  destruct (negb (if create then true else match lookup s b with Some _ => true | None => false end));
    [now apply preserved2_noop|].
  destruct (lookup s a) as [S0|] eqn:La; [|now apply preserved2_noop].
  destruct (is_dir S0) eqn:Sd; [|now apply preserved2_noop].
  assert (HP : P a S0 s) by (split; [exact W|split; [exact N|exact La]]).
  destruct (copy_dir_facts a b pt S0 Va Vb Dab Sd _ _ s (rpath_nf _ Va) (rpath_nf _ Vb) HP)
    as [_ Hd].
  pose proof (copy_dir_kept2 a b pt S0 Va Vb Dab Sd _ _ s (rpath_nf _ Va) (rpath_nf _ Vb) HP)
    as Hk.
  set (r := copy_dir mem_low mem_copy (to_path true a) (to_path true b) pt s) in *.
  pose proof (rp_inl _ _ R1) as Pa'. pose proof (rp_inl _ _ R2) as Pb'.
  apply preserved2_intro; [destruct W; assumption| |].
  - intros q d m Lq.
    destruct (Hk q d m Lq) as (d' & m' & L' & [->|(x & ms & -> & Lx)]).
    + eapply file_ok2_same; eauto.
    + eapply file_ok2_present; [exact L'|]. eapply allowed_copydir_src; eauto.
  - intro Ok. cbn [delivered2]. rewrite Pa', Pb'.
    destruct (Hd Ok) as [Hdl _]. eapply deliv_forallb; eauto.
Qed.
Print Assumptions mem_preserved2_copydir.

Theorem mem_preserved2_movedir : forall src dst create pt s a b,
  wf s -> nn s -> rpath src = inl a -> rpath dst = inl b -> list_prefix b a = false ->
  preserved2 s (fst (mem_run (OMovedir src dst create pt) s)) (OMovedir src dst create pt)
             (is_ok (snd (mem_run (OMovedir src dst create pt) s))) = true.
Proof.
  intros src dst create pt s a b W N R1 R2 Hba.
  destruct (lookup s b) as [D|] eqn:Lb.
  2:{ exact (mem_preserved2_movedir_fresh src dst create pt s a b W R1 R2 Lb). }
  cbn [mem_run].
  destruct (is_ok_vmap (fun _ : unit => VUnit) (mem_movedir src dst create pt) s) as [E1 E2].
  rewrite E1, E2. clear E1 E2.
  pose proof (rpath_vp _ _ R1) as Va. pose proof (rpath_vp _ _ R2) as Vb.
  destruct (list_prefix a b) eqn:Hab.
  { destruct (path_eqb a b) eqn:Eab.
    - apply path_eqb_eq in Eab. subst b. rewrite list_prefix_refl in Hba. discriminate.
    - rewrite (movedir_prefix_illegal src dst create pt s a b R1 R2 Hab Eab).
      now apply preserved2_noop. }
  pose proof (diverge_of_prefix a b Hab Hba) as Dab.
  rewrite (movedir_exist_unfold _ _ create pt s a b D R1 R2 Dab Lb).
  destruct (lookup s a) as [S0|] eqn:La; [|now apply preserved2_noop].
  destruct S0 as [d0 m0|es ms]; [now apply preserved2_noop|].
  set (S0 := Dir es ms) in *.
  assert (Sd : is_dir S0 = true) by reflexivity.
  assert (HP : P a S0 s) by (split; [exact W|split; [exact N|exact La]]).
  rewrite (base_movedir_unfold _ _ create pt s a b S0 D R1 R2 Dab La Sd Lb).
  destruct (is_dir D); [|now apply preserved2_noop].
  destruct (copy_dir_facts a b pt S0 Va Vb Dab Sd _ _ s R1 R2 HP) as [_ Hd].
  pose proof (copy_dir_kept2 a b pt S0 Va Vb Dab Sd _ _ s R1 R2 HP) as Hk.
  pose proof (rp_inl _ _ R1) as Pa'. pose proof (rp_inl _ _ R2) as Pb'.
  assert (Hfail : forall t2,
             kept2 b S0 s t2 -> preserved2 s t2 (OMovedir src dst create pt) false = true).
  { intros t2 Hk2. apply preserved2_intro; [destruct W; assumption| |discriminate].
    intros q d m Lq.
    destruct (Hk2 q d m Lq) as (d' & m' & L' & [->|(x & mx & -> & Lx)]).
    - eapply file_ok2_same; eauto.
    - eapply file_ok2_present; [exact L'|]. eapply allowed_movedir_src; eauto. }
  destruct (copy_dir mem_low mem_copy src dst pt s) as [t2 [u|e|c]] eqn:Ec; cbn [fst snd is_ok] in *.
  - (* copied: the source is removed *)
    destruct (Hd eq_refl) as [Hdl HP2]. pose proof HP2 as (W2 & N2 & La2).
    destruct (list_snoc_case a) as [Ea|[sd [sc Ea]]].
    { exfalso. destruct Dab as (u0 & c1 & c2 & p' & q' & _ & E0 & _). rewrite Ea in E0.
      destruct u0; discriminate. }
    assert (Na : a <> []) by (rewrite Ea; apply snoc_ne').
    assert (Er : mem_removetree src t2 = (del t2 a, Ok tt)).
    { subst a. rewrite (mem_removetree_snoc _ _ _ t2 R1).
      pose proof La2 as La2'. rewrite lookup_snoc in La2'.
      destruct (lookup t2 sd) as [[|ed md]|]; try discriminate. rewrite La2'. reflexivity. }
    rewrite Er. cbn [fst snd is_ok].
    (* every source file is at its destination, also after the removal *)
    assert (Hdst : forall x d m, lookup S0 x = Some (File d m) ->
               exists m', lookup (del t2 a) (b ++ x) = Some (File d m')).
    { intros x d m Lx. destruct (Hdl x d m Lx) as [m' H]. exists m'.
      apply lookup_del_file; [exact H|].
      apply diverge_prefix. apply diverge_sym.
      pose proof (diverge_app b a x [] (diverge_sym _ _ Dab)) as Hdv.
      now rewrite app_nil_r in Hdv. }
    apply preserved2_intro; [destruct W; assumption| |].
    + intros q d m Lq.
      destruct (list_prefix a q) eqn:Pq.
      * apply list_prefix_ex in Pq as [x ->].
        apply file_ok2_absent; [apply lookup_del_below; [destruct W2; assumption|exact Na]|].
        cbn [gone_ok]. rewrite Pa', Pb'.
        assert (Hpre : list_prefix a (a ++ x) = true) by (apply list_prefix_ex; eauto).
        rewrite Hpre, skipn_len_app. cbn [andb].
        rewrite lookup_app, La in Lq. destruct (Hdst x d m Lq) as [m' H].
        eapply has_file_lookup; eauto.
      * destruct (Hk q d m Lq) as (d' & m' & L' & Alt).
        pose proof (lookup_del_file a _ _ _ _ L' Pq) as L2.
        destruct Alt as [->|(x & mx & -> & Lx)].
        -- eapply file_ok2_same; eauto.
        -- eapply file_ok2_present; [exact L2|]. eapply allowed_movedir_src; eauto.
    + intros _. cbn [delivered2]. rewrite Pa', Pb'.
      eapply (deliv_forallb a b S0); eauto.
  - now apply Hfail.
  - now apply Hfail.
Qed.
Print Assumptions mem_preserved2_movedir.

(* ================================================================== *)
(* 5. what the new predicate adds: a transfer of a resource onto       *)
(* ITSELF may not change or remove any file at all                     *)
(* ================================================================== *)
Definition self_transfer (o : op) : bool :=
  match o with
  | OMove s d _ _ | OCopy s d _ _ | OMovedir s d _ _ | OCopydir s d _ _ =>
    match rp s, rp d with Some a, Some b => path_eqb a b | _, _ => false end
  | _ => false
  end.

Lemma src_for_self t a p old m d' : wf_node t ->
  lookup t p = Some (File old m) -> In d' (src_for t a a p) -> d' = old.
Proof.
  intros W Lp Hin. unfold src_for, sub_files in Hin.
  apply in_map_iff in Hin as [[r dr] [E Hin]]. cbn [snd] in E. subst dr.
  apply filter_In in Hin as [Hin Hp]. cbn [fst] in Hp. apply path_eqb_eq in Hp. subst p.
  destruct (lookup t a) as [n|] eqn:La; [|contradiction].
  destruct (files_of_lookup n (wf_lookup _ _ _ W La) r d' Hin) as [m' Lr].
  rewrite lookup_app, La, Lr in Lp. now inversion Lp.
Qed.

Theorem preserved2_self_keeps_everything : forall before after o ok,
  wf before -> self_transfer o = true -> preserved2 before after o ok = true ->
  all_files_kept before after (fun _ => false) = true.
Proof.
  intros before after o ok [_ W] S H. unfold preserved2 in H.
  assert (T : is_transfer o = true) by (destruct o; try discriminate S; reflexivity).
  rewrite T in H. apply andb_true_iff in H as [H _]. rewrite forallb_forall in H.
  unfold all_files_kept. apply forallb_forall. intros [p old] Hin. cbn [fst snd orb].
  specialize (H _ Hin). destruct (files_of_lookup before W p old Hin) as [m Lp].
  unfold file_ok2 in H. cbn [fst snd] in H. unfold has_file.
  assert (Hself : forall a, list_prefix a p = true -> a ++ skipn (List.length a) p = p).
  { intros a Hp. apply list_prefix_ex in Hp as [x ->]. now rewrite skipn_len_app. }
  destruct (file_at after p) as [d'|] eqn:Fp.
  - unfold allowed_after in H. cbn [existsb] in H. apply orb_true_iff in H as [H|H].
    { apply str_eqb_eq in H. subst d'. apply str_eqb_refl. }
    apply existsb_exists in H as [x [Hx E]]. apply str_eqb_eq in E. subst x.
    assert (d' = old); [|subst; apply str_eqb_refl].
    destruct o; try discriminate S; cbn [self_transfer] in S;
      destruct (rp s) as [a|], (rp d) as [b|]; try discriminate S;
      apply path_eqb_eq in S; subst b.
    + destruct (overwrite && path_eqb p a) eqn:E; [|contradiction].
      apply andb_true_iff in E as [_ E]. apply path_eqb_eq in E. subst p.
      unfold file_at in Hx. rewrite Lp in Hx. destruct Hx as [Hx|[]]. congruence.
    + destruct (overwrite && path_eqb p a) eqn:E; [|contradiction].
      apply andb_true_iff in E as [_ E]. apply path_eqb_eq in E. subst p.
      unfold file_at in Hx. rewrite Lp in Hx. destruct Hx as [Hx|[]]. congruence.
    + eapply src_for_self; eauto.
    + eapply src_for_self; eauto.
  - exfalso.
    destruct o; try discriminate S; cbn [self_transfer] in S; cbn [gone_ok] in H;
      destruct (rp s) as [a|], (rp d) as [b|]; try discriminate S; try discriminate H;
      apply path_eqb_eq in S; subst b; apply andb_true_iff in H as [H1 H2].
    + apply path_eqb_eq in H1. subst p. unfold has_file in H2. rewrite Fp in H2. discriminate.
    + rewrite (Hself a H1) in H2. unfold has_file in H2. rewrite Fp in H2. discriminate.
Qed.
Print Assumptions preserved2_self_keeps_everything.

(* after a successful call every pre-existing file at a destination holds the source bytes
   (this is why [allowed_after] does not need its [ok] argument) *)
Theorem preserved2_ok_delivered : forall before after o,
  is_transfer o = true -> preserved2 before after o true = true ->
  delivered2 before after o = true.
Proof.
  intros before after o T H. unfold preserved2 in H. rewrite T in H.
  apply andb_true_iff in H as [_ H]. exact H.
Qed.
Print Assumptions preserved2_ok_delivered.

(* ================================================================== *)
(* 6. examples (vm_compute)                                            *)
(* ================================================================== *)
Module Examples2.
  Import String.
  Local Open Scope string_scope.
  Local Open Scope list_scope.

  Definition F (x : string) : node := File (lit x) None.
  Definition D (l : list (string * node)) : node :=
    Dir (map (fun kn => (lit (fst kn), snd kn)) l) None.

  Definition t0 : node :=
    D [("a", D [("f", F "data"); ("g", F "gg"); ("sub", D [("h", F "hh")])]);
       ("b", D [("f", F "old")]);
       ("c", F "cc")].

  (* (i) the seeded bug: copydir / movedir of /a onto itself truncates /a/f *)
  Definition t0_trunc : node :=
    D [("a", D [("f", F ""); ("g", F "gg"); ("sub", D [("h", F "hh")])]);
       ("b", D [("f", F "old")]);
       ("c", F "cc")].

  Definition o_copydir_self : op := OCopydir (lit "/a") (lit "/a") true false.

  Example trunc_copydir_self :
    (preserved t0 t0_trunc o_copydir_self true, preserved2 t0 t0_trunc o_copydir_self true)
    = (true, false).
  Proof. vm_compute. reflexivity. Qed.

  Example trunc_movedir_self :
    let o := OMovedir (lit "/a") (lit "/a") true false in
    (preserved t0 t0_trunc o true, preserved2 t0 t0_trunc o true,
     preserved t0 t0_trunc o false, preserved2 t0 t0_trunc o false) = (true, false, true, false).
  Proof. vm_compute. reflexivity. Qed.

  (* the same with an equivalent spelling of the destination *)
  Example trunc_copydir_self_spelling :
    let o := OCopydir (lit "/a") (lit "a/sub/..") true false in
    (preserved t0 t0_trunc o true, preserved2 t0 t0_trunc o true) = (true, false).
  Proof. vm_compute. reflexivity. Qed.

  (* a file moved onto itself disappears, the call raises *)
  Definition t0_lost : node :=
    D [("a", D [("f", F "data"); ("g", F "gg"); ("sub", D [("h", F "hh")])]);
       ("b", D [("f", F "old")])].

  Example move_self_lost :
    let o := OMove (lit "/c") (lit "/c") true false in
    (preserved t0 t0_lost o false, preserved2 t0 t0_lost o false) = (true, false).
  Proof. vm_compute. reflexivity. Qed.

  (* a moved source disappears although the failed call did not deliver it *)
  Example move_failed_source_lost :
    let o := OMove (lit "/c") (lit "/b/f") true false in
    (preserved t0 t0_lost o false, preserved2 t0 t0_lost o false) = (true, false).
  Proof. vm_compute. reflexivity. Qed.

  (* (ii) an overwritten destination holding foreign bytes (the call failed midway) *)
  Definition t0_junk : node :=
    D [("a", D [("f", F "data"); ("g", F "gg"); ("sub", D [("h", F "hh")])]);
       ("b", D [("f", F "junk")]);
       ("c", F "cc")].

  Example junk_copy :
    let o := OCopy (lit "/a/f") (lit "/b/f") true false in
    (preserved t0 t0_junk o false, preserved2 t0 t0_junk o false) = (true, false).
  Proof. vm_compute. reflexivity. Qed.

  Example junk_copydir :
    let o := OCopydir (lit "/a") (lit "/b") true false in
    (preserved t0 t0_junk o false, preserved2 t0 t0_junk o false) = (true, false).
  Proof. vm_compute. reflexivity. Qed.

  Example junk_movedir :
    let o := OMovedir (lit "/a") (lit "/b") true false in
    (preserved t0 t0_junk o false, preserved2 t0 t0_junk o false) = (true, false).
  Proof. vm_compute. reflexivity. Qed.

  (* ... while the source bytes (or the old ones) at the destination of a failed call are
     accepted *)
  Definition t0_half : node :=
    D [("a", D [("f", F "data"); ("g", F "gg"); ("sub", D [("h", F "hh")])]);
       ("b", D [("f", F "data")]);
       ("c", F "cc")].

  Example half_copydir :
    let o := OCopydir (lit "/a") (lit "/b") true false in
    (preserved2 t0 t0_half o false, preserved2 t0 t0 o false) = (true, true).
  Proof. vm_compute. reflexivity. Qed.

  (* a movedir that failed after removing part of the source: accepted exactly when the
     removed file is at its destination *)
  Definition t0_moved_f : node :=
    D [("a", D [("g", F "gg"); ("sub", D [("h", F "hh")])]);
       ("b", D [("f", F "data")]);
       ("c", F "cc")].
  Definition t0_lost_f : node :=
    D [("a", D [("g", F "gg"); ("sub", D [("h", F "hh")])]);
       ("b", D [("f", F "old")]);
       ("c", F "cc")].

  Example partial_movedir :
    let o := OMovedir (lit "/a") (lit "/b") true false in
    (preserved2 t0 t0_moved_f o false, preserved t0 t0_lost_f o false,
     preserved2 t0 t0_lost_f o false) = (true, true, false).
  Proof. vm_compute. reflexivity. Qed.

  (* (iii) the results of the MemoryFS model, legitimate by the theorems above *)
  Definition legit (o : op) : bool :=
    let r := mem_run o t0 in preserved2 t0 (fst r) o (is_ok (snd r)).

  Example legit_results :
    forallb legit
      [OCopydir (lit "/a") (lit "/b") true false;      (* merge, /b/f overwritten *)
       OCopydir (lit "/a") (lit "/z") true false;
       OCopydir (lit "/a") (lit "/z") false false;     (* fails *)
       OCopydir (lit "/a") (lit "/a") true false;      (* fails: IllegalDestination *)
       OCopydir (lit "/a") (lit "/") true false;
       OCopydir (lit "/") (lit "/a") true false;       (* fails *)
       OMovedir (lit "/a") (lit "/b") true false;      (* merge *)
       OMovedir (lit "/a") (lit "/z") true false;      (* fresh destination *)
       OMovedir (lit "/a") (lit "/a") true false;      (* no-op *)
       OMovedir (lit "/a") (lit "/") true false;
       OMovedir (lit "/a") (lit "/a/sub") true false;  (* fails *)
       OMove (lit "/a/f") (lit "/b/f") true false;
       OMove (lit "/a/f") (lit "/b/f") false false;    (* fails: DestinationExists *)
       OMove (lit "/a/f") (lit "/a/f") true false;     (* no-op *)
       OMove (lit "/a/f") (lit "/b/new") false false;
       OCopy (lit "/a/f") (lit "/b/f") true false;
       OCopy (lit "/a/f") (lit "/b/f") false false;    (* fails *)
       OCopy (lit "/a/f") (lit "/a/f") true false;     (* fails *)
       OCopy (lit "/a/f") (lit "/b/new") false true;
       ORemovetree (lit "/a");
       ORemovetree (lit "/");
       ORemovetree (lit "/c");                         (* fails: a file *)
       ORemovetree (lit "/nope")] = true.
  Proof. vm_compute. reflexivity. Qed.

  (* which of them succeed *)
  Example legit_outcomes :
    map (fun o => is_ok (snd (mem_run o t0)))
      [OCopydir (lit "/a") (lit "/b") true false; OCopydir (lit "/a") (lit "/a") true false;
       OMovedir (lit "/a") (lit "/b") true false; OMovedir (lit "/a") (lit "/a") true false;
       OMove (lit "/a/f") (lit "/b/f") true false; OCopy (lit "/a/f") (lit "/b/f") true false;
       ORemovetree (lit "/a")]
    = [true; false; true; true; true; true; true].
  Proof. vm_compute. reflexivity. Qed.
End Examples2.
